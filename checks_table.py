"""Job table of the driver: which test processes decide which property.

job fields: name, pkg (relative to harness/), go (toolchain binary), test (Go test function),
shards (quick, thorough), checks = -rapid.checks per shard (quick, thorough), scale = VERIF_SCALE
(quick, thorough) used by enumerating loops, timeout in seconds (quick, thorough) = wall-clock
budget after which the run is *inconclusive* (exit 2), race (build with -race),
kind="fuzz": native coverage-guided fuzzing (thorough tier only).
"""

GO = "go"          # default toolchain (1.23.5) - the one the repository's suite runs on
GO126 = "go1.26.8"  # only for testing/synctest (virtual time)

CHECKS = {}
NOT_APPLICABLE = {}   # property id -> reason (only for properties that are *not* claimed)
HOOK_COMMITS = []     # commits in /repo that add the build-tag-guarded hooks

CHECKS["C18"] = dict(
    rule=("exhaustive round trip of all 65535 non-zero group and individual addresses; exhaustive component "
          "tuples over the documented ranges widened by 4 on both sides (negatives included) against an independent "
          "reference parser; exhaustive constructor argument spaces (3 x 2^24 + 2^16) against shift/mask reference; "
          "every component of every form replaced by k*2^w + r (w = 8,16,31,32,63,64; r at the edges of its range), rapid grammar-based malformed strings and rapid wrapped numerals. Non-trivial = round-trip address, or tuple with a component on or "
          "outside a range bound, or malformed string (distinct by text)."),
    level_text=("Exhaustive enumeration of the finite sub-spaces the statement names (all addresses, all widened component tuples, "
                "all constructor arguments) plus generated malformed text, against an independent reference parser/formatter. "
                "Exploration: complete on those sub-spaces, sampled on free text."),
    level_note="Trusted: the reference parser in harness/pure/c18_test.go (written from the doc comments). Free-form malformed text is sampled, not exhausted.",
    technique="exhaustive enumeration + rapid grammar-based generation vs. independent reference parser (differential)",
    assumptions=["signed / zero-padded numerals (which %d admits) are a don't-care for acceptance; if accepted the value must be the reference value"],
    jobs=[dict(name="pure", pkg="./pure", go=GO, test="TestC18", shards=(1, 4), checks=(20000, 250000),
               timeout=(300, 1800))],
)

CHECKS["C02"] = dict(
    rule=("rapid-generated frame descriptions over the product service shape x cEMI kind (14 shapes, 11 cEMI kinds; cell drawn "
          "uniformly), all fields over the ranges quantified in the statement; each is (1) built as a library value, encoded, decoded "
          "and compared field by field incl. dynamic type, service id and message code, (2) encoded by the independent reference "
          "encoder, decoded by the library, re-encoded, decoded again and compared; then the buffer the value was decoded from is overwritten and the value rendered and re-encoded once more (a relay reuses its receive buffer); the decoded value is overwritten through reflection and the bytes decoded again; a third of the plans decode a second frame of the same shape into the used service value / message variable / message body and compare with a decode into a zero value; one plan in 100 is a codec storm (2..8 goroutines encoding, decoding and re-encoding their own frames 50..300 times). Non-trivial = frame with a nested cEMI message or "
          "a description block; distinct by reference encoding."),
    level_text=("Sampled exploration of the value space with an exact round-trip oracle and an independent reference encoder for the "
                "decode-first half; every service x cEMI cell is hit (histogram in the evidence)."),
    level_note="Trusted: harness/common/ref.go (reference encoder), Canon/SameValue (nil and empty slices identified). Values outside the quantified ranges (MAC != 6 bytes, names with NUL) are excluded as the wire format cannot carry them.",
    technique="rapid property-based round trip + differential against an independent reference encoder; native fuzzing of the decode-first half (thorough)",
    assumptions=["'accepts the whole encoding' is read as: Unpack of the complete encoding returns no error and consumes no more than its length"],
    jobs=[dict(name="pure", pkg="./pure", go=GO, test="TestC02", shards=(2, 16), checks=(40000, 600000), timeout=(300, 3000)),
          dict(name="fuzz-knxnet", kind="fuzz", pkg="./pure", go=GO, target="FuzzKnxnetUnpack", fuzztime=60)],
)

CHECKS["C01"] = dict(
    rule=("inputs are derived constructively from reference-encoded valid frames of all 15 services (+ an unknown one) x 11 cEMI kinds: "
          "every truncation and every single (and, for a quarter, pairwise) length-octet overwrite enumerated per frame; rapid-drawn "
          "truncations, length-octet overwrites, bit flips, insert/delete, splices, trailing garbage, raw bodies, generated DIB lists "
          "with disagreeing lengths; fed to knxnet.Unpack, cemi.Unpack and every exported Unpack method. Each input is decoded in "
          "four buffer contexts (exact capacity; prefix of a 0x00-, 0xFF- and remnant-filled larger buffer). Receiver histories (job sock): "
          "sequences of 1..40 well-formed and malformed datagrams / TCP units (malformed body under a consistent header; a final unit with "
          "broken framing: total length 0..5, bad header octets, lying length, partial header) pushed through live DialTunnelUDP / "
          "DialTunnelTCP sockets on loopback, the TCP stream of half of the plans written in 1..40-byte segments with pauses of 0..300 us. "
          "Non-trivial = input that is "
          "not an unmodified valid encoding and (for knxnet.Unpack) has a valid header with a known service id, or a receiver sequence "
          "containing a malformed item; distinct by (target, bytes) / plan."),
    level_text=("Generated-input search with a four-way differential oracle (no panic, no hang by watchdog, n <= len, outcome "
                "independent of bytes beyond the input) plus live-socket receiver histories; exhaustive per frame on truncations "
                "and length-octet overwrites, sampled elsewhere; native coverage-guided fuzzing in the thorough tier."),
    level_note="Trusted: harness/common/ref.go for the positions of the length octets; the watchdog limit (4 s for a microsecond-scale call). Inputs above 1024 bytes are not generated.",
    technique="rapid constructive mutation + exhaustive truncation/length sweeps + go native fuzzing, four-way buffer differential oracle; live UDP/TCP receiver histories with markers",
    assumptions=["a hang is declared when one synchronous decode call has not returned after 4 s"],
    jobs=[dict(name="pure", pkg="./pure", go=GO, test="TestC01", shards=(4, 16), checks=(30000, 400000), scale=(1, 4), timeout=(300, 3000)),
          dict(name="sock", pkg="./sock", go=GO, test="TestC01Sock", shards=(2, 8), checks=(150, 2500), timeout=(600, 3000)),
          dict(name="fuzz-knxnet", kind="fuzz", pkg="./pure", go=GO, target="FuzzKnxnetUnpack", fuzztime=90),
          dict(name="fuzz-cemi", kind="fuzz", pkg="./pure", go=GO, target="FuzzCemiUnpack", fuzztime=60)],
)

CHECKS["C11"] = dict(
    rule=("enumerated L_Data descriptions (all 2^16 control-octet pairs, all APCI x sequence x numbered x control/data combinations, "
          "payload lengths 1..254, info lengths 0..255, corner addresses), all 256 x 256 TPCI/APCI octet pairs as raw layouts, the "
          "five helper functions over all 256 arguments, plus rapid-drawn L_Data values; differential in both directions against the "
          "independent reference L_Data encoder/decoder; after decoding, the input buffer is overwritten and the fields compared again. Every enumerated case is distinct by construction and counts as non-trivial "
          "(each exercises a different bit pattern); rapid cases are distinct by reference encoding."),
    level_text=("Exhaustive on the bit-level sub-spaces the statement names, sampled on their product; exact byte-level differential "
                "oracle against an independently written layout codec."),
    level_note="Trusted: harness/common/ref.go (the layout, written from the statement / KNX 03_06_03).",
    technique="exhaustive enumeration + rapid sampling, byte-level differential against an independent reference codec",
    assumptions=["an unnumbered transport unit carries no sequence number: bits 5..2 of its TPCI octet are zero whatever the value's SeqNumber field holds (KNX 03_03_04; the reference encoder writes it that way)"],
    jobs=[dict(name="pure", pkg="./pure", go=GO, test="TestC11", shards=(2, 16), checks=(30000, 400000), timeout=(300, 3000))],
)

CHECKS["C15"] = dict(
    rule=("every value of the C02 product (service shape x cEMI kind, plus the decode-only and unknown services) and each of its "
          "sub-structures (HostInfo, DIBs, service family, Info, transport unit, cEMI message, unknown service) is packed into "
          "Size()+16-byte buffers pre-filled with 0x00, 0xFF and a rapid-drawn pattern and into an exact-capacity slice; plus oversize "
          "info (256..600), application data (256..600), names of 30..80 characters and non-Latin-1 names, decoded by the reference "
          "decoder. Job sock: frames sent by 1..8 goroutines through live sockets and compared at the peer. Non-trivial = frame with nested "
          "cEMI / description block, an oversize part, or >= 2 concurrent senders; distinct by (encoding, fill) / plan."),
    level_text=("Sampled exploration with exact oracles: guard bytes untouched, encoding identical under three pre-fills and in an "
                "exact-size buffer, header length = Size()+6 = len(AllocAndPack); oversize parts decode to the truncated original."),
    level_note="Trusted: harness/common/ref.go reference decoder for the oversize clause. The datagram-length clause is decided on real loopback sockets by the job sock: 1..8 goroutines sending 2..40 frames of mixed sizes through one UDP, TCP or multicast socket; every unit the peer receives must be the reference encoding of a frame that was sent.",
    technique="rapid property-based testing with guard-byte / multi-fill metamorphic oracle and reference decoder; rapid concurrent-send histories on live sockets compared with the reference encoding",
    assumptions=["a name of 30 or more characters may be cut to 29 characters + NUL or to 30 characters (both are 'the field limit')"],
    jobs=[dict(name="pure", pkg="./pure", go=GO, test="TestC15", shards=(2, 16), checks=(30000, 400000), timeout=(300, 3000)),
          dict(name="sock", pkg="./sock", go=GO, test="TestC15Sock", shards=(4, 16), checks=(60, 1500), timeout=(600, 3000))],
)

CHECKS["C06"] = dict(
    rule=("per registered type (dpt.ListSupportedTypes/Produce): all 256 payloads of the 1-byte types, all 2^16 payloads of the 2-byte "
          "types, all 2^16 value encodings of every 3-byte type under three leading bytes (thorough: all 2^24), 4-byte types over "
          "2 x 256 x 256 x 66 structured payloads (thorough: all 2^24 value octets x 2 leading bytes), 5-byte types by stratified "
          "sampling (every exponent x sign x 18 mantissa patterns, powers of two +-1) plus a golden-ratio stride sweep (thorough: all "
          "2^32 encodings of one representative per codec), 7-byte types over all 256 flag octets x edge values, 15-byte and "
          "variable-length types by rapid. Non-trivial = payload the decoder accepts; distinct by (type, payload)."),
    level_text=("Exhaustive on the 1-, 2- and 3-byte payload spaces named in the statement, dense stratified sampling elsewhere; exact "
                "oracle: decode -> encode -> decode must reproduce the value bit for bit, and exact formats must reproduce the payload "
                "up to reserved bits and documented replacements (independent canonicalisation table)."),
    level_note="Trusted: the canonicalisation table and the main-number -> length table in harness/dptc (written from the KNX datapoint format). 5-byte types other than the three representatives are sampled, not exhausted.",
    technique="exhaustive enumeration + rapid sampling, round-trip (decode-encode-decode) oracle with an independent canonical-payload table",
    assumptions=["floats are compared by their bits (NaN payloads and signed zeros must survive)"],
    jobs=[dict(name="dpt", pkg="./dptc", go=GO, test="TestC06", shards=(4, 16), checks=(20000, 300000), timeout=(300, 3000))],
)

CHECKS["C07"] = dict(
    rule=("per numeric type: for every 9.xxx type the decoded value of each of the 65536 encodings, the midpoints between neighbouring "
          "representable values and the float32 neighbours of all of these (both sides of every quantisation boundary and exponent "
          "switch point), each also as an ordered pair with its successor; every step and half step of the scaled 5.xxx/8.xxx types "
          "across and beyond their ranges; range bounds +-4 ulp, far out-of-range magnitudes up to MaxFloat32; IEEE 14.xxx by strata "
          "and stride; all values of bool/8-bit/16-bit integer types, strata of 32-bit ones; struct types over field products incl. "
          "invalid dates/times; rapid: log-uniform floats 1e-3..1e9, bound/switch-point neighbourhoods, pairs, strings of 0..40 runes "
          "over ASCII/Latin-1/BMP/astral/NUL. Every enumerated candidate sits on or next to a quantisation boundary, bound or switch "
          "point and is counted as non-trivial; rapid cases are distinct by plan."),
    level_text=("Dense enumeration around every quantisation boundary of the 16-bit float and the scaled formats plus rapid sampling; "
                "oracles from an independent range/step table: one-step accuracy, monotonicity over ordered pairs, saturation equal "
                "to the bound's encoding, prescribed length, acceptance by the type's own decoder."),
    level_note="Trusted: the range/step table in harness/dptc/lib_test.go (documented ranges of 5.xxx, 8.xxx, 9.xxx) and the length table. float32 inputs are sampled, not exhausted.",
    technique="enumeration of boundary neighbourhoods + rapid sampling of values and ordered pairs; accuracy / monotonicity (metamorphic) / saturation / self-decodability oracles from an independent range table",
    assumptions=["one step = 0.01*2^e of the 16-bit float at the magnitude of the input (plus 4 ulp of float32 arithmetic)",
                 "18.001 values outside {0..63, 128..191} only need to land inside that set (the type is a bit field, not a range)"],
    jobs=[dict(name="dpt", pkg="./dptc", go=GO, test="TestC07", shards=(4, 16), checks=(30000, 400000), timeout=(300, 3000))],
)

CHECKS["C08"] = dict(
    rule=("per registered type: byte strings of every length 0..20 under 9 boundary fills (00 01 3f 40 7f 80 bf c0 ff; with and without zero "
          "first/last byte) and a ramp, all alphabet pairs in adjacent positions at the correct length and +-1, every payload of the "
          "correct length for 1- and 2-byte types, all 2^16 value encodings of the 3-byte types under two leading bytes (thorough: all 2^24), "
          "the date/time/RGB types over 2 x 256 x 256 x 96 payloads (thorough: all 2^24 value octets), all 256 flag octets of the "
          "7-byte types, rapid-drawn strings of arbitrary and near-correct length. Non-trivial = wrong-length input, or correct-length "
          "input that is rejected, or accepted input with reserved/ignored bits set; distinct by (type, bytes)."),
    level_text=("Exhaustive on the short payload spaces and on all lengths 0..20 over a boundary alphabet, sampled elsewhere; oracle: no "
                "panic, wrong length => error, success => independently written range predicate holds (incl. at most 14 characters of the type's character set for 16.xxx) and String()/Unit() return."),
    level_note="Trusted: the range predicates and the length table in harness/dptc (written from the documented ranges).",
    technique="exhaustive enumeration + rapid byte-string generation + go native fuzzing (thorough); totality (panic capture), length-rejection and independent range-predicate oracles",
    assumptions=["types whose main number is not in the harness length table are only checked for totality"],
    jobs=[dict(name="dpt", pkg="./dptc", go=GO, test="TestC08", shards=(4, 16), checks=(30000, 400000), timeout=(300, 3000)),
          dict(name="fuzz-dpt", kind="fuzz", pkg="./dptc", go=GO, target="FuzzDPTUnpack", fuzztime=60)],
)

CHECKS["C19"] = dict(
    rule=("static: all registered names (producible, form main.sub with 3-digit sub-number, unique, dynamic type = DPT_<digits>, zero "
          "value) and all exported DPT_* type declarations found by parsing /repo/knx/dpt/*.go (each reachable through a name); "
          "rapid: near-miss and free strings (unknown => ok=false, nil), single-goroutine histories of 2..40 Produce / Unpack(payload "
          "fitting the handle's type, 10% wrong length) / lookup steps over 1..4 type names, and (job race, built with -race) 2..16 "
          "goroutines running such histories concurrently with a shared name; decode storms: 2..12 goroutines decoding 1..3 payloads each 100..1500 times into their own instances of types with one main number, each result compared with a decode of the same payload done alone. After every step every live handle is compared with a "
          "private snapshot. Non-trivial = history with >= 2 instances of one name and >= 1 successful decode, or a lookup of an "
          "unlisted name; distinct by plan."),
    level_text=("Complete over the registered names and the declared types of the current source; sampled histories and schedules with a "
                "model of independent instances (snapshot per handle, address uniqueness, zero value of every fresh instance); the race "
                "detector is the oracle for unsynchronised shared state."),
    level_note="Trusted: go/parser view of /repo/knx/dpt (non-test files); instance independence and race freedom are shown for sampled histories/schedules only.",
    technique="enumeration of the registry + rapid stateful (model-based) histories, sequential and concurrent under the race detector",
    assumptions=["a failed Unpack may leave its own target partially written (not judged); it must still not touch other instances"],
    jobs=[dict(name="dpt", pkg="./dptc", go=GO, test="TestC19", shards=(2, 12), checks=(3000, 40000), timeout=(300, 3000)),
          dict(name="race", pkg="./dptc", go=GO, test="TestC19", race=True, shards=(2, 4), checks=(300, 4000), timeout=(300, 3000),
               env={"VERIF_JOBNAME": "race"})],
)

HOOK_COMMITS.append("d687880")

_TUN_ASSUME = ["A1: knx-go uses no Timer.Reset/Stop-and-drain idiom, so the timer-channel semantics selected by the harness module's Go version do not change its behaviour",
               "A2: the in-memory socket (harness/common/memsock.go: packs every frame, FIFO pump with blocking hand-off on an unbuffered channel, Close closes Inbound) is a faithful model of the kernel sockets above the socket layer",
               "virtual-time histories never let a goroutine wait for a mutex while time must pass: one outstanding Send at a time, an OK connect response is held back while a Send is pending, one Close caller at a time"]

CHECKS["C03"] = dict(
    rule=("rapid-drawn plans: configuration (resend 50 ms..2 s, timeout r..30r incl. non-multiples, UDP/TCP), 1..600 sequential Sends "
          "(5% of the plans cross the 255->0 wrap), one gateway fate per transmitted request (lost; acknowledged after a delay around "
          "0, r, 2r, T-r, T incl. just before/after each; duplicated 2-4x; error status 1..255; wrong sequence number; foreign channel), "
          "unsolicited acknowledgements at scripted times, disconnect requests forcing a reconnect between/within Sends. Each plan runs "
          "the real Tunnel inside a synctest bubble on an in-memory socket. Job real: 1..8 goroutines issuing 1..600 Sends in total "
          "against a reactive gateway with lost / duplicated / error / wrong-number / foreign-channel acknowledgements on the real "
          "clock. Job real-reconnect: 2..4 senders, the first request unacknowledged while the gateway ends the connection once or twice and "
          "the client reconnects on a new (1 in 4: the same) channel. Non-trivial = history with a retransmission, a failed Send, "
          "an ignored/duplicate/error acknowledgement, the wrap, or >= 2 contending senders; distinct by plan."),
    level_text=("Sampled fault sequences on a fake clock with an exact reference model of the stop-and-wait sender (transmission times "
                "t0+k*r, identical retransmissions, sequence number = acknowledged requests of the epoch mod 256, outcome and return "
                "instant explained by an available matching acknowledgement, timeout at exactly t0+T); concurrent senders are sampled on "
                "the real clock with timing-free invariants (identical retransmissions also across a reconnect, no second request in between)."),
    level_note="Trusted: the reference sender model in harness/tun/c03_test.go, memsock, the hook constructor VerifNewTunnel (duplicates NewTunnel after socket creation). Exact-timing clauses are decided for one outstanding Send at a time; contention is judged by order/accounting invariants only.",
    technique="rapid model-based testing of generated fault scripts under testing/synctest virtual time (exact reference model); rapid concurrent histories on the real clock with history invariants",
    assumptions=_TUN_ASSUME,
    jobs=[dict(name="bubble", pkg="./tun", go=GO126, test="TestC03B", shards=(4, 16), checks=(1500, 25000), timeout=(600, 3000)),
          dict(name="real", pkg="./tun", go=GO, test="TestC03R", shards=(4, 16), checks=(40, 600), timeout=(600, 3000)),
          # real clock: a Send left unacknowledged while the gateway forces a reconnect (new or same channel) keeps
          # retransmitting the request it transmitted first, and nothing else leaves in between
          dict(name="real-reconnect", pkg="./tun", go=GO, test="TestC03RR", shards=(4, 16), checks=(10, 60), timeout=(600, 3000)),
          # the sender's clauses on the wire of a kernel UDP socket with traffic in both directions: one well-formed frame per
          # datagram, consecutive numbers, repetitions identical - while acknowledgements leave through the same socket
          dict(name="sock", pkg="./sock", go=GO, test="TestC03Sock", shards=(2, 8), checks=(8, 150), timeout=(600, 3000))],
)

CHECKS["C04"] = dict(
    rule=("rapid-drawn streams of 1..1000 tunnelling requests (5% long enough to cross the 255->0 wrap several times): channel current/foreign, "
          "sequence number expected / previous / next / far off / absolute, back-to-back repetitions, disconnect requests forcing "
          "reconnects (counters back to 0), UDP and TCP; consumer always ready, stalled for the whole stream, or reading intermittently; "
          "Inbound is drained before the tunnel is closed. Non-trivial = stream with a wrap, or a repetition plus an out-of-window "
          "number, or >= 2 telegrams parked while such requests arrive; distinct by plan."),
    level_text=("Sampled request streams and consumer schedules on a fake clock against the reference receiver: the acknowledgements "
                "leaving the socket must be exactly the predicted ones (channel, number, instant, order) and the multiset read from "
                "Inbound must equal the multiset of accepted telegrams."),
    level_note="Trusted: reference receiver in harness/tun/c04_test.go, memsock, hook constructor. Delivery order is C17's subject and not asserted here.",
    technique="rapid model-based testing of generated request streams and consumer stalls under testing/synctest virtual time (reference receiver model, multiset comparison)",
    assumptions=_TUN_ASSUME,
    jobs=[dict(name="bubble", pkg="./tun", go=GO126, test="TestC04B", shards=(4, 16), checks=(1200, 20000), timeout=(600, 3000)),
          # the TCP clause through knx.NewGroupTunnel(UseTCP) and a kernel socket: the gateway writes its requests in two
          # segments at drawn cuts and the last few as one burst
          dict(name="sock", pkg="./sock", go=GO, test="TestC04Sock", shards=(2, 8), checks=(15, 300), timeout=(600, 3000))],
)

_RTR_ASSUME = ["A2 (memsock is a faithful model of the kernel sockets above the socket layer)",
               "real clock: time.Sleep/After/AfterFunc never fire early and all stamps come from the monotonic clock, so every asserted bound is a lower bound or an order; upper bounds (liveness) use a 5 s limit for millisecond-scale operations"]

CHECKS["C13"] = dict(
    rule=("rapid-drawn router runs on the real clock: post-send pause 0/0.25/0.5/0.999/1/1.001/1.5/2/5/20 ms, 1..8 sender goroutines, bursts of up to 200 messages, "
          "scenario classes pacing / busy at idle (hand-over stamped, lock then seen held through the TryLock probe, senders released "
          "only then) / busy storm / busy under saturation, routing-lost indications (count 1..6) and busy indications with a wait below the pause injected during half of the pacing bursts so that repetitions compete with queued senders, wait times 0..500 ms and 65535 ms, both control values. Non-trivial = run "
          "with >= 2 contending senders or a busy indication that was seen to take effect; distinct by plan."),
    level_text=("Sampled schedules on the real clock with one-sided oracles: start(i+1) - end(i) >= pause for every successful transmission, "
                "no transmission earlier than hand-over + min(wait, 50 ms) once the lock was seen held at idle, a silence of at least "
                "min(wait, 50 ms) somewhere after a busy taken in under saturation, every Send returns within 5 s."),
    level_note="Trusted: memsock stamps (entry on call, exit just before return), the TryLock probe VerifSendLocked (used to sequence the harness, never as an oracle), VerifNewRouter. The 'at most one further transmission per goroutine already inside Send' clause is scheduler dependent in a single run: in the saturated scenario it is measured and reported in the evidence (class 'saturated: k transmissions between hand-over and silence'); it is asserted in the barge scenario only, on the minimum over up to 10 rounds and with a threshold of 2 x senders + 8.",
    technique="rapid-generated concurrent histories on the real clock with lower-bound timing oracles and bounded liveness",
    assumptions=_RTR_ASSUME,
    jobs=[dict(name="real", pkg="./rtr", go=GO, test="TestC13", shards=(6, 16), checks=(60, 500), timeout=(600, 3000))],
)

CHECKS["C14"] = dict(
    rule=("rapid-drawn histories: retain count 0 (=32) and 1..64, 1..300 Sends (10% scripted to fail) from 1..4 goroutines, lost indications "
          "with counts around the retained length and the retain count (0, 1, cap-1, cap, cap+1, 2cap, 65535) issued at quiescence "
          "(senders held, previous resend observed) or - in a fifth of the plans - un-gated, busy indications, inbound routing "
          "indications in bursts, consumers always ready / stalled / intermittent, Close at a generated point, a final lost(65535), "
          "socket errors at drawn positions of the transmission sequence (they hit retransmissions too). Job conformance: the real "
          "constructors over IPv4 multicast with loopback. "
          "Non-trivial = history with a lost indication whose count differs from the retained length and a failed or trimmed message; "
          "distinct by plan."),
    level_text=("Sampled histories against the reference retained-window model: every emitted frame must be the transmission of a Send in "
                "progress or the next element of the model's resend queue, the probed retained length must equal the model's and never "
                "exceed RetainCount, failed transmissions never reappear, a probe Send returns after every history, every received "
                "indication is read exactly once, Inbound closes after Close."),
    level_note="Trusted: the window model in harness/rtr/oracle_test.go, memsock, VerifNewRouter/VerifRetainedLen. After an un-gated lost indication the model only demands that every retransmission is an earlier successful message (which messages were retained when the serve loop obtained the lock is not observable).",
    technique="rapid model-based testing of generated send/lost/busy/close histories (reference retained-window model, frame attribution), real clock",
    assumptions=_RTR_ASSUME,
    jobs=[dict(name="real", pkg="./rtr", go=GO, test="TestC14", shards=(6, 16), checks=(120, 2500), timeout=(600, 3000)),
          # one lost indication (count above everything retained) racing a burst of 2..6 senders, nothing trimmed, nothing
          # failing: the retransmissions must be the first m originals in order for an admissible m
          dict(name="race", pkg="./rtr", go=GO, test="TestC14Race", shards=(4, 16), checks=(40, 800), timeout=(600, 3000)),
          # the real constructors (knx.NewRouter / NewGroupRouter) over multicast with loopback: send, lost -> resend, receive, Close
          dict(name="conformance", pkg="./sock", go=GO, test="TestConformanceRouter", shards=(2, 8), checks=(12, 150), timeout=(600, 3000))],
)

CHECKS["C17"] = dict(
    rule=("rapid-drawn bursts (1..4 bursts of 2..64 accepted telegrams, gaps 0/1/30 us so that several are taken at one instant) x consumer "
          "behaviour (reading before the burst; stalled for the whole burst; intermittently ready with think times) x four client kinds "
          "(tunnel UDP/TCP, group tunnel, router, group router); tunnel clients both on the fake clock and on the real clock, router "
          "clients on the real clock. Non-trivial = burst during which at least one hand-off found the consumer not ready; distinct by plan."),
    level_text=("Sampled bursts and consumer schedules; oracle: the sequence read from Inbound equals the sequence in which the client took "
                "the accepted telegrams from its socket."),
    level_note="Trusted: memsock's single pump goroutine defines the acceptance order (as the single receiver goroutine of a real socket does). Consumer schedules are sampled, not enumerated.",
    technique="rapid-generated bursts x consumer schedules, order-equality oracle, under testing/synctest virtual time and on the real clock",
    assumptions=_TUN_ASSUME[1:2],
    jobs=[dict(name="sock", pkg="./sock", go=GO, test="TestC17Sock", shards=(4, 8), checks=(15, 300), timeout=(600, 3000)),
          dict(name="bubble", pkg="./tun", go=GO126, test="TestC17B", shards=(2, 8), checks=(1500, 20000), timeout=(600, 3000)),
          dict(name="real", pkg="./tun", go=GO, test="TestC17R", shards=(4, 8), checks=(60, 1200), timeout=(600, 3000)),
          dict(name="stream", pkg="./tun", go=GO, test="TestC17Stream", shards=(2, 8), checks=(12, 250), timeout=(600, 3000)),
          dict(name="router", pkg="./rtr", go=GO, test="TestC17Router", shards=(4, 8), checks=(100, 2000), timeout=(600, 3000))],
)

CHECKS["C09"] = dict(
    rule=("rapid-drawn plans over up to 5 connection epochs: resend 50 ms..1 s, timeout r..12r (+offsets), heartbeat interval either above "
          "timeout+resend (exact accounting) or below the timeout (overlapping exchanges); one fate per connection-state request (OK "
          "after a delay around 0/r/T, lost, any non-zero status, foreign channel, duplicated), one per connect request (OK, lost, busy "
          "0x24/0x25, refused, junk), scripted disconnect requests/responses for the current or a foreign channel, unsolicited "
          "connection-state responses, inbound requests, socket death, a few Sends, UDP and TCP; the gateway hands out a fresh or the "
          "previous channel number. Job real (real clock): 2..4 goroutines in Send, the first unacknowledged, while the gateway forces a "
          "reconnect. Job conformance: the real constructors against a loopback gateway. Non-trivial = history with a failed "
          "heartbeat or a disconnect and an epoch change or termination, or a Send that crossed a reconnect; distinct by plan."),
    level_text=("Sampled gateway behaviours on a fake clock against a reference model that predicts every ConnStateReq / ConnReq / DiscRes "
                "(kind, channel, exact instant) from the frames the client took in, the instant of termination (Inbound closes then), "
                "the channel and the restart of the sequence numbers after a reconnect, and failing Sends after termination."),
    level_note="Trusted: the heartbeat/epoch model in harness/tun/c09_test.go. With overlapping exchanges (heartbeat < timeout) which exchange receives a response is not determined: oracleC09Overlap asserts only what holds for every assignment (start times, schedules, no request between epochs, explained epoch ends, dead exchanges end their epoch by x+T). Histories the exact model cannot resolve (a delivery exactly on a tick, two different responses at one instant) are counted as inconclusive. Send racing a reconnect is judged on the real clock with a 100 ms grace.",
    technique="rapid model-based testing of generated gateway fate scripts under testing/synctest virtual time (reference heartbeat/reconnect model, exact instants)",
    assumptions=_TUN_ASSUME,
    jobs=[dict(name="bubble", pkg="./tun", go=GO126, test="TestC09B", shards=(4, 16), checks=(2500, 30000), timeout=(600, 3000)),
          # the real constructors (knx.NewTunnel / NewGroupTunnel) against a rule-following loopback gateway:
          # connect, numbered Sends, inbound requests + acknowledgements, heartbeat, Close
          dict(name="conformance", pkg="./sock", go=GO, test="TestConformanceTunnel", shards=(2, 8), checks=(12, 150), timeout=(600, 3000)),
          # real clock: 2..4 goroutines in Send, the first one unacknowledged, while the gateway forces a reconnect:
          # a request first transmitted well after the reconnect must carry the new channel
          dict(name="real", pkg="./tun", go=GO, test="TestC09R", shards=(8, 16), checks=(6, 60), timeout=(600, 3000))],
)

CHECKS["C10"] = dict(
    rule=("fake clock: plans of the C03, C04 and C09 generators with one Close injected at a uniformly drawn instant (during a pending Send, "
          "a heartbeat exchange, a reconnect, with deliveries parked, after the socket died), with and without a reader on Inbound, "
          "followed by a second Close and a Send; real clock under the race detector: 1..6 free-running senders, inbound bursts, short "
          "heartbeats, forced reconnects and 1..4 concurrent closers at drawn offsets, a quarter of the runs with 2..4 closers arriving "
          "while a reconnect attempt the gateway never answers is pending; after every Close call returns, that caller probes Inbound "
          "with a non-blocking receive and may issue a Send. Non-trivial = Close landing while a Send, a "
          "heartbeat exchange, a reconnect or a parked delivery was in progress; distinct by plan."),
    level_text=("Sampled injection points and schedules. Fake clock: Close returns within the response timeout (at once when no reconnect is "
                "under way), at most one disconnect request - exactly one if the socket was usable - Inbound closed and no telegram read "
                "afterwards, Send after Close fails at once, no bubble goroutine left, no panic or deadlock. Real clock: Close returns, "
                "no library goroutine after a grace poll, and any race-detector report fails the check."),
    level_note="Trusted: synctest's goroutine accounting, the race detector. Race and leak freedom are shown for sampled schedules only. Concurrent closers run on the real clock only (a second closer waits on sync.Once, which the fake clock cannot run).",
    technique="rapid fault injection of Close into generated histories under testing/synctest (goroutine accounting) + rapid concurrent schedules under the Go race detector",
    assumptions=_TUN_ASSUME,
    jobs=[dict(name="bubble", pkg="./tun", go=GO126, test="TestC10B", shards=(4, 16), checks=(2000, 25000), timeout=(600, 3000)),
          dict(name="race", pkg="./tun", go=GO, test="TestC10R", race=True, shards=(4, 16), checks=(60, 1000), timeout=(600, 3000)),
          # Close while the gateway streams (next telegram on every acknowledgement): bounded return, one disconnect request
          dict(name="stream", pkg="./tun", go=GO, test="TestC10Stream", shards=(2, 8), checks=(10, 120), timeout=(600, 3000))],
)

CHECKS["C05"] = dict(
    rule=("rapid-drawn histories of the composed system: real client x reference gateway (accepts the expected number, re-acknowledges the "
          "previous one, ignores others, repeats its own requests 2..5 times) x network with one fate per datagram and direction "
          "(deliver after a delay around 0, r/2, r, 2r; lose; duplicate with a second delay), 0..6 telegrams per direction (5% of the "
          "plans 258..320 so that the numbering wraps), fast and absent readers; fake clock. The acknowledgement rules of the C04 receiver model are applied to the same traces. Non-trivial = history with a client "
          "retransmission, or loss and duplication, or the wrap; distinct by plan."),
    level_text=("Sampled paths of the composed system with the real modulus 256 on a fake clock; history invariants: nothing is put on the "
                "bus twice, every successful Send is on the bus exactly once and in completion order, every telegram the gateway got "
                "acknowledged was read exactly once and in the gateway's order."),
    level_note="Trusted: the reference gateway and network in harness/tun/refgw_test.go. The quantifier's exhaustive exploration of every reachable state for modulus 4 is model checking, which this technique family does not do: paths are sampled.",
    technique="rapid stateful generation of network fate streams against a reference gateway under testing/synctest virtual time; exactly-once / order invariants over the history",
    assumptions=_TUN_ASSUME + ["every Send call carries its own telegram (a retry after a failed Send is a new telegram)"],
    jobs=[dict(name="bubble", pkg="./tun", go=GO126, test="TestC05B", shards=(4, 16), checks=(1500, 25000), timeout=(600, 3000)),
          # real scheduler, perfect link: a rule-following gateway streams 300..30000 telegrams, each the moment the
          # previous one's acknowledgement is in its hands, at an application that alternates between reading and being busy
          dict(name="stream", pkg="./tun", go=GO, test="TestC05Stream", shards=(2, 8), checks=(12, 250), timeout=(600, 3000))],
)

_SOCK_ASSUME = ["loopback UDP/TCP (and, for discovery, IPv4 multicast on the default interface) is available in the sandbox; a facility that is missing makes the dependent sub-oracle skip (recorded in the evidence), never fail",
                "UDP peers transmit in windows of 4 datagrams so that loopback never drops; upper time bounds use a 5 s limit for millisecond-scale operations"]

CHECKS["C16"] = dict(
    rule=("rapid-drawn socket scenarios on loopback: TCP streams of 1..50 concatenated well-formed frames of every service type (plus unknown "
          "services with bodies up to 65529 bytes) written as one segment, a single cut at a drawn position, 1-byte dribble or irregular "
          "segments, with and without pauses, ended by the peer or by Close; every single cut position of a fixed 4-frame stream "
          "(exhaustive); UDP sequences of 1..40 datagrams; 1..8 goroutines sending 1..40 frames concurrently over UDP and TCP; "
          "knx.NewTunnel over both socket kinds with SendLocalAddress on/off; the multicast RouterSocket receiving 1..40 datagrams from "
          "and sending 1..24 frames (1..6 goroutines) to a group member; Close called at a drawn moment while the peer keeps transmitting "
          "20..300 distinct frames (UDP and TCP); frames of exactly 1024/1023/1000 octets and framed-but-undecodable units in the receive plans; a reader that stays away from Inbound() for 5..250 ms (job slow-reader: 1.1..2.6 s, thorough up to 11 s) while 2..12 frames arrive. Non-trivial = TCP stream of >= 2 frames with a cut, or "
          ">= 2 concurrent senders, or a UDP/HPAI case; distinct by plan."),
    level_text=("Sampled streams and segmentations on real kernel sockets; oracle: the values read from Inbound() equal the in-process "
                "decodes of the transmitted frames, in order, each once; every unit the peer receives is the complete encoding of one sent "
                "frame; Inbound() closes and the receiver goroutine ends after Close / peer close; the connect request's endpoints equal "
                "the datagram's source (or the zero endpoint with the right protocol code)."),
    level_note="Trusted: the in-process decode as the expected value (C01/C02 judge the decoder itself). The harness controls write boundaries; the kernel decides read boundaries.",
    technique="rapid-generated frame streams x segmentations against live loopback sockets (differential against in-process decoding; multiset/no-interleaving oracle for concurrent Sends)",
    assumptions=_SOCK_ASSUME,
    jobs=[dict(name="sock", pkg="./sock", go=GO, test="TestC16", shards=(4, 16), checks=(150, 3000), timeout=(600, 3000)),
          # a consumer that stays away from Inbound() for 1.1..2.6 s (thorough: up to 11 s) while 2..12 frames arrive
          dict(name="slow-reader", pkg="./sock", go=GO, test="TestC16Slow", shards=(8, 16), checks=(3, 12), timeout=(600, 3000))],
)

CHECKS["C20"] = dict(
    rule=("rapid-drawn calls on real sockets: DescribeTunnel against a loopback UDP server and Discover against 1..20 multicast responders "
          "(own 239.255.x.y group and port per case), timeouts 1..500 ms, scripts of 0..12 frames at drawn instants before, around and "
          "after the deadline: matching responses, well-formed frames of other services, malformed frames down to runt and empty datagrams, (describe) a matching response "
          "from another address; chatter scripts (a frame of another service every timeout/2 for timeout + 1.6 s); bursts of 3..8 long "
          "answers behind the first one, the call repeated 8 times; plus DescribeTunnel against a port nobody listens on. Non-trivial = script with a non-matching or "
          "malformed frame before the first match, a late first match, or no match; distinct by plan."),
    level_text=("Sampled responder scripts on the real clock: the result is nil or the decode of the first description response sent by "
                "the queried address (discovery: a duplicate-free subsequence, in send order, of the search responses sent, containing "
                "every one sent well before the deadline and none sent well after it); nil/complete results imply elapsed >= timeout; "
                "elapsed <= timeout + 1 s unless a control sleep beside the call shows a scheduler stall; exactly one request whose reply "
                "address is the datagram's source; receiver goroutine and file descriptors are gone after return."),
    level_note="Trusted: the in-process decode as expected value; margin = max(50 ms, timeout/2) around the deadline (and the first 30 ms of a discovery, before its socket can have joined the group) is a don't-care window. The number of discovery requests is counted through a packet socket (self-checked with a marker; skipped without CAP_NET_RAW).",
    technique="rapid-generated responder scripts against live loopback/multicast sockets; first-match / subsequence oracle with don't-care windows, lower/upper time bounds with a scheduler-health control",
    assumptions=_SOCK_ASSUME,
    jobs=[dict(name="sock", pkg="./sock", go=GO, test="TestC20", shards=(8, 16), checks=(30, 500), timeout=(600, 3000))],
)

CHECKS["C12"] = dict(
    rule=("enumerated: every payload length 0..254 (outbound) and every L_Data kind x APCI 0..15 x control/data unit x group/individual "
          "destination (inbound) through both group clients; rapid: group events (command read/response/write, any source and "
          "destination, payload lengths dense around 0/15/16/254, first byte 0..255) sent through a group tunnel / group router, "
          "streams of 1..40 inbound cEMI messages of every kind (L_Data req/con/ind, L_Raw.*, L_Busmon, unsupported) with both address "
          "types, end-to-end pairs relayed as a gateway does (bytes decoded, request turned into indication), and up to 8 goroutines "
          "sending 2..16 different events through one client concurrently (wire frames matched to events as multisets). Every case is "
          "non-trivial; distinct by plan."),
    level_text=("Sampled events and message streams plus the enumerated sub-spaces; outbound frames are read by the independent reference "
                "decoder (group flag, hop count 6, low priority, standard-frame flag <=> payload <= 15 bytes, application code, payload, "
                "addresses, exactly one frame per Send); inbound events must equal the reference filter-map of the injected stream in "
                "order; end-to-end equality up to the two wire-format exceptions; the group channel closes with the client."),
    level_note="Trusted: harness/common/ref.go (reference decoder), memsock, the hook constructors VerifNewGroupTunnel / VerifNewGroupRouter. The end-to-end clause is additionally run through knx.NewGroupRouter / knx.NewGroupTunnel over kernel sockets (job sock: every payload length 1..254 once per client kind, plus drawn sequences with a bias to 240..254 bytes).",
    technique="enumeration + rapid-generated events and message streams; differential against an independent reference decoder and a reference filter-map",
    assumptions=_RTR_ASSUME[:1],
    jobs=[dict(name="real", pkg="./rtr", go=GO, test="TestC12", shards=(2, 16), checks=(1500, 20000), timeout=(600, 3000)),
          # through the real constructors and kernel sockets: GroupRouter -> GroupRouter over multicast loopback and
          # GroupTunnel -> loopback gateway -> back; every payload length 1..254 once, then drawn event sequences
          dict(name="sock", pkg="./sock", go=GO, test="TestC12Sock", shards=(2, 8), checks=(20, 400), timeout=(600, 3000))],
)


# Later additions to the generators, inserted into the rule texts in front of their "Non-trivial =" sentence.
RULE_ADDENDA = {
    "C01": "One plan in 200 is a storm: 2..8 goroutines decode their own well-formed frames 30..100 times, each result compared "
           "with the decode done alone.",
    "C02": "A third of the plans edit 1..3 octets of (or append octets to) the reference encoding: what the decoder accepts and the "
           "re-encoding reproduces must survive decode, re-encode, decode with the same value.",
    "C05": "A quarter of the plans with >= 2 Sends let the gateway refuse telegrams (error status, counter advanced) on a link that "
           "loses nothing.",
    "C15": "Storm plans: 2..8 goroutines encode, decode and re-encode frames with names and description blocks 50..300 times.",
    "C18": "All addresses are also formatted first and parsed afterwards (texts kept), and formatted and parsed by 8 goroutines at once.",
    "C20": "A third of the search responses carry further well-formed description blocks.",
    "C03": "The real-reconnect plans let 0..3 requests be acknowledged before the unacknowledged one; the first request on a newly "
           "assigned channel must carry sequence number 0.",
    "C08": "A decode storm per main number (8 goroutines x 400 rounds). Every payload of 0..6 octets over {00 41 EF BB BF C3 80 FF} for the variable-length types; well-formed UTF-8 texts "
           "for the character-string types.",
    "C11": "Mode oversize-info: 256..1000 info octets. Mode overwide: every 8-bit sequence number and control code (also those wider than the field) x numbered x "
           "control/data, compared with the reference apart from the over-wide field's own bits.",
    "C12": "Job sock, mode tunnel-duplex: the gateway tunnels indications stop-and-wait while the application sends 20..80 events; "
           "mode tunnel-tcp: relays written in two segments at drawn cuts, the last ones as one burst.",
    "C13": "Scenario close-in-inhibit: the router is closed while a busy inhibit is running, with Sends pending and issued afterwards.",
    "C16": "A quarter of the datagram plans are bursts of 17..64 small frames sent in one go while the reader is away 0..80 ms; the slow "
           "job also lets the TCP peer stall 1.1..2.6 s (thorough: up to 11 s) inside a frame.",
    "C04": "Job sock: a TCP group tunnel against a loopback gateway writing in segments and bursts. A quarter of the UDP plans let the gateway assign the same channel at every reconnect, a third of the reconnects have 1..4 "
           "in-sequence requests directly behind the connect response, stray connect responses arrive mid-stream, and a fraction of the "
           "telegrams are L_Data.con / L_Data.req.",
    "C06": "Values of string/slice kind are decoded from a copy of the payload, the copy is overwritten, and they must re-encode as "
           "before. Every 1-/2-byte payload and a fifth of the others are also decoded into a variable that holds the decode of the accepted "
           "payload with the most bits set (rapid: a drawn earlier payload) and compared with a decode into a zero value.",
    "C14": "Job race: one lost indication with a count above everything retained arrives in the middle of a burst of 2..6 senders, "
           "nothing trimmed or failing.",
    "C17": "On raw tunnels and routers a fraction of the telegrams are L_Data.con / L_Data.req. A sixth of the tunnel plans are "
           "long-life plans (the application keeps pace for ~120 / 250..256 / 506..510 telegrams, then stalls during a burst). Job sock: a router (and group router) "
           "over real multicast, 0..3 busy indications then a burst of 2..80 indications.",
    "C19": "40 (thorough: 400) fresh child processes whose first Produce calls come from 16 goroutines at once; the slice "
           "ListSupportedTypes() returned is overwritten and the listing taken again; slices returned by Pack() are kept and must not change; numeric aliases (main-k).(sub+k*M) of every registered name are looked up.",
}
# round 10 of the seeded changes
_R10 = {
    "C04": " Half of the socket job's plans are UDP tunnels with traffic in both directions through one kernel socket (20..80 events out, up to 200 indications in): every acknowledgement the gateway receives is judged (channel, status, number of the telegram under way or the one before) and every datagram is one well-formed frame.",
    "C05": " Job stream (real scheduler, perfect link): the gateway tunnels 300..3000 (thorough 30000) telegrams, each the moment it holds the previous acknowledgement (TCP: all at once), at readers that pause 0..1000 us (sleeping or spinning) after blocks of 1..257 telegrams, with 0..200 application Sends and heartbeats every 0.1..10 ms meanwhile; what is read must be 0,1,2,... and one acknowledgement per telegram.",
    "C08": " Decode-after-decode pairs: for 11.001 every day 1..31 x month 1..12 of a year right after every valid date of that year (years 1990, 2000, 2023, 2024, 2089; thorough all 100), for 10.001 all ordered pairs of 160 field-boundary payloads, for every other fixed-length type all ordered pairs of 100 payloads; a third of the rapid cases decode 1..3 close relatives (one octet changed) first.",
    "C11": " Three further layouts (no additional info, other info, same info) are decoded into the L_Data structure used for the previous frame and every field is compared with the bytes.",
    "C13": " At idle the busy indication is followed by a frame the client ignores: once the serve loop has taken that, the indication has been dealt with; senders are released only then and nothing may leave before hand-over + min(wait, 50 ms) (no lock observation needed). A third of the idle plans with a pause >= 2 ms draw 1 <= wait < pause with a non-zero control field.",
    "C14": " A twelfth of the plans start with 1000..8200 indications that nobody reads (1023/1024/1025, 2049, 4100, 8200 among the sizes). Every run without a Close requires that the open client has taken every frame handed to its socket within 5 s.",
    "C15": " A third of the frames with a service-families block carry 126..300 families (beyond what the structure's length octet can say).",
    "C16": " Slow-reader job, mode tcp-send-stalled: the TCP peer does not read for 1.1..2.6 s (thorough up to 11 s) while one goroutine sends 150..260 frames of 50..65 kB (7..17 MB, more than the connection buffers), then parses the stream strictly: whole frames of successful Sends, each once, in order, nothing else.",
    "C17": " Job stream: as C05's (order and count of what is read under a gateway that streams on acknowledgement).",
    "C19": " Every history decodes out of one receive buffer that is overwritten after each decode; snapshots own their memory.",
    "C20": " A quarter of the matching responses carry a device name that fills all 30 octets, built by construction from a response that is one with the name cut to 29.",
}
for _k, _v in _R10.items():
    RULE_ADDENDA[_k] = RULE_ADDENDA.get(_k, "") + _v
# round 11 of the seeded changes
_R11 = {
    "C01": " A third of the TCP plans of the socket job carry 1..2 units of 1025..65535 octets (around 4096 and the powers of two): an unassigned service (delivered as it is) or a tunnelling request with a lying connection header (dropped).",
    "C03": " A fifth of the configurations have a response timeout below the resend interval (r-1, r/2, r/10, 7 ms). A fifth of all tunnel plans run on the channels 0, 255, 0, 1, 254 instead of numbers from the middle of the range.",
    "C04": " Plans contain acknowledgements nobody waits for (own or foreign channel, numbers 0/1/2/255, status OK or error); on the fake clock a connected, open tunnel must have taken every frame from its socket once everything has settled (receiver-stalled).",
    "C06": " For 28.001 every body of 0..5 octets over {00 41 EF BB BF C3 80 FF} and every sequence of up to 4 text units (byte order marks, blanks, invisible and ordinary characters); for 16.xxx all pairs of edge characters at head and tail.",
    "C07": " Every sequence of up to 4 text units as a value of the string types. Every date 1990-01-01..2089-12-31 under 15 local time zones (zones whose daylight saving starts at midnight, one that skipped a day; zone data embedded in the test binary).",
    "C08": " Every wrong length up to 300 octets (four fills) and lengths 31..33, 63..65, 127..129, 253..257, 300, 1000 in the rapid part; the date lattice decoded under 15 local time zones.",
    "C10": " A fifth of the plans run on the channels 0 and 255.",
    "C12": " A sixth of the inbound telegrams and of the events are repeated 1..3 times in a row (sometimes with traffic that does not surface in between).",
    "C14": " One Send in 25 hands over a message that cannot be encoded (the encoder panics inside the socket's Send) and recovers; the history goes on and the probe Send must return.",
    "C16": " A third of the datagram plans contain 1..3 datagrams that are empty or shorter than a frame header; a quarter of the TCP receive plans a frame of 4..64 kB.",
    "C17": " One burst element in 8 is followed by 1..2 repetitions of the request just sent (re-acknowledged, not delivered, order kept).",
    "C18": " 24 valid texts x 45 wrappings (Go quotes with and without escapes, brackets, blank/NUL/line-end/byte-order-mark padding, signs, radix prefixes, digit separators, escaped and doubled separators, full-width digits) through both parsers.",
    "C19": " Every registered name under 59 decorations (NUL, blank, line-end, byte-order-mark padding before and after; quotes; DPT prefixes; other separators; full-width digits).",
}
for _k, _v in _R11.items():
    RULE_ADDENDA[_k] = RULE_ADDENDA.get(_k, "") + _v
# round 12 of the seeded changes
_R12 = {
    "C01": " A third of the UDP plans of the socket job contain 1..3 datagrams of 1022..1026, 1500, 2048 or 4000 octets (judged as the receiver sees them: cut to its 1024-octet buffer).",
    "C03": " Job sock: a UDP tunnel through a kernel socket with traffic in both directions (40..300 events out, indications in, stop-and-wait) against a loopback gateway that checks every datagram (one well-formed frame), consecutive request numbers and octet-identical repetitions.",
    "C04": " The loopback gateways of the socket job write 0x00/0x01/0x80/0xff into the reserved octet of the connection header of their requests.",
    "C05": " A quarter of the plans are C17 plans (bursts, stalls of the application, repetitions of the last request, disconnect requests between bursts) judged under the symmetric clause: order oracle plus receiver model.",
    "C07": " Per main number 8 goroutines decode, encode and render their own values 1000 times; every encoding and rendering is compared with the one made alone.",
    "C08": " 40 (thorough: 400) fresh child processes in which 16 goroutines walk through all types behind a barrier per type, so that the first decode + String()/Unit()/Pack() of every type in the process is concurrent; the texts must equal a later sequential rendering.",
    "C09": " Within an epoch the request behind one whose Send succeeded carries the next number (counter-restarted). A sixth of the UDP plans are 2..4 connections that come and go without a Send, followed by 3..5 acknowledged Sends.",
    "C12": " In the tunnel mode of the socket job the gateway ends the connection in the middle of half of the plans; the client reconnects, both sides restart their numbering, the remaining events follow.",
    "C13": " Scenario barge: no post-send pause, 1..8 senders calling Send back to back (6000+ transmissions), a busy indication (40 ms) after 0.3..1.5 ms; up to 10 rounds through a trace-free runner; the smallest number of transmissions that began between the serve loop's intake and the silence is judged (violation above 2 x senders + 8 in every round).",
    "C15": " A third of the description responses hold 1..4 kept blocks without data (nil and empty, kept and other types) put into the value by hand.",
    "C17": " Header fields of inbound telegrams are a function of the tag: all four priorities, both repeat flags, hop counts 0..7, 250 different senders.",
    "C20": " A fifth of the matching description responses lack the device-information block, the service-families block or both (built by cutting blocks out of the complete response).",
}
for _k, _v in _R12.items():
    RULE_ADDENDA[_k] = RULE_ADDENDA.get(_k, "") + _v
# round 13 of the seeded changes
_R13 = {
    "C02": " The expectation is a second value built from the same description: the encoder must leave the value it is handed as it was (encode-changes-value), and in the relay part the decoded value is compared before and after re-encoding.",
    "C03": " Real-clock reconnect plans deliver the pending request's acknowledgement behind a same-channel reconnect; a request first transmitted after the client took the first connect response behind the last disconnect request carries at most the count of requests first transmitted since.",
    "C05": " The stream job also has 2..3 application goroutines in Send, a gateway that follows the rules for the application's requests and loses the first transmission of every 2nd..9th request: repetitions carry the same telegram, nothing is on the bus twice, every successful Send is on the bus once.",
    "C09": " A fifth of the plans let the socket refuse drawn connection-state requests (first transmissions and repetitions): the exchange and the epoch end there and the connect request is due at that instant. The same-channel restart clause of C03 applies to the real-clock job.",
    "C10": " Job stream: the gateway streams on acknowledgement (1..16 telegrams in flight) through a socket whose Inbound() channel buffers 0/1/16 frames filled synchronously; Close after 1..150 ms returns within 3 s, exactly one disconnect request, Inbound closed, a Send afterwards fails - with and without an answer to the disconnect request.",
    "C11": " Three octets are appended to the decoded additional info and to the decoded payload; every other field of the decoded frame stays as it was.",
    "C12": " The in-memory gateway of the tunnel client follows the rules (one request at a time, repeated until acknowledged) and a third of those plans let the socket refuse drawn acknowledgements.",
    "C13": " A quarter of the pacing plans contain a Send of a message that cannot be encoded (panic inside the socket's Send, recovered by the caller).",
    "C17": " A third of the UDP plans let the socket refuse 1..3 of the client's acknowledgements.",
    "C18": " Every character of the 24 valid texts is also replaced by the runes congruent to it modulo 256 and 65536.",
    "C19": " Every registered name with k * 2^8 / 2^16 / 2^31 / 2^32 / 2^63 / 2^64 added to its main number.",
    "C20": " A third of the discover plans have a responder bound to the discovery port itself (address reuse) that sends a response 40..70 ms into the call.",
}
for _k, _v in _R13.items():
    RULE_ADDENDA[_k] = RULE_ADDENDA.get(_k, "") + _v
# round 14 of the seeded changes
_R14 = {
    "C01": " Every second shard runs with a log target installed (the library's diagnostic lines are executed; replays restore that environment).",
    "C02": " Half of the search responses carry further well-formed description blocks behind the mandatory two.",
    "C03": " Real-clock plans in which nothing is pending: 1..4 requests acknowledged, the gateway ends the connection, a Send starts 0.3..6 ms later, with a log target that takes 0/2/5 ms per line installed.",
    "C04": " A quarter of the socket job's plans are raw tunnels over UDP carrying L_Data, L_Raw and L_Busmon telegrams (5..300, acknowledged one by one); all deliveries are kept and compared with what was sent when the last one is in.",
    "C09": " Scripted disconnect responses carry statuses 0x00/0x01/0x21/0x24/0x26/0x27/0xff.",
    "C11": " A frame is decoded into a message variable (cemi.Unpack), handed on, and a second frame (whole, cut short, a stub) is decoded into the same variable: what was handed on stays.",
    "C12": " The socket job keeps every received event with a private copy of its data and compares again at the end of the run.",
    "C14": " Router.Send is given confirmations and requests too (by tag, varied headers); every retransmission is compared with the first transmission octet for octet.",
    "C15": " A third of the search responses hold 1..4 kept blocks put into the value by hand.",
    "C16": " The endpoint plans leave all, one or two of the timing fields of the configuration at zero.",
    "C19": " Two fresh child processes decode the same payloads into all types of each wire length, in listing order and in reverse; what a type yields for a payload must agree between them.",
    "C20": " A third of the frames of other services carry the body of a matching response under a neighbouring or unassigned service identifier.",
}
for _k, _v in _R14.items():
    RULE_ADDENDA[_k] = RULE_ADDENDA.get(_k, "") + _v
for _k, _add in RULE_ADDENDA.items():
    if " Non-trivial =" in CHECKS[_k]["rule"]:
        CHECKS[_k]["rule"] = CHECKS[_k]["rule"].replace(" Non-trivial =", " " + _add + " Non-trivial =", 1)
    else:
        CHECKS[_k]["rule"] += " " + _add
