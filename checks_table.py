"""Job table of the driver: which test processes decide which property.

job fields: name, pkg (relative to harness/), go (toolchain binary), test (Go test function),
shards (quick, thorough), checks = -rapid.checks per shard (quick, thorough), scale = VERIF_SCALE
(quick, thorough) used by enumerating loops, timeout in seconds (quick, thorough) = wall-clock
budget after which the run is *inconclusive* (exit 2), race (build with -race),
kind="fuzz": native coverage-guided fuzzing (thorough tier only).
"""

GO = "go"          # default toolchain (1.23.5) - the one the repository's suite runs on
GO126 = "go1.26.8"  # only for testing/synctest (virtual time)

CHECKS = {}
NOT_APPLICABLE = {}   # property id -> reason (only for properties that are *not* claimed)
HOOK_COMMITS = []     # commits in /repo that add the build-tag-guarded hooks

CHECKS["C18"] = dict(
    rule=("exhaustive round trip of all 65535 non-zero group and individual addresses; exhaustive component "
          "tuples over the documented ranges widened by 4 on both sides (negatives included) against an independent "
          "reference parser; exhaustive constructor argument spaces (3 x 2^24 + 2^16) against shift/mask reference; "
          "rapid grammar-based malformed strings. Non-trivial = round-trip address, or tuple with a component on or "
          "outside a range bound, or malformed string (distinct by text)."),
    level_text=("Exhaustive enumeration of the finite sub-spaces the statement names (all addresses, all widened component tuples, "
                "all constructor arguments) plus generated malformed text, against an independent reference parser/formatter. "
                "Exploration: complete on those sub-spaces, sampled on free text."),
    level_note="Trusted: the reference parser in harness/pure/c18_test.go (written from the doc comments). Free-form malformed text is sampled, not exhausted.",
    technique="exhaustive enumeration + rapid grammar-based generation vs. independent reference parser (differential)",
    assumptions=["signed / zero-padded numerals (which %d admits) are a don't-care for acceptance; if accepted the value must be the reference value"],
    jobs=[dict(name="pure", pkg="./pure", go=GO, test="TestC18", shards=(1, 4), checks=(20000, 250000),
               timeout=(300, 1800))],
)
