#!/bin/bash
# seed_eval_round.sh <round-dir>: evaluates every /<round-dir>/C??/SEED with seed_eval.sh, guessing where the demonstration
# belongs (from its package clause), its build tag and taking every Test*Seed* test. Output: one line per seed.
R=$1
cd /verif
for d in $R/C??; do
  id=$(basename $d); sd=$d/SEED
  [ -f $sd/patch.diff ] || { echo "$id: no patch.diff"; continue; }
  demo=$(ls $sd | grep -E '_test\.go(\.txt)?$' | head -1)
  [ -n "$demo" ] || { echo "$id: no demonstration file"; continue; }
  pkg=$(grep -m1 -E '^package ' $sd/$demo | awk '{print $2}')
  case $pkg in
    knx|knx_test) dir=knx;; knxnet|knxnet_test) dir=knx/knxnet;; cemi|cemi_test) dir=knx/cemi;; dpt|dpt_test) dir=knx/dpt;; util|util_test) dir=knx/util;; *) dir=knx;;
  esac
  tag=$(grep -m1 -E '^//go:build ' $sd/$demo | awk '{print $2}')
  tagarg=""; [ -n "$tag" ] && tagarg="-tags $tag"
  # next free letter
  for l in a b c d e f g h i j k l m n o p q r s t; do [ -d seeded/$id-$l ] || break; done
  base=$(echo $demo | sed 's/\.txt$//; s/^_//')
  out=$(./seed_eval.sh $id-$l $id $sd $demo $dir/$base $tagarg -run 'Seed' ./$dir/ 2>&1 | tail -2 | tr '\n' ' ' | sed 's/demo on clean tree: exit 0 (want 0); suite with change: exit 0 (want 0); demo with change: exit [1-9][0-9]* (want != 0)/CONFIRMED/')
  echo "$id-$l: $out" | cut -c1-300
done
