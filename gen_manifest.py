#!/usr/bin/env python3
"""Regenerates MANIFEST.json from checks_table.py (keeps it valid and in step with the driver)."""
import json, os, sys
ROOT = os.path.dirname(os.path.abspath(__file__))
sys.path.insert(0, ROOT)
from checks_table import CHECKS, NOT_APPLICABLE, HOOK_COMMITS

props = [json.loads(l)["id"] for l in open(os.path.join(ROOT, "properties.jsonl"))]
checks = []
for pid in props:
    if pid not in CHECKS:
        continue
    c = CHECKS[pid]
    checks.append(dict(
        property_id=pid,
        quick_cmd=f"./check {pid} --tier quick",
        thorough_cmd=f"./check {pid} --tier thorough",
        evidence_file=f"/verif/evidence/{pid}.json",
        replay_cmd_template=f"./check {pid} --replay {{path}}",
        engine="harness",
        level_claimed=dict(category="exploration", text=c["level_text"], design_ref=c.get("design_ref", "DESIGN.md §3 " + pid)),
        level_note=c["level_note"],
        technique=c["technique"],
    ))
na = [dict(property_id=p, reason=NOT_APPLICABLE.get(p, "check not built yet in this session (work in progress); not claimed"))
      for p in props if p not in CHECKS]
m = dict(
    version=1,
    setup_cmd="./setup.sh",
    hooks=dict(guard="verif", enable="go test -tags verif (the harness module replaces github.com/vapourismo/knx-go with /repo)",
               baseline_off_cmd="cd /repo && go test -vet=off -count=1 ./...",
               source_commits=HOOK_COMMITS, add_only=True),
    engines=[dict(name="harness", path="/verif/harness", serves_properties=[c["property_id"] for c in checks],
                  kind_free_text="Go test binaries (pgregory.net/rapid v1.3.0 generators + exhaustive enumeration + go test -fuzz; "
                                 "testing/synctest virtual time via go1.26.8) driven by /verif/check")],
    checks=checks,
    notes="Property-based testing / fuzzing only. See DESIGN.md. Exit 2 of ./check means inconclusive (never a pass, never an alarm).",
    not_applicable=na,
)
json.dump(m, open(os.path.join(ROOT, "MANIFEST.json"), "w"), indent=1)
print("MANIFEST.json:", len(checks), "checks,", len(na), "not claimed")
