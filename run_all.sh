#!/bin/sh
# development aid: run every claimed check's quick (or given) tier on the unchanged tree and summarise
tier=${1:-quick}
cd "$(dirname "$0")"
rc=0
for id in $(python3 -c "
import sys; sys.path.insert(0,'.')
from checks_table import CHECKS
print(' '.join(sorted(CHECKS)))"); do
  out=$(./check $id --tier $tier 2>&1); c=$?
  echo "$id exit=$c $(echo "$out" | grep -v '^KNOWN-FINDING' | tail -1 | cut -c1-160)"
  [ $c -ne 0 ] && rc=1
done
exit $rc
