#!/bin/bash
# seed_eval.sh <seed-id> <property-id> <seed-dir> <demo-file> <demo-dest-relative> <go-test-args...>
# 1. confirms the seeded change in a fresh scratch worktree (suite passes with it, demo fails with it and passes without)
# 2. applies it to /repo, runs the property's check (quick), reverts
# 3. stores patch + demo + meta.json under /verif/seeded/<seed-id>/
set -u
sid=$1; pid=$2; sdir=$3; demo=$4; dest=$5; shift 5
export GOPROXY=off GOFLAGS=-mod=mod GOTOOLCHAIN=local GOSUMDB=off
W=/tmp/seedver/$sid
rm -rf $W; git -C /repo worktree prune; git -C /repo worktree add -q --detach $W HEAD || exit 9
cp $sdir/$demo $W/$dest
(cd $W && go test -vet=off -count=1 "$@" > /tmp/seedver.$sid.clean.log 2>&1); clean=$?
rm -f $W/$dest
(cd $W && git apply $sdir/patch.diff) || { echo "patch does not apply"; exit 9; }
(cd $W && go build ./... > /tmp/seedver.$sid.suite.log 2>&1 && go test -vet=off -count=1 ./... >> /tmp/seedver.$sid.suite.log 2>&1); suite=$?
cp $sdir/$demo $W/$dest
# the demo lives in the tree during the suite run only if it is tag-guarded; run it explicitly
(cd $W && go test -vet=off -count=1 "$@" > /tmp/seedver.$sid.seeded.log 2>&1); seeded=$?
git -C /repo worktree remove --force $W
echo "demo on clean tree: exit $clean (want 0); suite with change: exit $suite (want 0); demo with change: exit $seeded (want != 0)"
confirmed=false; [ $clean -eq 0 ] && [ $suite -eq 0 ] && [ $seeded -ne 0 ] && confirmed=true
# run the check against the change
git -C /repo apply $sdir/patch.diff || exit 9
cd /verif; ./check $pid --tier quick > /tmp/seedver.$sid.check.log 2>&1; crc=$?
git -C /repo checkout -- .
kinds=$(grep -A1 VIOLATION /tmp/seedver.$sid.check.log | grep kind= | sed 's/ detail=.*//' | sort | uniq -c | tr '\n' ';')
echo "check $pid quick: exit $crc  $kinds"
mkdir -p /verif/seeded/$sid; cp $sdir/patch.diff /verif/seeded/$sid/; cp $sdir/$demo /verif/seeded/$sid/$(basename $dest).txt; [ -f $sdir/NOTES.md ] && cp $sdir/NOTES.md /verif/seeded/$sid/
python3 - "$sid" "$pid" "$confirmed" "$crc" "$kinds" "$dest" "$*" <<'PY'
import json,sys
sid,pid,conf,crc,kinds,dest,args=sys.argv[1:8]
meta=dict(seed=sid, property=pid, confirmed=(conf=="true"), demo_destination=dest, demo_command="go test -vet=off -count=1 "+args,
          check_quick_exit=int(crc), check_quick_kinds=kinds, origin="independent sub-agent that saw only the property text")
json.dump(meta,open('/verif/seeded/%s/meta.json'%sid,'w'),indent=1)
PY
git -C /repo status --short | head -3
