#!/bin/sh
# setup_cmd: offline, from a fresh restore. Warms both toolchains' build caches and builds every test binary once.
set -e
cd "$(dirname "$0")"
export GOFLAGS=-mod=mod GOPROXY=off GOSUMDB=off GOTOOLCHAIN=local
mkdir -p .build evidence replays .out
cd harness
# harness/go.sum = /repo/go.sum + rapid (never run -mod=mod inside /repo)
python3 - <<'PY'
import os
src=open('/repo/go.sum').read().splitlines()
dst='go.sum'
have=set(open(dst).read().splitlines()) if os.path.exists(dst) else set()
miss=[l for l in src if l not in have]
if miss:
    open(dst,'a').write("\n".join(miss)+"\n")
PY
for p in $(ls -d */ | tr -d /); do
  [ "$p" = common ] && continue
  if ls $p/*_test.go >/dev/null 2>&1; then
    if grep -l '^//go:build go1.25' $p/*_test.go >/dev/null 2>&1; then
      go1.26.8 test -c -tags verif -o ../.build/$p-go1.26.8.test ./$p || exit 1
    else
      go test -c -tags verif -o ../.build/$p-go.test ./$p || exit 1
    fi
  fi
done
echo setup ok
