#!/bin/sh
# setup_cmd: offline, from a fresh restore. Warms both toolchains' build caches and builds every test binary the checks use.
set -e
cd "$(dirname "$0")"
export GOFLAGS=-mod=mod GOPROXY=off GOSUMDB=off GOTOOLCHAIN=local
mkdir -p .build evidence replays .out
cd harness
# harness/go.sum = /repo/go.sum + rapid (never run -mod=mod inside /repo)
python3 - <<'PY'
import os
src=open('/repo/go.sum').read().splitlines()
dst='go.sum'
have=set(open(dst).read().splitlines()) if os.path.exists(dst) else set()
miss=[l for l in src if l not in have]
if miss:
    open(dst,'a').write("\n".join(miss)+"\n")
PY
# one build per (package, toolchain, race) named in checks_table.py
python3 - <<'PY' > ../.build/targets.txt
import sys
sys.path.insert(0, '..')
from checks_table import CHECKS
seen=set()
for c in CHECKS.values():
    for j in c['jobs']:
        if j.get('kind')=='fuzz':
            continue
        seen.add((j['pkg'], j['go'], bool(j.get('race'))))
for pkg,go,race in sorted(seen):
    print(pkg, go, 1 if race else 0)
PY
while read pkg go race; do
  name=$(basename $pkg)-$go
  flags=""
  if [ "$race" = 1 ]; then name=$name-race; flags="-race"; fi
  $go test -c -tags verif $flags -o ../.build/$name.test $pkg || exit 1
done < ../.build/targets.txt
echo setup ok
