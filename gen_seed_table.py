#!/usr/bin/env python3
"""Rewrites section 8 of DESIGN.md from seeded/*/meta.json."""
import json, glob, os
ROOT = os.path.dirname(os.path.abspath(__file__))
rows = []
n = missed = 0
for d in sorted(glob.glob(os.path.join(ROOT, 'seeded', '*', ''))):
    s = os.path.basename(d.rstrip('/'))
    m = json.load(open(d + 'meta.json'))
    n += 1
    caught = ' '.join(('quick: ' + m['check_quick_kinds'].replace(';', '; ')).split()) if m['check_quick_exit'] == 1 else 'MISSED'
    hist = m.get('history', '')
    if hist:
        missed += 1
        if hist.startswith('not caught'):
            status = hist
        else:
            status = 'missed at first: ' + hist.split(';', 1)[1].strip() if ';' in hist else hist
    else:
        status = 'as built'
    rows.append('| %s | %s | %s | %s | %s |' % (s, m.get('change', ''), m.get('needs', ''), caught, status))
sec = '''
---------------------------------------------------------------------------------------------

## 8. Independent seeded changes (sub-agents that saw only the property text)

Each of the %d changes below was written by a fresh sub-agent in its own scratch worktree, knowing the text of
one property (second-round agents also a one-line summary of the first-round change, so as to choose another)
and nothing about /verif. Each was confirmed in a fresh worktree by `seed_eval.sh` (the 254-test suite passes
with the change; the agent's demonstration fails with it and passes without it), then applied to /repo, the
property's quick tier run, and reverted. `seeded/<id>/` keeps patch.diff, the demonstration, the agent's NOTES.md
and meta.json; `seed_recheck.sh` re-runs all of them. %d were caught by the checks as built; %d were missed at
first and led to the strengthenings named in the last column (all %d are caught now by the quick tier - two of them, C16-c and C05-n, by the check of the property whose clause they break first, as their rows say).

| seed | change | needs | caught by (quick tier, kinds) | check |
|---|---|---|---|---|
''' % (n, n - missed, missed, n) + '\n'.join(rows) + '''

Lessons drawn from the misses. Rounds 1 and 2: the generators had inherited implicit restrictions (payload
never empty, sequence field of unnumbered units always zero, reconnect never re-assigns the old channel, scripted
failures only on first transmissions, description responses without optional blocks, no reconnect inside an
ordering burst) and one oracle clause was only evaluated sequentially (registry keying). Round 3 asked for
changes that need concurrency or a fault, and exposed what the harness did not yet *combine*: socket errors on
the tunnel side, concurrent senders meeting a reconnect, several closers while a reconnect hangs (plus a real
oracle bug: the per-caller probe after Close was skipped for closers that returned before the first one),
concurrent group senders, and frames still in flight when a describe call returns. Each was added at the
generator / executor; no oracle was loosened. One seed written for C16 (Tunnel.Close polling the socket once)
is a C10 defect and is caught there; the socket-level check of C16 does not see it.
'''
p = os.path.join(ROOT, 'DESIGN.md')
s = open(p).read()
mark = '\n---------------------------------------------------------------------------------------------\n\n## 8. Independent seeded'
if mark in s:
    s = s[:s.index(mark)]
open(p, 'w').write(s.rstrip('\n') + '\n' + sec)
print(n, 'seeds,', missed, 'missed at first')
