#!/bin/bash
# development aid: apply every kept seeded change to the repository in turn, run its property's quick check, revert;
# one line each. Repository: $VERIF_REPO (default /repo) - in a `vp run --with-repo` snapshot pass $VP_RUN_REPO so
# that /repo itself stays free:  vp run --with-repo -- bash -c 'sed -i "s#=> /repo#=> $VP_RUN_REPO#" harness/go.mod; VERIF_REPO=$VP_RUN_REPO ./seed_recheck.sh'
cd "$(dirname "$0")"
R=${VERIF_REPO:-/repo}
export VERIF_REPO=$R GOFLAGS=-mod=mod GOPROXY=off GOSUMDB=off GOTOOLCHAIN=local
[ "$R" != /repo ] && ./setup.sh >/dev/null
for d in seeded/*/; do
  s=$(basename $d); id=$(python3 -c "import json;print(json.load(open('$d/meta.json'))['property'])")
  if python3 -c "import json,sys;sys.exit(0 if json.load(open('$d/meta.json')).get('superseded') else 1)"; then echo "$s ($id): superseded (the code it patches was replaced by a fix)"; continue; fi
  git -C $R apply $PWD/$d/patch.diff || { echo "$s: patch does not apply"; continue; }
  ./check $id --tier ${1:-quick} > /tmp/seedrecheck.$$.log 2>&1; rc=$?
  git -C $R checkout -- .
  echo "$s ($id): exit $rc $(grep -A1 VIOLATION /tmp/seedrecheck.$$.log | grep kind= | sed 's/ detail=.*//' | sort | uniq -c | tr '\n' ';')"
done
rm -f /tmp/seedrecheck.$$.log
git -C $R status --short | head -3
