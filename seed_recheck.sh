#!/bin/bash
# development aid: apply every kept seeded change to /repo in turn, run its property's quick check, revert; one line each
cd /verif
for d in seeded/*/; do
  s=$(basename $d); id=$(python3 -c "import json;print(json.load(open('$d/meta.json'))['property'])")
  git -C /repo apply /verif/$d/patch.diff || { echo "$s: patch does not apply"; continue; }
  ./check $id --tier ${1:-quick} > /tmp/seedrecheck.log 2>&1; rc=$?
  git -C /repo checkout -- .
  echo "$s ($id): exit $rc $(grep -A1 VIOLATION /tmp/seedrecheck.log | grep kind= | sed 's/ detail=.*//' | sort | uniq -c | tr '\n' ';')"
done
git -C /repo status --short | head -3
