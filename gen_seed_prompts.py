#!/usr/bin/env python3
"""gen_seed_prompts.py <dir>: writes <dir>/<ID>.prompt.txt for every property - the brief a fresh sub-agent gets for
producing an independent seeded change. It contains the property text and one-line descriptions of the changes earlier
sub-agents produced for the same property (so that the new one differs); nothing about the checks in /verif."""
import json, sys, os, glob
out = sys.argv[1]
os.makedirs(out, exist_ok=True)
earlier = {}
for m in sorted(glob.glob('/verif/seeded/*/meta.json')):
    d = json.load(open(m))
    earlier.setdefault(d['property'], []).append(d.get('change', '').strip())
T = open('/verif/seed_prompt_template.txt').read()
for l in open('/verif/properties.jsonl'):
    p = json.loads(l)
    pid = p['id']
    col = '\n'.join('   (%d) %s' % (i + 1, c) for i, c in enumerate(earlier.get(pid, [])))
    txt = (T.replace('@DIR@', '%s/%s' % (out, pid)).replace('@ID@', pid).replace('@TITLE@', p['title'])
           .replace('@STATEMENT@', p['statement']).replace('@QUANT@', p['quantifier']['text'])
           .replace('@ANCHORS@', json.dumps(p['anchors']['files'])).replace('@COLLEAGUES@', col))
    open('%s/%s.prompt.txt' % (out, pid), 'w').write(txt)
print('wrote', out)
