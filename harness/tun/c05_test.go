package tun

import (
	"fmt"
	"strings"

	"pgregory.net/rapid"
	"verif/harness/common"
)

// oracleC05: exactly-once / in-order invariants over the history of the composed system
// client x lossy network x reference gateway.
func oracleC05(p *Plan, res *Result) *common.Fail {
	evs := res.Events
	busPos := map[int]int{}
	var bus []int
	type snd struct {
		tag, seq int
		err      string
		i0, i1   int
		done     int64
	}
	var sends []*snd
	cur := map[int]*snd{}
	refused := map[int]bool{} // telegrams the gateway took (its counter advanced) but kept off the bus
	var gwAcked, reads []int
	readCount := map[int]int{}
	for i, e := range evs {
		switch e.K {
		case "bus":
			if _, dup := busPos[e.Tag]; dup {
				return failTrace(evs, i, "bus-duplicate", "telegram %d was put on the bus a second time (sequence number %d)", e.Tag, e.Seq)
			}
			busPos[e.Tag] = len(bus)
			bus = append(bus, e.Tag)
		case "send>":
			s := &snd{tag: e.Tag, seq: -1, i0: i, i1: -1}
			sends = append(sends, s)
			cur[e.Tag] = s
		case "out":
			if e.Svc == "TunnelReq" {
				if s := cur[e.Tag]; s != nil && s.seq < 0 {
					s.seq = e.Seq
				}
			}
		case "send<":
			if s := cur[e.Tag]; s != nil {
				s.err, s.i1, s.done = e.Err, i, e.T
				delete(cur, e.Tag)
			}
		case "note":
			if strings.HasPrefix(e.Note, "gateway refuses this telegram") {
				refused[e.Tag] = true
			}
		case "gwacked":
			gwAcked = append(gwAcked, e.Tag)
		case "read":
			reads = append(reads, e.Tag)
			readCount[e.Tag]++
			if readCount[e.Tag] > 1 {
				return failTrace(evs, i, "delivered-twice", "telegram %d from the bus was handed to the application a second time", e.Tag)
			}
		}
	}
	// client -> bus
	lastPos := -1
	for k, s := range sends {
		if s.i1 < 0 || s.err != "" {
			continue
		}
		pos, on := busPos[s.tag]
		if !on {
			f := failTrace(evs, s.i1, "success-not-on-bus", "Send(telegram %d, sequence number %d) reported success but the gateway never put the telegram on the bus (bus: %v)", s.tag, s.seq, bus)
			// signature of the known finding: the number was re-used after a Send that timed out
			// although the gateway had accepted its request
			for _, a := range sends[:k] {
				// the earlier Send gave up without an acknowledgement (response timeout, or a socket error on a
				// retransmission) although one of its transmissions had reached the gateway
				if _, aOn := busPos[a.tag]; (aOn || refused[a.tag]) && (isTimeoutErr(a.err) || strings.Contains(a.err, "scripted socket error")) && a.seq == s.seq {
					f.Known = "seq-reuse-after-timeout"
					f.Detail += fmt.Sprintf(" [sequence number %d was re-used: Send(telegram %d) had failed with %q although the gateway had accepted it]", s.seq, a.tag, a.err)
					break
				}
			}
			return f
		}
		if pos < lastPos {
			return failTrace(evs, s.i1, "bus-order", "Sends completed in the order ... %d but the bus saw %v", s.tag, bus)
		}
		lastPos = pos
	}
	// bus -> client: every acknowledged telegram accepted exactly once, in the gateway's order
	idx := 0
	for _, t := range gwAcked {
		found := false
		for idx < len(reads) {
			if reads[idx] == t {
				found = true
				idx++
				break
			}
			idx++
		}
		if !found {
			if readCount[t] == 0 {
				if res.terminatedEarly() {
					continue
				}
				return failTrace(evs, len(evs)-1, "acked-not-delivered", "the gateway obtained an acknowledgement for telegram %d but the application never received it (acknowledged %v, read %v)", t, gwAcked, reads)
			}
			return failTrace(evs, len(evs)-1, "delivery-order", "telegrams acknowledged to the gateway in the order %v were read in the order %v", gwAcked, reads)
		}
	}
	return nil
}

func genNetFate(rt *rapid.T, c Cfg, lossy int, label string) NetFate {
	k := rapid.IntRange(0, 9).Draw(rt, label+"-kind")
	d := rapid.SampledFrom([]int{137, 137, 337, c.ResendUs / 2, c.ResendUs - 263, c.ResendUs + 337, 2*c.ResendUs + 137}).Draw(rt, label+"-d")
	switch {
	case k < lossy:
		return NetFate{Act: "lose"}
	case k == 9:
		return NetFate{Act: "dup", DelayUs: d, Delay2Us: d + rapid.SampledFrom([]int{1, 211, c.ResendUs + 211, 3*c.ResendUs + 211}).Draw(rt, label+"-d2")}
	}
	return NetFate{Act: "deliver", DelayUs: d}
}

func genPlanC05(rt *rapid.T) *Plan {
	rms := rapid.SampledFrom([]int{50, 100, 250, 500}).Draw(rt, "resend_ms")
	tms := rms * rapid.IntRange(2, 8).Draw(rt, "timeout_mult")
	c := Cfg{ResendUs: rms * 1000, TimeoutUs: tms * 1000, HeartbeatUs: hugeUs}
	p := &Plan{Cfg: c, DefConn: okFate(1337), DefHb: okFate(337), DefAck: okFate(137), DefDisc: okFate(1337), DrainUs: 2000}
	ref := &RefGw{DefC2G: NetFate{Act: "deliver", DelayUs: 137}, DefG2C: NetFate{Act: "deliver", DelayUs: 137},
		GwResendUs: rapid.SampledFrom([]int{rms * 1000, 2 * rms * 1000, 1000000}).Draw(rt, "gw-resend"), GwTries: rapid.IntRange(2, 5).Draw(rt, "gw-tries")}
	long := rapid.IntRange(0, 19).Draw(rt, "long") == 0
	n := rapid.IntRange(0, 6).Draw(rt, "sends")
	m := rapid.IntRange(0, 6).Draw(rt, "bus-telegrams")
	lossy := rapid.IntRange(1, 5).Draw(rt, "lossiness")
	nf := 6 * (n + m + 1)
	if long {
		n = rapid.IntRange(258, 320).Draw(rt, "sends-long")
		m = rapid.IntRange(0, 300).Draw(rt, "bus-long")
		nf = rapid.IntRange(0, 30).Draw(rt, "faults-long")
		lossy = 2
	}
	for i := 0; i < nf; i++ {
		ref.C2G = append(ref.C2G, genNetFate(rt, c, lossy, fmt.Sprintf("c2g%d", i)))
		ref.G2C = append(ref.G2C, genNetFate(rt, c, lossy, fmt.Sprintf("g2c%d", i)))
	}
	var lane []AppStep
	for i := 0; i < n; i++ {
		lane = append(lane, AppStep{AfterUs: rapid.SampledFrom([]int{0, 0, 1, rms}).Draw(rt, "gap")*1000 + 100, Tag: i + 1})
	}
	if n > 0 {
		p.Senders = [][]AppStep{lane}
	}
	// a third of the short plans use the group layer on top of the tunnel (several goroutines in Send at once cannot
	// run on the fake clock - one waits for the other's lock while that one waits for time; the stream job has them)
	if !long && rapid.IntRange(0, 2).Draw(rt, "group-layer") == 0 {
		p.Group = true
	}
	if n > 1 && rapid.IntRange(0, 3).Draw(rt, "refusals") == 0 {
		// the gateway refuses some telegrams (error status; its counter advances all the same)
		for i := 0; i < n; i++ {
			if rapid.IntRange(0, 5).Draw(rt, "refuse") == 0 {
				ref.Refuse = append(ref.Refuse, i+1)
			}
		}
	}
	for i := 0; i < m; i++ {
		ref.Bus = append(ref.Bus, BusStep{AfterUs: rapid.SampledFrom([]int{0, 0, 1, rms}).Draw(rt, "bus-gap")*1000 + 211, Tag: 100000 + i})
	}
	p.Ref = ref
	if rapid.IntRange(0, 2).Draw(rt, "socket-errors") == 0 {
		for i := 0; i < rapid.IntRange(1, 4).Draw(rt, "n-sock-fail"); i++ {
			p.FailOut = append(p.FailOut, rapid.IntRange(0, 2*(n+m)+2).Draw(rt, "sock-fail-at"))
		}
	}
	if len(ref.Refuse) > 0 {
		// Refusals are judged on a link that loses and repeats nothing: when the error acknowledgement of a refused
		// request is lost, its repetition is acknowledged as a duplicate with status OK (that is what the tunnelling
		// rules say about the previous number) and the client cannot know better - a weakness of the protocol, not of
		// the client.
		ref.C2G, ref.G2C, p.FailOut = nil, nil, nil
	}
	p.Consumer = []ConStep{{AfterUs: 50, Kind: "drain"}}
	if rapid.IntRange(0, 3).Draw(rt, "slow-reader") == 0 {
		p.Consumer = nil
	}
	p.TailUs = 4 * c.ResendUs
	return p
}

func classifyC05(p *Plan, res *Result, rec *common.Rec) bool {
	lost, dup, retrans := false, false, false
	nOut := map[int]int{}
	for _, e := range res.Events {
		if e.K == "out" && e.Svc == "TunnelReq" {
			nOut[e.Tag]++
			if nOut[e.Tag] > 1 {
				retrans = true
			}
		}
	}
	nFates := 0
	for _, f := range append(append([]NetFate{}, p.Ref.C2G...), p.Ref.G2C...) {
		nFates++
		if f.Act == "lose" {
			lost = true
		}
		if f.Act == "dup" {
			dup = true
		}
	}
	wrap := len(p.Senders) > 0 && len(p.Senders[0]) > 256
	for name, b := range map[string]bool{"loss": lost, "duplication": dup, "client-retransmission": retrans, "wrap-255-0": wrap} {
		if b {
			rec.Class(name)
		}
	}
	return retrans || (dup && lost) || wrap
}
