package tun

import (
	"github.com/vapourismo/knx-go/knx/util"
	"fmt"
	"os"
	"runtime"
	"strings"
	"testing"
	"time"

	"pgregory.net/rapid"
	"verif/harness/common"
)

// runReal executes plan on the real clock (mode R).
type slowLogger struct{ d time.Duration }

func (l slowLogger) Printf(format string, args ...interface{}) {
	_ = fmt.Sprintf(format, args...)
	time.Sleep(l.d)
}

func runReal(p *Plan) *Result {
	if p.SlowLogUs > 0 {
		util.Logger = slowLogger{us(p.SlowLogUs)}
		defer func() { util.Logger = nil }()
	}
	sim := &Sim{Plan: p, Limit: 5 * time.Second}
	return sim.Run()
}

// libGoroutines returns the stacks of goroutines started by the library that are still alive.
func libGoroutines() []string {
	buf := make([]byte, 4<<20)
	buf = buf[:runtime.Stack(buf, true)]
	var out []string
	for _, g := range strings.Split(string(buf), "\n\n") {
		if strings.Contains(g, "created by github.com/vapourismo/knx-go/knx") {
			out = append(out, g)
		}
	}
	return out
}

// waitNoLibGoroutines polls until no library goroutine is left or the grace period is over.
func waitNoLibGoroutines(grace time.Duration) []string {
	deadline := time.Now().Add(grace)
	for {
		gs := libGoroutines()
		if len(gs) == 0 || time.Now().After(deadline) {
			return gs
		}
		time.Sleep(2 * time.Millisecond)
	}
}

func TestC17R(t *testing.T) {
	rec := common.NewRec("C17", "real")
	completed := false
	defer func() { rec.Finish(completed) }()
	run := func(p *Plan) *common.Fail {
		res := runReal(p)
		if res.ConnErr != "" {
			rec.Inconclusive("initial connect failed")
			return nil
		}
		if f := oracleC17(p, res); f != nil {
			return f
		}
		if classifyC17(p, res, rec) {
			rec.NonTrivial(common.HashJSON(p))
		}
		rec.Sample("real", map[string]any{"plan": p})
		return nil
	}
	common.Drive(t, rec, func(rt *rapid.T) *Plan { return genPlanC17(rt, true) }, run)
	completed = true
}

func TestC10R(t *testing.T) {
	rec := common.NewRec("C10", "race")
	completed := false
	defer func() { rec.Finish(completed) }()
	run := func(p *Plan) *common.Fail {
		rec.InFlight(p)
		res := runReal(p)
		rec.Landed()
		if res.ConnErr != "" {
			rec.Inconclusive("initial connect failed")
			return nil
		}
		if os.Getenv("VERIF_DUMP") != "" {
			for _, l := range Dump(res.Events, 0) {
				fmt.Println(l)
			}
		}
		if f := oracleC10(p, res, false); f != nil {
			return f
		}
		if gs := waitNoLibGoroutines(2 * time.Second); len(gs) > 0 {
			f := common.Failf("goroutine-leak", "%d goroutine(s) started by the library are still alive 2 s after Close returned", len(gs))
			f.Extra = map[string]any{"goroutines": strings.Join(gs, "\n\n"), "trace": Dump(res.Events, 60)}
			return f
		}
		if classifyC10(p, res, rec) {
			rec.NonTrivial(common.HashJSON(p))
		}
		rec.Class("closers=" + string(rune('0'+len(p.Closers))))
		rec.Sample("race", map[string]any{"plan": p})
		return nil
	}
	common.Drive(t, rec, func(rt *rapid.T) *Plan { return withEdgeChannels(rt, genPlanC10R(rt)) }, run)
	completed = true
}

func TestC03R(t *testing.T) {
	rec := common.NewRec("C03", "real")
	completed := false
	defer func() { rec.Finish(completed) }()
	run := func(p *Plan) *common.Fail {
		rec.InFlight(p)
		res := runReal(p)
		rec.Landed()
		if res.ConnErr != "" {
			rec.Inconclusive("initial connect failed")
			return nil
		}
		if f := oracleC03R(p, res); f != nil {
			return f
		}
		rec.Class("real senders>=2: " + map[bool]string{true: "yes", false: "no"}[len(p.Senders) >= 2])
		if classifyC03(p, res, rec) || len(p.Senders) >= 2 {
			rec.NonTrivial(common.HashJSON(p))
		}
		rec.Sample("real", map[string]any{"plan": p})
		return nil
	}
	common.Drive(t, rec, func(rt *rapid.T) *Plan { return withEdgeChannels(rt, genPlanC03R(rt)) }, run)
	completed = true
}

func TestC09R(t *testing.T) {
	rec := common.NewRec("C09", "real")
	completed := false
	defer func() { rec.Finish(completed) }()
	run := func(p *Plan) *common.Fail {
		rec.InFlight(p)
		res := runReal(p)
		rec.Landed()
		if res.ConnErr != "" {
			rec.Inconclusive("initial connect failed")
			return nil
		}
		f, queued := oracleC09R(p, res)
		if f != nil {
			return f
		}
		if queued {
			rec.Class("real: a Send queued before a reconnect was first transmitted after it")
			rec.NonTrivial(common.HashJSON(p))
		} else {
			rec.Class("real: no Send crossed a reconnect")
		}
		rec.Sample("real", map[string]any{"plan": p})
		return nil
	}
	common.Drive(t, rec, func(rt *rapid.T) *Plan { return genPlanC09R(rt) }, run)
	completed = true
}

// TestC03RR: the stop-and-wait clauses that survive a reconnect - a Send whose request is unacknowledged while the
// gateway ends the connection and a new one is established keeps retransmitting *the same* request, and no other
// request leaves in between (real clock; the plans of the C09 reconnect job).
func TestC03RR(t *testing.T) {
	rec := common.NewRec("C03", "real-reconnect")
	completed := false
	defer func() { rec.Finish(completed) }()
	run := func(p *Plan) *common.Fail {
		rec.InFlight(p)
		res := runReal(p)
		rec.Landed()
		if res.ConnErr != "" {
			rec.Inconclusive("initial connect failed")
			return nil
		}
		evs := res.Events
		if f := sameChannelRestart(p, evs); f != nil {
			return f
		}
		firstHex := map[int]string{}
		last, epochs, across := 0, 0, false
		lastCh := -1
		epochAtFirst := map[int]int{}
		for i, e := range evs {
			switch {
			case e.K == "dlv" && e.Svc == "ConnRes" && e.St == 0:
				epochs++
			case e.K == "out" && e.Svc == "TunnelReq":
				h, seen := firstHex[e.Tag]
				if !seen && p.DefConn.Ch != -1 {
					// the first request that carries a newly assigned channel opens that connection's numbering ("the
					// sequence numbers of both directions restart at 0", C09): whatever was counted on the old one is gone
					if lastCh >= 0 && e.Ch != lastCh && e.Seq != 0 {
						return failTrace(evs, i, "counter-not-reset", "telegram %d is the first request transmitted with the newly assigned channel %d and carries sequence number %d (the previous request went out on channel %d)", e.Tag, e.Ch, e.Seq, lastCh)
					}
					lastCh = e.Ch
				}
				switch {
				case !seen:
					firstHex[e.Tag], epochAtFirst[e.Tag] = e.Hex, epochs
				case last != e.Tag:
					return failTrace(evs, i, "interleaved", "a request for telegram %d left the socket after a request for telegram %d had been transmitted in between: two requests were unacknowledged at the same time", e.Tag, last)
				case h != e.Hex:
					return failTrace(evs, i, "retransmission-differs", "a retransmission of telegram %d differs from its first transmission (%d connection(s) were established in between):\n first %s\n this  %s", e.Tag, epochs-epochAtFirst[e.Tag], h, e.Hex)
				default:
					if epochs > epochAtFirst[e.Tag] {
						across = true
					}
				}
				last = e.Tag
			}
		}
		if across {
			rec.Class("real: a request was retransmitted after the connection had been re-established")
			rec.NonTrivial(common.HashJSON(p))
		} else {
			rec.Class("real: no retransmission crossed a reconnect")
		}
		rec.Sample("real-reconnect", map[string]any{"plan": p})
		return nil
	}
	common.Drive(t, rec, func(rt *rapid.T) *Plan { return genPlanC09R(rt) }, run)
	completed = true
}
