package tun

import (
	"fmt"
	"net"
	"os"
	"sync"
	"sync/atomic"
	"testing"
	"time"

	"github.com/vapourismo/knx-go/knx"
	"github.com/vapourismo/knx-go/knx/cemi"
	"github.com/vapourismo/knx-go/knx/knxnet"
	"pgregory.net/rapid"
	"verif/harness/common"
)

// Streaming job (real scheduler, in-memory socket, no settle waits): a rule-following gateway tunnels N telegrams as
// fast as the rules allow - the next one the moment the acknowledgement of the previous one is in its hands (TCP: all
// at once) - over a perfect link, while the application alternates between reading and being busy, sends telegrams
// of its own from a second goroutine and heartbeats pass. The plan-driven jobs pace the gateway by a script with
// settle waits; here the hand-over machinery is hit while it is in motion (a parked telegram whose goroutine has
// not reached its send yet, a back-log that is being drained, an acknowledgement passing the back-log).
// Oracle (one-sided, no instants): what the application reads is 0,1,2,... without gap, repetition or exchange; the
// gateway got exactly one acknowledgement per telegram, numbered like it; all N arrive while the tunnel is open.
type streamPlan struct {
	N       int   `json:"n"`
	Pauses  []int `json:"pauses"` // after the k-th block the reader is busy for Pauses[k%len] microseconds (0 = none)
	Every   []int `json:"every"`  // block lengths (cycled)
	Spin    bool  `json:"spin"`   // busy reader spins (stays on its core) instead of sleeping
	Group   bool  `json:"group"`
	TCP     bool  `json:"tcp"`
	Sends   int   `json:"sends"`   // telegrams the application sends meanwhile
	Senders int   `json:"senders"` // goroutines that share them (0 = 1)
	// LoseEvery > 0: the gateway does not see the first transmission of every LoseEvery-th request of the application
	// (it is lost on the way), so that the repetition is what it accepts; the resend interval is 20 ms then
	LoseEvery int `json:"lose_every,omitempty"`
	HbUs    int   `json:"hb_us"`   // heartbeat interval (0 = none within the run)
	StartCh uint8 `json:"channel"` // channel the gateway assigns
}

func streamRun(p streamPlan) (*common.Fail, string) {
	var local net.Addr = &net.UDPAddr{IP: net.IPv4(192, 168, 7, 9), Port: 43671}
	if p.TCP {
		local = &net.TCPAddr{IP: net.IPv4(192, 168, 7, 9), Port: 43671}
	}
	sock := common.NewMemSock(local)
	var mu sync.Mutex
	next := 0 // number of telegrams tunnelled so far
	var bus []int
	gwExpect, nReq, lostSeq, lostTag := 0, 0, -1, 0
	var sendProblem string
	var ackProblem string
	var acks int64
	ch := p.StartCh
	injectNext := func() { // mu held
		if next < p.N {
			sock.Inject(&knxnet.TunnelReq{Channel: ch, SeqNumber: uint8(next), Payload: inMsg(next, p.Group)})
			next++
		}
	}
	sock.OnSend = func(f *common.OutFrame) error {
		switch v := f.Svc.(type) {
		case *knxnet.ConnReq:
			sock.Inject(&knxnet.ConnRes{Channel: ch, Status: knxnet.NoError, Control: knxnet.HostInfo{Protocol: knxnet.UDP4}})
		case *knxnet.ConnStateReq:
			sock.Inject(&knxnet.ConnStateRes{Channel: v.Channel, Status: knxnet.NoError})
		case *knxnet.DiscReq:
			sock.Inject(&knxnet.DiscRes{Channel: v.Channel, Status: knxnet.NoError})
		case *knxnet.TunnelReq:
			if p.TCP {
				mu.Lock()
				bus = append(bus, tagOf(v.Payload))
				mu.Unlock()
				break
			}
			// the rule-following gateway for the application's requests: the expected number is accepted (put on the
			// bus, acknowledged), the one before it acknowledged again, anything else ignored
			mu.Lock()
			tag := tagOf(v.Payload)
			switch int(v.SeqNumber) {
			case gwExpect:
				nReq++
				if p.LoseEvery > 0 && nReq%p.LoseEvery == 0 && lostSeq != gwExpect {
					lostSeq, lostTag = gwExpect, tag // never arrives
					mu.Unlock()
					return nil
				}
				if lostSeq == gwExpect && tag != lostTag && sendProblem == "" {
					sendProblem = fmt.Sprintf("retransmission-differs|the repetition of request number %d carries telegram %d, its first transmission (lost on the way) carried telegram %d", gwExpect, tag, lostTag)
				}
				lostSeq = -1
				bus = append(bus, tag)
				gwExpect = (gwExpect + 1) % 256
				sock.Inject(&knxnet.TunnelRes{Channel: v.Channel, SeqNumber: v.SeqNumber, Status: knxnet.NoError})
			case (gwExpect + 255) % 256:
				sock.Inject(&knxnet.TunnelRes{Channel: v.Channel, SeqNumber: v.SeqNumber, Status: knxnet.NoError})
			}
			mu.Unlock()
		case *knxnet.TunnelRes:
			mu.Lock()
			atomic.AddInt64(&acks, 1)
			switch {
			case p.TCP:
				if ackProblem == "" {
					ackProblem = fmt.Sprintf("tcp-acknowledged|a telegram was acknowledged on a TCP tunnel (%+v)", *v)
				}
			case v.Channel != ch || v.Status != knxnet.NoError || int(v.SeqNumber) != (next-1)%256 || next == 0:
				if ackProblem == "" {
					ackProblem = fmt.Sprintf("ack-wrong|telegram #%d (channel %d, sequence number %d) on a perfect link was answered with %+v", next-1, ch, (next-1)%256, *v)
				}
			default:
				injectNext()
			}
			mu.Unlock()
		}
		return nil
	}
	cfg := knx.TunnelConfig{ResendInterval: 500 * time.Millisecond, ResponseTimeout: 5 * time.Second, HeartbeatInterval: time.Hour, UseTCP: p.TCP}
	if p.HbUs > 0 {
		cfg.HeartbeatInterval = us(p.HbUs)
	}
	if p.LoseEvery > 0 {
		cfg.ResendInterval = 20 * time.Millisecond
	}
	var tun *knx.Tunnel
	var gt knx.GroupTunnel
	var err error
	if p.Group {
		gt, err = knx.VerifNewGroupTunnel(sock, cfg)
		tun = gt.Tunnel
	} else {
		tun, err = knx.VerifNewTunnel(sock, knxnet.TunnelLayerData, cfg)
	}
	if err != nil {
		sock.Close()
		return nil, "connect failed: " + err.Error()
	}
	defer tun.Close()
	// the application's own traffic
	sendErr := make(chan string, 1)
	var sendsDone sync.WaitGroup
	senders := p.Senders
	if senders < 1 {
		senders = 1
	}
	var okMu sync.Mutex
	var okTags []int
	for g := 0; g < senders && p.Sends > 0; g++ {
		sendsDone.Add(1)
		go func(g int) {
			defer sendsDone.Done()
			for i := g; i < p.Sends; i += senders {
				var e error
				if p.Group {
					e = gt.Send(knx.GroupEvent{Command: knx.GroupWrite, Destination: cemi.NewGroupAddr3(1, 2, 3), Data: tagData(100000 + i)})
				} else {
					e = tun.Send(reqMsg(100000 + i))
				}
				if e != nil {
					select {
					case sendErr <- e.Error():
					default:
					}
					return
				}
				okMu.Lock()
				okTags = append(okTags, 100000+i)
				okMu.Unlock()
			}
		}(g)
	}
	// the gateway starts streaming
	mu.Lock()
	if p.TCP {
		for next < p.N {
			injectNext()
		}
	} else {
		injectNext()
	}
	mu.Unlock()
	var read []int
	block, inBlock := 0, 0
	for len(read) < p.N {
		tm := time.NewTimer(10 * time.Second)
		tag := noTag
		open := true
		timeout := false
		if p.Group {
			select {
			case e, ok := <-gt.Inbound():
				open = ok
				if ok {
					tag = tagOfGroupEvent(e)
				}
			case <-tm.C:
				timeout = true
			}
		} else {
			select {
			case m, ok := <-tun.Inbound():
				open = ok
				if ok {
					tag = tagOf(m)
				}
			case <-tm.C:
				timeout = true
			}
		}
		tm.Stop()
		if !open {
			return common.Failf("inbound-closed", "streaming gateway, perfect link: Inbound() closed after %d of %d telegrams although nobody closed the tunnel and the gateway never ended the connection", len(read), p.N), ""
		}
		if timeout {
			mu.Lock()
			n, ap := next, ackProblem
			mu.Unlock()
			if ap != "" {
				break
			}
			select {
			case e := <-sendErr:
				return nil, "a Send of the application failed on a perfect link: " + e
			default:
			}
			return common.Failf("lost", "streaming gateway, perfect link: the gateway tunnelled %d telegrams (each acknowledged before the next), the application has read %d and nothing more surfaced within 10 s while the tunnel was open", n, len(read)), ""
		}
		if tag != len(read) {
			tail := read
			if len(tail) > 12 {
				tail = tail[len(tail)-12:]
			}
			return common.Failf("order", "streaming gateway, perfect link: the application read telegram #%d where #%d was due (before it: ...%v); the gateway holds one acknowledgement per telegram, obtained in the order 0,1,2,...", tag, len(read), tail), ""
		}
		read = append(read, tag)
		inBlock++
		if inBlock >= p.Every[block%len(p.Every)] {
			if d := p.Pauses[block%len(p.Pauses)]; d > 0 {
				if p.Spin {
					for t0 := time.Now(); time.Since(t0) < us(d); {
					}
				} else {
					time.Sleep(us(d))
				}
			}
			block++
			inBlock = 0
		}
	}
	sendsDone.Wait()
	// the application's telegrams: every successful Send is on the bus exactly once, nothing is there twice, a
	// repetition carried what its first transmission carried
	mu.Lock()
	sp, onBus := sendProblem, append([]int{}, bus...)
	mu.Unlock()
	if sp != "" {
		for i := 0; i < len(sp); i++ {
			if sp[i] == '|' {
				return common.Failf(sp[:i], "streaming gateway, %d application goroutines in Send: %s", senders, sp[i+1:]), ""
			}
		}
	}
	cnt := map[int]int{}
	for _, t := range onBus {
		cnt[t]++
		if cnt[t] > 1 {
			return common.Failf("bus-twice", "streaming gateway, %d application goroutines in Send, first transmission of every %d-th request lost: telegram %d was put on the bus twice (bus: ...%v)", senders, p.LoseEvery, t, onBus[max(0, len(onBus)-8):]), ""
		}
	}
	okMu.Lock()
	for _, t := range okTags {
		if cnt[t] != 1 {
			okMu.Unlock()
			return common.Failf("success-not-on-bus", "streaming gateway, %d application goroutines in Send, first transmission of every %d-th request lost: Send of telegram %d returned nil but it is %d times on the bus", senders, p.LoseEvery, t, cnt[t]), ""
		}
	}
	okMu.Unlock()
	mu.Lock()
	ap := ackProblem
	mu.Unlock()
	if ap != "" {
		for i := 0; i < len(ap); i++ {
			if ap[i] == '|' {
				return common.Failf(ap[:i], "streaming gateway, perfect link: %s", ap[i+1:]), ""
			}
		}
	}
	if !p.TCP {
		// one acknowledgement per telegram; the last one may still be on its way out
		deadline := time.Now().Add(2 * time.Second)
		for atomic.LoadInt64(&acks) < int64(p.N) && time.Now().Before(deadline) {
			time.Sleep(time.Millisecond)
		}
		if a := atomic.LoadInt64(&acks); a != int64(p.N) {
			return common.Failf("ack-count", "streaming gateway, perfect link: %d telegrams delivered, %d acknowledgements sent", p.N, a), ""
		}
	}
	return nil, ""
}

func genStreamPlan(rt *rapid.T, thorough bool) streamPlan {
	p := streamPlan{StartCh: uint8(rapid.IntRange(1, 255).Draw(rt, "channel"))}
	p.N = rapid.SampledFrom([]int{300, 1000, 3000}).Draw(rt, "n")
	if thorough {
		p.N = rapid.SampledFrom([]int{300, 1000, 3000, 10000, 30000}).Draw(rt, "n-thorough")
	}
	for i := 0; i < rapid.IntRange(1, 4).Draw(rt, "blocks"); i++ {
		p.Every = append(p.Every, rapid.SampledFrom([]int{1, 1, 2, 3, 5, 16, 48, 257}).Draw(rt, "every"))
		p.Pauses = append(p.Pauses, rapid.SampledFrom([]int{0, 1, 2, 5, 10, 20, 50, 200, 1000}).Draw(rt, "pause-us"))
	}
	p.Spin = rapid.Bool().Draw(rt, "spin")
	p.Group = rapid.IntRange(0, 2).Draw(rt, "group") == 0
	p.TCP = rapid.IntRange(0, 4).Draw(rt, "tcp") == 0
	if rapid.Bool().Draw(rt, "duplex") {
		p.Sends = rapid.IntRange(1, 200).Draw(rt, "sends")
		p.Senders = rapid.SampledFrom([]int{1, 1, 2, 3}).Draw(rt, "senders")
		if !p.TCP && rapid.Bool().Draw(rt, "lossy-first-transmissions") {
			p.LoseEvery = rapid.IntRange(2, 9).Draw(rt, "lose-every")
			if p.Sends > 40 {
				p.Sends = 40
			}
		}
	}
	if rapid.IntRange(0, 3).Draw(rt, "contended-senders") == 0 {
		// 2..3 application goroutines in Send at once while the first transmission of every 2nd..4th request is lost:
		// what a Send retransmits is what it transmitted first, whatever the others hand in meanwhile
		p.TCP = false
		p.Group = rapid.Bool().Draw(rt, "contended-group")
		p.Senders = rapid.IntRange(2, 3).Draw(rt, "contended-n")
		p.LoseEvery = rapid.IntRange(2, 4).Draw(rt, "contended-lose-every")
		p.Sends = rapid.IntRange(12, 40).Draw(rt, "contended-sends")
	}
	if rapid.IntRange(0, 2).Draw(rt, "heartbeats") == 0 {
		p.HbUs = rapid.SampledFrom([]int{100, 1000, 10000}).Draw(rt, "hb-us")
	}
	return p
}

func streamTest(t *testing.T, id string) {
	rec := common.NewRec(id, "stream")
	completed := false
	defer func() { rec.Finish(completed) }()
	run := func(p streamPlan) *common.Fail {
		if len(p.Every) == 0 || len(p.Pauses) == 0 || p.N <= 0 {
			return nil
		}
		rec.InFlight(p)
		f, inc := streamRun(p)
		rec.Landed()
		if inc != "" {
			rec.Inconclusive(inc)
		}
		return f
	}
	if rec.Env.Replay != "" {
		common.ReplayOnly(t, rec, run)
		completed = true
		return
	}
	common.Drive(t, rec, func(rt *rapid.T) streamPlan {
		p := genStreamPlan(rt, rec.Env.Thorough())
		busy := false
		for _, d := range p.Pauses {
			busy = busy || d > 0
		}
		rec.Class(fmt.Sprintf("stream tcp=%v group=%v busy-reader=%v duplex=%v heartbeats=%v", p.TCP, p.Group, busy, p.Sends > 0, p.HbUs > 0))
		if p.Senders > 1 && p.LoseEvery > 0 {
			rec.Class("stream: several goroutines in Send, first transmissions lost")
		}
		if busy {
			rec.NonTrivial(common.HashJSON(p))
		}
		rec.Sample("stream", p)
		return p
	}, run)
	completed = true
}

// TestC17Stream: order of delivery under a streaming gateway. TestC05Stream: the symmetric clause of C05 (every
// telegram the gateway holds an acknowledgement for is delivered once, in the gateway's order) on a perfect link.
func TestC17Stream(t *testing.T) { streamTest(t, "C17") }
func TestC05Stream(t *testing.T) { streamTest(t, "C05") }

// ---------------------------------------------------------------------------------------------------------------------
// Close while the gateway streams (C10): the gateway works off a backlog - the next telegram the moment the previous
// acknowledgement is in its hands - so the client's server goroutine has a frame at hand every time it looks; the
// application reads as fast as it can. After a drawn time it calls Close. The disconnect request is answered or not
// (a datagram that got lost). Close returns within a bound that does not depend on the traffic, exactly one disconnect
// request has been sent, Inbound closes, a Send afterwards fails at once.
type streamClosePlan struct {
	CloseAfterMs int  `json:"close_after_ms"`
	AnswerDisc   bool `json:"answer_disc"`
	Group        bool `json:"group"`
	Backlog      int  `json:"backlog"` // telegrams the gateway keeps in flight ahead of the acknowledgements (1 = stop-and-wait)
	ReadAhead    int  `json:"read_ahead"` // frames the socket's Inbound() channel buffers (0 = hand-over only, as the library's sockets)
}

func streamCloseRun(p streamClosePlan) (*common.Fail, string) {
	sock := common.NewMemSockBuffered(&net.UDPAddr{IP: net.IPv4(192, 168, 7, 9), Port: 43671}, p.ReadAhead)
	var mu sync.Mutex
	next, discReqs := 0, 0
	stopped := false
	injectNext := func() { // mu held
		if !stopped {
			sock.InjectDirect(&knxnet.TunnelReq{Channel: 7, SeqNumber: uint8(next), Payload: inMsg(next, p.Group)})
			next++
		}
	}
	sock.OnSend = func(f *common.OutFrame) error {
		switch v := f.Svc.(type) {
		case *knxnet.ConnReq:
			sock.Inject(&knxnet.ConnRes{Channel: 7, Status: knxnet.NoError, Control: knxnet.HostInfo{Protocol: knxnet.UDP4}})
		case *knxnet.ConnStateReq:
			sock.Inject(&knxnet.ConnStateRes{Channel: v.Channel, Status: knxnet.NoError})
		case *knxnet.DiscReq:
			mu.Lock()
			discReqs++
			mu.Unlock()
			if p.AnswerDisc {
				sock.Inject(&knxnet.DiscRes{Channel: v.Channel, Status: knxnet.NoError})
			}
		case *knxnet.TunnelRes:
			mu.Lock()
			injectNext()
			mu.Unlock()
		}
		return nil
	}
	cfg := knx.TunnelConfig{ResendInterval: 50 * time.Millisecond, ResponseTimeout: 250 * time.Millisecond, HeartbeatInterval: time.Hour}
	var tun *knx.Tunnel
	var gt knx.GroupTunnel
	var err error
	if p.Group {
		gt, err = knx.VerifNewGroupTunnel(sock, cfg)
		tun = gt.Tunnel
	} else {
		tun, err = knx.VerifNewTunnel(sock, knxnet.TunnelLayerData, cfg)
	}
	if err != nil {
		sock.Close()
		return nil, "connect failed: " + err.Error()
	}
	inboundClosed := make(chan struct{})
	go func() {
		defer close(inboundClosed)
		if p.Group {
			for range gt.Inbound() {
			}
		} else {
			for range tun.Inbound() {
			}
		}
	}()
	mu.Lock()
	for i := 0; i < p.Backlog; i++ {
		injectNext()
	}
	mu.Unlock()
	time.Sleep(time.Duration(p.CloseAfterMs) * time.Millisecond)
	mu.Lock()
	streamed := next
	mu.Unlock()
	closed := make(chan struct{})
	t0 := time.Now()
	go func() { tun.Close(); close(closed) }()
	var fail *common.Fail
	if !common.WaitLive(closed, 3*time.Second) {
		mu.Lock()
		n := next
		stopped = true
		mu.Unlock()
		fail = common.Failf("close-hung", "the gateway was streaming (next telegram on every acknowledgement, %d in flight; %d tunnelled before Close, %d by now; disconnect request answered: %v): Close did not return within 3 s (response timeout 250 ms)", p.Backlog, streamed, n, p.AnswerDisc)
		select {
		case <-closed:
		case <-time.After(5 * time.Second):
		}
	}
	took := time.Since(t0)
	if os.Getenv("VERIF_TRACE") != "" {
		fmt.Printf("stream-close: streamed before Close %d, by the end %d, Close took %v\n", streamed, next, took)
	}
	mu.Lock()
	stopped = true
	dr := discReqs
	mu.Unlock()
	if fail == nil {
		select {
		case <-inboundClosed:
		case <-time.After(2 * time.Second):
			fail = common.Failf("inbound-not-closed", "Close returned after %v while the gateway was streaming, but Inbound() was not closed 2 s later", took)
		}
	}
	if fail == nil && dr != 1 {
		fail = common.Failf("disconnect-count", "Close while the gateway was streaming: %d disconnect requests were sent, exactly one is due (the socket was usable)", dr)
	}
	if fail == nil {
		done := make(chan error, 1)
		go func() { done <- tun.Send(reqMsg(1)) }()
		select {
		case e := <-done:
			if e == nil {
				fail = common.Failf("send-after-close", "a Send after Close had returned reported success")
			}
		case <-time.After(2 * time.Second):
			fail = common.Failf("send-after-close", "a Send after Close had returned was still blocked 2 s later")
		}
	}
	sock.Close()
	<-sock.PumpDone()
	return fail, ""
}

func TestC10Stream(t *testing.T) {
	rec := common.NewRec("C10", "stream")
	completed := false
	defer func() { rec.Finish(completed) }()
	run := func(p streamClosePlan) *common.Fail {
		if p.Backlog < 1 {
			p.Backlog = 1
		}
		rec.InFlight(p)
		f, inc := streamCloseRun(p)
		rec.Landed()
		if inc != "" {
			rec.Inconclusive(inc)
		}
		return f
	}
	if rec.Env.Replay != "" {
		common.ReplayOnly(t, rec, run)
		completed = true
		return
	}
	common.Drive(t, rec, func(rt *rapid.T) streamClosePlan {
		p := streamClosePlan{CloseAfterMs: rapid.SampledFrom([]int{1, 5, 20, 60, 150}).Draw(rt, "close-after"), AnswerDisc: rapid.Bool().Draw(rt, "answer-disc"),
			Group: rapid.IntRange(0, 2).Draw(rt, "group") == 0, Backlog: rapid.SampledFrom([]int{1, 1, 2, 16}).Draw(rt, "backlog"),
			ReadAhead: rapid.SampledFrom([]int{0, 1, 16}).Draw(rt, "read-ahead")}
		rec.Class(fmt.Sprintf("close while streaming: disconnect request answered=%v group=%v in-flight=%d socket-read-ahead=%d", p.AnswerDisc, p.Group, p.Backlog, p.ReadAhead))
		rec.NonTrivial(common.HashJSON(p))
		rec.Sample("stream-close", p)
		return p
	}, run)
	completed = true
}
