//go:build go1.25

package tun

import (
	"strings"
	"testing"
	"time"

	"pgregory.net/rapid"
	"verif/harness/common"
)

func TestC05B(t *testing.T) {
	rec := common.NewRec("C05", "bubble")
	bubbleWD = common.NewWatchdog(rec, 90*time.Second)
	completed := false
	defer func() { rec.Finish(completed) }()
	run := func(p *Plan) *common.Fail {
		rec.InFlight(p)
		br := runBubble(t, p)
		rec.Landed()
		if f := bubbleFail(br); f != nil {
			return f
		}
		if br.ConnErr != "" {
			rec.Inconclusive("initial connect failed")
			return nil
		}
		if p.Judge == "order" {
			// the symmetric clause across reconnects and stalls of the application, with a scripted gateway that follows
			// the rules (bursts, repetitions of the last request, disconnect requests between bursts): delivered once, in
			// the gateway's order, acknowledged as the receiver model says
			rec.Class("symmetric clause: bursts, stalls and reconnects (C17 plans)")
			if classifyC17(p, br.Result, rec) {
				rec.NonTrivial(common.HashJSON(p))
			}
			if f := oracleC17(p, br.Result); f != nil {
				return f
			}
			return oracleC04(p, br.Result, true)
		}
		if classifyC05(p, br.Result, rec) {
			rec.NonTrivial(common.HashJSON(p))
		}
		rec.Sample("bubble", map[string]any{"plan": p})
		if f := oracleC05(p, br.Result); f != nil {
			return f
		}
		// the receiver's rules, which make the end-to-end clause hold on every link and not only on the sampled one: the
		// client acknowledges the expected request and the one before it, and nothing else (an acknowledgement for an
		// older number can be taken by the gateway, 256 telegrams later, for one the client never saw)
		if f := oracleC04(p, br.Result, false); f != nil && strings.HasPrefix(f.Kind, "ack-") {
			return f
		}
		return nil
	}
	common.Drive(t, rec, func(rt *rapid.T) *Plan {
		if rapid.IntRange(0, 3).Draw(rt, "order-plan") == 0 {
			p := genPlanC17(rt, false)
			p.Judge = "order"
			return withEdgeChannels(rt, p)
		}
		return withEdgeChannels(rt, genPlanC05(rt))
	}, run)
	completed = true
}
