//go:build go1.25

package tun

import (
	"testing"

	"pgregory.net/rapid"
	"verif/harness/common"
)

func TestC05B(t *testing.T) {
	rec := common.NewRec("C05", "bubble")
	completed := false
	defer func() { rec.Finish(completed) }()
	run := func(p *Plan) *common.Fail {
		rec.InFlight(p)
		br := runBubble(t, p)
		rec.Landed()
		if f := bubbleFail(br); f != nil {
			return f
		}
		if br.ConnErr != "" {
			rec.Inconclusive("initial connect failed")
			return nil
		}
		if classifyC05(p, br.Result, rec) {
			rec.NonTrivial(common.HashJSON(p))
		}
		rec.Sample("bubble", map[string]any{"plan": p})
		return oracleC05(p, br.Result)
	}
	common.Drive(t, rec, func(rt *rapid.T) *Plan { return genPlanC05(rt) }, run)
	completed = true
}
