package tun

import (
	"fmt"
	"strings"

	"verif/harness/common"
)

// Phases of the connection as the reference model sees them.
const (
	phConnecting   = iota // before the first OK connect response
	phConnected           // an epoch is running
	phReconnecting        // the epoch ended (disconnect request / failed heartbeat); connect requests are going out
	phTerminated          // no further epoch will start
)

// walker derives phase, channel and epoch from the frames the client *took* from its socket
// ("dlv" events) - the reference model A.3 without the heartbeat part (the callers that generate
// heartbeat failures add those transitions themselves through endEpoch).
type walker struct {
	ph         int
	ch         int
	epoch      int
	epochStart int64 // time of the OK connect response
	reconnAt   int64 // time the current reconnect attempt started
	closeAt    int64 // first close> (-1: none)
	termAt     int64
	termWhy    string
}

func newWalker() *walker { return &walker{ph: phConnecting, closeAt: -1, termAt: -1} }

func (w *walker) terminate(t int64, why string) {
	if w.ph != phTerminated {
		w.ph, w.termAt, w.termWhy = phTerminated, t, why
	}
}

func (w *walker) endEpoch(t int64) {
	if w.ph == phConnected {
		w.ph, w.reconnAt = phReconnecting, t
	}
}

// step consumes one trace event.
func (w *walker) step(e Ev) {
	switch e.K {
	case "close>":
		if w.closeAt < 0 {
			w.closeAt = e.T
		}
		w.terminate(e.T, "close")
	case "sockdie":
		w.terminate(e.T, "socket died")
	case "out":
		// a connect request the socket refuses ends the (re)connect attempt at once, and with it the tunnel
		if e.Svc == "ConnReq" && e.Err != "" && (w.ph == phReconnecting || w.ph == phConnected) {
			w.terminate(e.T, "connect request could not be sent")
		}
		// a connect request from a connected client: it has given the connection up for a reason of its own (a failed
		// heartbeat); whether it was right to is C09's subject, from here on it is reconnecting
		if e.Svc == "ConnReq" && e.Err == "" && w.ph == phConnected {
			w.endEpoch(e.T)
		}
	case "conn<":
		if e.Err != "" {
			w.terminate(e.T, "connect failed: "+e.Err)
		}
	case "dlv":
		switch e.Svc {
		case "ConnRes":
			if w.ph == phConnecting || w.ph == phReconnecting {
				switch {
				case e.St == 0:
					w.ph, w.ch, w.epochStart = phConnected, e.Ch, e.T
					w.epoch++
				case e.St == 0x24 || e.St == 0x25:
				default:
					w.terminate(e.T, fmt.Sprintf("connect refused with status %#x", e.St))
				}
			}
		case "DiscReq":
			if w.ph == phConnected && e.Ch == w.ch {
				w.endEpoch(e.T)
			}
		case "DiscRes":
			if w.ph == phConnected && e.Ch == w.ch {
				w.terminate(e.T, "disconnect response")
			}
		}
	}
}

// reconnDeadline: a reconnect attempt that saw no OK response terminates the tunnel at this time.
func (w *walker) reconnDeadline(cfg Cfg) int64 { return w.reconnAt + int64(cfg.TimeoutUs)*1000 }

func isTimeoutErr(s string) bool    { return strings.Contains(s, "response timeout reached") }
func isRejectedErr(s string) bool   { return strings.Contains(s, "has been rejected with status") }
func isTerminatedErr(s string) bool { return strings.Contains(s, "connection server has terminated") }

// failTrace builds a Fail that carries the tail of the trace.
func failTrace(evs []Ev, upto int, kind, format string, args ...any) *common.Fail {
	f := common.Failf(kind, format, args...)
	lo := upto - 40
	if lo < 0 {
		lo = 0
	}
	hi := upto + 6
	if hi > len(evs) {
		hi = len(evs)
	}
	f.Extra = map[string]any{"around_event": upto, "trace": Dump(evs[lo:hi], 0)}
	return f
}

func ms(ns int64) string { return fmt.Sprintf("%.3fms", float64(ns)/1e6) }
