//go:build go1.25

package tun

import (
	"testing"
	"time"

	"pgregory.net/rapid"
	"verif/harness/common"
)

func TestC17B(t *testing.T) {
	rec := common.NewRec("C17", "bubble")
	bubbleWD = common.NewWatchdog(rec, 90*time.Second)
	completed := false
	defer func() { rec.Finish(completed) }()
	run := func(p *Plan) *common.Fail {
		rec.InFlight(p)
		br := runBubble(t, p)
		rec.Landed()
		if f := bubbleFail(br); f != nil {
			return f
		}
		if br.ConnErr != "" {
			rec.Inconclusive("initial connect failed")
			return nil
		}
		if f := oracleC17(p, br.Result); f != nil {
			return f
		}
		if classifyC17(p, br.Result, rec) {
			rec.NonTrivial(common.HashJSON(p))
		}
		rec.Sample("bubble", map[string]any{"plan": p})
		return nil
	}
	common.Drive(t, rec, func(rt *rapid.T) *Plan { return withEdgeChannels(rt, genPlanC17(rt, false)) }, run)
	completed = true
}
