package tun

import (
	"fmt"
	"math"
	"sort"
	"strings"

	"pgregory.net/rapid"
	"verif/harness/common"
)

// ------------------------------------------------------------------------------------------------
// C09 reference model of heartbeat / reconnect / termination (Appendix A.3), fake clock, exact.
// It predicts every control frame the client must emit (ConnStateReq, ConnReq, DiscRes) from the
// frames the client took from its socket, and the instant at which the tunnel terminates.
// ------------------------------------------------------------------------------------------------

type ctlEmit struct {
	t        int64
	svc      string
	ch       int
	optional bool // same-instant race inside the client (a timer firing exactly when the exchange is decided)
	why      string
}

type epochInfo struct {
	ch   int
	s, e int64 // e = -1: still running at the end of the trace
}

type c09Model struct {
	emits    []ctlEmit
	epochs   []epochInfo
	termAt   int64 // -1: never
	termWhy  string
	relaxed  bool   // overlapping heartbeat exchanges: per-exchange accounting is ambiguous
	bail     string // the history contains an ambiguity the model does not resolve (case is skipped)
	closedAt int64
}

type dlvEv struct {
	t       int64
	svc     string
	ch, st  int
	used    bool
	sockdie bool
	closeEv bool
}

// buildC09 runs the reference model over the deliveries of the trace.
func buildC09(p *Plan, evs []Ev) *c09Model {
	r := int64(p.Cfg.ResendUs) * 1000
	T := int64(p.Cfg.TimeoutUs) * 1000
	h := int64(p.Cfg.HeartbeatUs) * 1000
	m := &c09Model{termAt: -1, closedAt: -1}
	m.relaxed = h < T+r
	var in []*dlvEv
	var endT int64
	connAt := int64(-1)
	// connection-state requests the socket refused (by instant): the exchange fails there and then
	hbRefused := map[int64]bool{}
	for _, e := range evs {
		if e.K == "out" && e.Svc == "ConnStateReq" && e.Err != "" {
			hbRefused[e.T] = true
		}
	}
	for _, e := range evs {
		endT = e.T
		switch {
		case e.K == "dlv":
			in = append(in, &dlvEv{t: e.T, svc: e.Svc, ch: e.Ch, st: e.St})
		case e.K == "sockdie":
			in = append(in, &dlvEv{t: e.T, sockdie: true})
		case e.K == "close>" && m.closedAt < 0:
			m.closedAt = e.T
			in = append(in, &dlvEv{t: e.T, closeEv: true})
		case e.K == "conn<":
			if e.Err != "" {
				m.termAt, m.termWhy = e.T, "initial connect failed"
				return m
			}
			connAt = e.T
		}
	}
	if connAt < 0 {
		m.bail = "no connect"
		return m
	}
	// first epoch: channel of the OK connect response consumed by the constructor
	ch := -1
	idx := 0
	for ; idx < len(in); idx++ {
		if in[idx].svc == "ConnRes" && in[idx].st == 0 && in[idx].t <= connAt {
			ch = in[idx].ch
			idx++
			break
		}
	}
	if ch < 0 {
		m.bail = "no OK connect response before the constructor returned"
		return m
	}
	s := connAt
	terminate := func(t int64, why string) {
		if m.termAt < 0 {
			m.termAt, m.termWhy = t, why
		}
	}
	for { // one iteration per epoch
		ep := epochInfo{ch: ch, s: s, e: -1}
		// scan forward in time: interleave deliveries with heartbeat exchanges
		endAt, endWhy := int64(-1), ""
		k := int64(1)
		var parked []*dlvEv // connection-state responses for the current channel, in arrival order
		i := idx
		nextIn := func() *dlvEv {
			if i < len(in) {
				return in[i]
			}
			return nil
		}
	epoch:
		for {
			x := s + k*h // start of the next exchange
			// consume deliveries before x
			for d := nextIn(); d != nil && d.t < x; d = nextIn() {
				i++
				switch {
				case d.sockdie:
					endAt, endWhy = d.t, "sockdie"
					break epoch
				case d.closeEv:
					endAt, endWhy = d.t, "close"
					break epoch
				case d.svc == "DiscReq" && d.ch == ch:
					endAt, endWhy = d.t, "discreq"
					break epoch
				case d.svc == "DiscRes" && d.ch == ch:
					endAt, endWhy = d.t, "discres"
					break epoch
				case d.svc == "ConnStateRes" && d.ch == ch:
					parked = append(parked, d)
				}
			}
			if d := nextIn(); d != nil && d.t == x {
				m.bail = "a delivery coincides with a heartbeat tick"
				return m
			}
			if x > endT {
				break epoch // trace ends before the next exchange
			}
			// exchange k runs from x; find its decision
			D := x + T
			dec, decSt, decided := D, -1, false
			// parked responses still on offer at x
			var offer []*dlvEv
			for _, q := range parked {
				if !q.used && q.t+r > x {
					offer = append(offer, q)
				}
				if !q.used && q.t+r == x {
					m.bail = "a parked response expires exactly when an exchange starts"
					return m
				}
			}
			if len(offer) > 1 {
				same := true
				for _, q := range offer {
					if (q.st == 0) != (offer[0].st == 0) {
						same = false
					}
				}
				if !same {
					m.bail = "several parked responses with different outcomes are on offer to one exchange"
					return m
				}
			}
			if len(offer) > 0 {
				offer[0].used = true
				dec, decSt, decided = x, offer[0].st, true
			}
			// otherwise: deliveries during [x, D)
			cut, cutWhy := int64(-1), ""
			for !decided && !m.relaxed {
				d := nextIn()
				if d == nil || d.t >= D {
					if d != nil && d.t == D && d.svc == "ConnStateRes" && d.ch == ch {
						m.bail = "a response arrives exactly at the response timeout"
						return m
					}
					break
				}
				i++
				switch {
				case d.sockdie:
					cut, cutWhy = d.t, "sockdie"
				case d.closeEv:
					cut, cutWhy = d.t, "close"
				case d.svc == "DiscReq" && d.ch == ch:
					cut, cutWhy = d.t, "discreq"
				case d.svc == "DiscRes" && d.ch == ch:
					cut, cutWhy = d.t, "discres"
				case d.svc == "ConnStateRes" && d.ch == ch:
					parked = append(parked, d)
					if m.relaxed {
						// with overlapping exchanges which one receives the response is not determined
						break
					}
					// several responses taken at the same instant are offered concurrently: which one the
					// exchange receives is not determined
					for j := i; j < len(in) && in[j].t == d.t; j++ {
						if in[j].svc == "ConnStateRes" && in[j].ch == ch && (in[j].st == 0) != (d.st == 0) {
							m.bail = "responses with different outcomes are taken at the same instant"
							return m
						}
					}
					d.used = true
					dec, decSt, decided = d.t, d.st, true
				}
				if cut >= 0 {
					break
				}
			}
			stop := dec
			if cut >= 0 {
				stop = cut
			}
			// a transmission of this exchange that the socket refused ends the exchange (and the epoch) at that instant,
			// whatever would have arrived later
			if len(hbRefused) > 0 {
				if m.relaxed {
					m.bail = "a refused connection-state request with overlapping exchanges"
					return m
				}
				for j := int64(0); x+j*r <= stop; j++ {
					if t := x + j*r; hbRefused[t] {
						if t == stop && j > 0 {
							m.bail = "a refused connection-state request at the very instant the exchange is decided"
							return m
						}
						// deliveries consumed beyond t belong to the reconnect that starts at t
						for i > idx && in[i-1].t > t {
							i--
							in[i].used = false
						}
						for q := i - 1; q >= idx && q >= 0 && in[q].t == t; q-- {
							m.bail = "a delivery coincides with a refused connection-state request"
							return m
						}
						for jj := int64(0); jj <= j; jj++ {
							m.emits = append(m.emits, ctlEmit{t: x + jj*r, svc: "ConnStateReq", ch: ch, why: fmt.Sprintf("exchange %d, transmission %d", k, jj)})
						}
						endAt, endWhy = t, "heartbeat"
						break epoch
					}
				}
			}
			if m.relaxed {
				// only the first transmission of every exchange is predicted; the rest is checked against the
				// family of admissible schedules by the caller
				m.emits = append(m.emits, ctlEmit{t: x, svc: "ConnStateReq", ch: ch, why: fmt.Sprintf("exchange %d of the epoch starts", k)})
			} else {
				for j := int64(0); x+j*r <= stop; j++ {
					t := x + j*r
					if t == stop && j > 0 && cut < 0 {
						m.emits = append(m.emits, ctlEmit{t: t, svc: "ConnStateReq", ch: ch, optional: true, why: "resend tick coincides with the decision"})
						break
					}
					if t == stop && j > 0 {
						// a resend tick at the very instant the epoch is cut short (disconnect request, Close, ...):
						// which of the two the client sees first is not determined
						m.emits = append(m.emits, ctlEmit{t: t, svc: "ConnStateReq", ch: ch, optional: true, why: "resend tick coincides with the end of the epoch"})
						break
					}
					m.emits = append(m.emits, ctlEmit{t: t, svc: "ConnStateReq", ch: ch, why: fmt.Sprintf("exchange %d, transmission %d", k, j)})
				}
			}
			if cut >= 0 {
				endAt, endWhy = cut, cutWhy
				break epoch
			}
			if m.relaxed {
				// find out from the trace when (whether) the epoch ended through a failed exchange: done by the caller
				k++
				continue
			}
			if !decided || decSt != 0 {
				endAt, endWhy = dec, "heartbeat"
				break epoch
			}
			k++
		}
		idx = i
		if endAt < 0 {
			m.epochs = append(m.epochs, ep)
			return m
		}
		if m.closedAt == endAt && endWhy != "close" {
			m.bail = "Close is called at the very instant an epoch ends"
			return m
		}
		ep.e = endAt
		m.epochs = append(m.epochs, ep)
		switch endWhy {
		case "sockdie":
			terminate(endAt, "the socket's receiver died")
			return m
		case "close":
			terminate(endAt, "Close")
			return m
		case "discres":
			terminate(endAt, "disconnect response for the current channel")
			return m
		case "discreq":
			m.emits = append(m.emits, ctlEmit{t: endAt, svc: "DiscRes", ch: ch, why: "answer to the disconnect request"})
		}
		if m.relaxed && endWhy == "heartbeat" {
			m.bail = "relaxed"
			return m
		}
		// reconnect from endAt
		e := endAt
		deadline := e + T
		c, outcome := deadline, "timeout"
		for idx < len(in) {
			d := in[idx]
			if d.t > deadline {
				break
			}
			if d.t == deadline && d.svc == "ConnRes" {
				m.bail = "a connect response arrives exactly at the response timeout"
				return m
			}
			idx++
			if d.sockdie {
				c, outcome = d.t, "sockdie"
				break
			}
			if d.closeEv {
				continue // Close waits for the reconnect attempt to finish
			}
			if d.svc != "ConnRes" {
				continue
			}
			if d.st == 0 {
				c, outcome = d.t, "ok"
				ch = d.ch
				break
			}
			if d.st == 0x24 || d.st == 0x25 {
				continue
			}
			c, outcome = d.t, fmt.Sprintf("refused with status %#x", d.st)
			break
		}
		for j := int64(0); e+j*r <= c; j++ {
			t := e + j*r
			if t == c && j > 0 {
				m.emits = append(m.emits, ctlEmit{t: t, svc: "ConnReq", optional: true, why: "resend tick coincides with the end of the attempt"})
				break
			}
			m.emits = append(m.emits, ctlEmit{t: t, svc: "ConnReq", why: fmt.Sprintf("reconnect transmission %d", j)})
		}
		if outcome != "ok" {
			terminate(c, "reconnect: "+outcome)
			return m
		}
		if m.closedAt >= 0 && m.closedAt <= c {
			terminate(c, "Close (after the reconnect attempt finished)")
			return m
		}
		s = c
	}
}

// oracleC09 compares the control frames the client emitted with the model's prediction.
func oracleC09(p *Plan, res *Result) (*common.Fail, string) {
	evs := res.Events
	m := buildC09(p, evs)
	if m.bail != "" && m.bail != "relaxed" {
		return nil, m.bail
	}
	var got []ctlEmit
	gotIdx := []int{}
	for i, e := range evs {
		if e.K == "out" && (e.Svc == "ConnStateReq" || e.Svc == "ConnReq" || e.Svc == "DiscRes") {
			if e.Svc == "ConnReq" && e.T == 0 {
				continue
			}
			got = append(got, ctlEmit{t: e.T, svc: e.Svc, ch: e.Ch})
			gotIdx = append(gotIdx, i)
		}
	}
	// drop the initial connect attempt (before the constructor returned)
	connAt := int64(0)
	for _, e := range evs {
		if e.K == "conn<" {
			connAt = e.T
		}
	}
	g2, gi2 := got[:0:0], gotIdx[:0:0]
	for i, g := range got {
		if g.t > connAt || g.svc != "ConnReq" {
			g2, gi2 = append(g2, g), append(gi2, gotIdx[i])
		}
	}
	got, gotIdx = g2, gi2
	want := m.emits
	sort.SliceStable(want, func(i, j int) bool { return want[i].t < want[j].t })
	if m.relaxed {
		return oracleC09Overlap(p, res)
	}
	key := func(e ctlEmit) string {
		if e.svc == "ConnReq" {
			return fmt.Sprintf("%d/%s", e.t, e.svc)
		}
		return fmt.Sprintf("%d/%s/%d", e.t, e.svc, e.ch)
	}
	// compare as multisets per (instant, kind, channel); optional predictions may be absent
	cnt := map[string]int{}
	for _, g := range got {
		cnt[key(g)]++
	}
	for _, w := range want {
		k := key(w)
		if cnt[k] > 0 {
			cnt[k]--
			continue
		}
		if w.optional {
			continue
		}
		// locate the position in the trace
		at := len(evs) - 1
		for i, e := range evs {
			if e.T >= w.t {
				at = i
				break
			}
		}
		return failTrace(evs, at, "control-frame-missing", "the reference model expects a %s (channel %d) at %s (%s); the client did not send it. Heartbeat %s, resend %s, timeout %s; epochs %+v; termination %s (%s)",
			w.svc, w.ch, ms(w.t), w.why, ms(int64(p.Cfg.HeartbeatUs)*1000), ms(int64(p.Cfg.ResendUs)*1000), ms(int64(p.Cfg.TimeoutUs)*1000), m.epochs, ms(m.termAt), m.termWhy), ""
	}
	for i, g := range got {
		if cnt[key(g)] > 0 {
			cnt[key(g)]--
			return failTrace(evs, gotIdx[i], "control-frame-unexpected", "the client sent a %s (channel %d) at %s, which the reference model does not predict. Heartbeat %s, resend %s, timeout %s; epochs %+v; termination %s (%s)",
				g.svc, g.ch, ms(g.t), ms(int64(p.Cfg.HeartbeatUs)*1000), ms(int64(p.Cfg.ResendUs)*1000), ms(int64(p.Cfg.TimeoutUs)*1000), m.epochs, ms(m.termAt), m.termWhy), ""
		}
	}
	if f := c09Consequences(p, res, m); f != nil {
		return f, ""
	}
	return nil, ""
}

// c09Consequences: channels and counters after an epoch change, and what termination entails.
func c09Consequences(p *Plan, res *Result, m *c09Model) *common.Fail {
	evs := res.Events
	epochOf := func(t int64) int {
		for i := len(m.epochs) - 1; i >= 0; i-- {
			if t >= m.epochs[i].s {
				return i
			}
		}
		return -1
	}
	firstReqOfEpoch := map[int]bool{}
	lastTag := noTag
	lastSeq, lastEpoch := -1, -1
	succeeded := map[int]bool{}
	for i, e := range evs {
		if e.K == "send<" && e.Err == "" {
			succeeded[e.Tag] = true
		}
		if e.K == "out" && e.Svc == "TunnelReq" && !p.Cfg.TCP {
			// having restarted at 0 the numbering counts on from there: within an epoch the request behind one whose Send
			// succeeded carries the next number
			if ei := epochOf(e.T); ei >= 0 && (m.epochs[ei].e < 0 || e.T < m.epochs[ei].e) {
				if ei == lastEpoch && e.Tag != lastTag && lastTag != noTag && succeeded[lastTag] && e.Seq != (lastSeq+1)%256 {
					return failTrace(evs, i, "counter-restarted", "the request for tag %d carries sequence number %d; the request before it on this connection (tag %d, number %d) was acknowledged and its Send returned nil, so number %d is due - the epoch began at %s",
						e.Tag, e.Seq, lastTag, lastSeq, (lastSeq+1)%256, ms(m.epochs[ei].s))
				}
				lastSeq, lastEpoch = e.Seq, ei
			}
		}
		if e.K == "out" && e.Svc == "TunnelReq" {
			ei := epochOf(e.T)
			if ei < 0 {
				continue
			}
			ep := m.epochs[ei]
			inside := ep.e < 0 || e.T < ep.e
			if inside && e.Ch != ep.ch {
				return failTrace(evs, i, "stale-channel", "tunnelling request at %s carries channel %d; since the reconnect at %s the connection's channel is %d", ms(e.T), e.Ch, ms(ep.s), ep.ch)
			}
			if inside && !p.Cfg.TCP && !firstReqOfEpoch[ei] && e.Tag != lastTag {
				firstReqOfEpoch[ei] = true
				if e.Seq != 0 {
					return failTrace(evs, i, "counter-not-reset", "the first tunnelling request of the epoch that began at %s carries sequence number %d, not 0", ms(ep.s), e.Seq)
				}
			}
			lastTag = e.Tag
		}
		if e.K == "out" && e.Svc == "ConnStateReq" {
			ei := epochOf(e.T)
			if ei >= 0 && e.Ch != m.epochs[ei].ch {
				return failTrace(evs, i, "stale-channel", "connection-state request at %s carries channel %d; the connection's channel is %d", ms(e.T), e.Ch, m.epochs[ei].ch)
			}
		}
	}
	if m.termAt >= 0 {
		// Inbound closes at the instant of termination; Sends pending then or started later fail
		for i, e := range evs {
			// an application that was away from Inbound when the tunnel terminated sees the closure when it comes back
			// (behind whatever was parked for it): not earlier than the termination; that it does see it is required below
			if e.K == "inb-closed" && len(p.Consumer) > 0 && int64(p.Consumer[0].AfterUs)*1000 > m.termAt && !strings.HasPrefix(m.termWhy, "Close") {
				if e.T < m.termAt {
					return failTrace(evs, i, "inbound-close-time", "Inbound() seen closed at %s by an application that came back at %s; the tunnel terminated at %s (%s)", ms(e.T), ms(int64(p.Consumer[0].AfterUs)*1000), ms(m.termAt), m.termWhy)
				}
				continue
			}
			if e.K == "inb-closed" && !strings.HasPrefix(m.termWhy, "Close") && e.T != m.termAt {
				return failTrace(evs, i, "inbound-close-time", "Inbound() closed at %s; the tunnel terminated at %s (%s)", ms(e.T), ms(m.termAt), m.termWhy)
			}
			if e.K == "send<" && e.T >= m.termAt && e.Err == "" {
				// find its start
				for j := i - 1; j >= 0; j-- {
					if evs[j].K == "send>" && evs[j].Tag == e.Tag {
						if evs[j].T > m.termAt || e.T > m.termAt {
							return failTrace(evs, i, "send-after-termination", "the tunnel terminated at %s (%s); Send(tag %d) started at %s and returned nil at %s", ms(m.termAt), m.termWhy, e.Tag, ms(evs[j].T), ms(e.T))
						}
						break
					}
				}
			}
		}
		sawClosed := false
		for _, e := range evs {
			if e.K == "inb-closed" {
				sawClosed = true
			}
		}
		if !sawClosed {
			return failTrace(evs, len(evs)-1, "inbound-not-closed", "the tunnel terminated at %s (%s) but Inbound() was never seen closed", ms(m.termAt), m.termWhy)
		}
	}
	return nil
}

// oracleC09Relaxed: overlapping exchanges (heartbeat interval below the response timeout).
// Checked: every exchange starts on time; every connection-state request lies on the schedule of
// some exchange that can still be running; the epoch ends no later than the first exchange that
// certainly got no usable response, and not without some exchange that may have failed.
func oracleC09Relaxed(p *Plan, res *Result, m *c09Model, want, got []ctlEmit, gotIdx []int) (*common.Fail, string) {
	evs := res.Events
	r := int64(p.Cfg.ResendUs) * 1000
	T := int64(p.Cfg.TimeoutUs) * 1000
	have := map[string]bool{}
	for _, g := range got {
		have[fmt.Sprintf("%d/%s/%d", g.t, g.svc, g.ch)] = true
	}
	// the first epoch end observed in the trace (first connect request after the constructor)
	firstConnReq := int64(-1)
	for _, g := range got {
		if g.svc == "ConnReq" {
			firstConnReq = g.t
			break
		}
	}
	var starts []int64
	for _, w := range want {
		if w.svc != "ConnStateReq" {
			continue
		}
		if firstConnReq >= 0 && w.t >= firstConnReq {
			break
		}
		if m.termAt >= 0 && w.t >= m.termAt {
			break
		}
		starts = append(starts, w.t)
		if !have[fmt.Sprintf("%d/%s/%d", w.t, w.svc, w.ch)] {
			at := len(evs) - 1
			for i, e := range evs {
				if e.T >= w.t {
					at = i
					break
				}
			}
			return failTrace(evs, at, "heartbeat-missing", "no connection-state request at %s although a heartbeat interval has elapsed (%s)", ms(w.t), w.why), ""
		}
	}
	for i, g := range got {
		if g.svc != "ConnStateReq" || (firstConnReq >= 0 && g.t >= firstConnReq) {
			continue
		}
		ok := false
		for _, x := range starts {
			if g.t >= x && g.t <= x+T && (g.t-x)%r == 0 {
				ok = true
				break
			}
		}
		if !ok {
			return failTrace(evs, gotIdx[i], "heartbeat-off-schedule", "connection-state request at %s is on the schedule of no running exchange (exchange starts %v, resend %s, timeout %s)", ms(g.t), starts, ms(r), ms(T)), ""
		}
	}
	return nil, "overlapping heartbeat exchanges: start times and schedules checked, outcome accounting skipped"
}

// ------------------------------------------------------------------------------------------------
// generator
// ------------------------------------------------------------------------------------------------

func genHbFate(rt *rapid.T, c Cfg, label string) Fate {
	switch rapid.IntRange(0, 11).Draw(rt, label+"-kind") {
	case 0, 1, 2, 3:
		return Fate{Act: "ok", DelayUs: genDelay(rt, c, label)}
	case 4, 5, 6:
		return Fate{Act: "lose"}
	case 7:
		return Fate{Act: "status", Status: rapid.IntRange(1, 255).Draw(rt, label+"-st"), DelayUs: genDelay(rt, c, label)}
	case 8:
		return Fate{Act: "foreign", Ch: rapid.IntRange(0, 253).Draw(rt, label+"-ch"), DelayUs: genDelay(rt, c, label)}
	case 9:
		return Fate{Act: "ok", DelayUs: genDelay(rt, c, label), Dup: rapid.IntRange(1, 2).Draw(rt, label+"-dup"), DupDelayUs: rapid.SampledFrom([]int{1, 211, c.ResendUs + 211}).Draw(rt, label+"-dd")}
	}
	return Fate{Act: "ok", DelayUs: 337}
}

func genConnFate(rt *rapid.T, c Cfg, label string) Fate {
	switch rapid.IntRange(0, 9).Draw(rt, label+"-kind") {
	case 0, 1, 2, 3:
		f := Fate{Act: "ok", DelayUs: genDelay(rt, c, label)}
		if rapid.IntRange(0, 2).Draw(rt, label+"-same-channel") == 0 {
			f.Ch = -1 // the same channel number again
		}
		return f
	case 4, 5:
		return Fate{Act: "lose"}
	case 6:
		return Fate{Act: "busy", Status: rapid.SampledFrom([]int{0x24, 0x25}).Draw(rt, label+"-busy"), DelayUs: genDelay(rt, c, label)}
	case 7:
		return Fate{Act: "status", Status: rapid.SampledFrom([]int{1, 2, 0x22, 0x23, 0x26, 0x27, 0x29, 0x30, 0xff}).Draw(rt, label+"-st"), DelayUs: genDelay(rt, c, label)}
	case 8:
		return Fate{Act: "junk", DelayUs: genDelay(rt, c, label)}
	}
	return Fate{Act: "ok", DelayUs: 1337}
}

func genPlanC09(rt *rapid.T) *Plan {
	rms := rapid.SampledFrom([]int{50, 100, 250, 500, 1000}).Draw(rt, "resend_ms")
	tms := rms*rapid.IntRange(1, 12).Draw(rt, "timeout_mult") + rapid.SampledFrom([]int{0, 0, 1, 17, rms / 2}).Draw(rt, "timeout_off")
	var hms int
	if rapid.IntRange(0, 3).Draw(rt, "overlap") == 0 {
		hms = rapid.IntRange(rms, tms).Draw(rt, "hb_short") // shorter than the response timeout
	} else {
		hms = tms + rms + rapid.IntRange(1, 4*tms).Draw(rt, "hb_long")
	}
	c := Cfg{ResendUs: rms * 1000, TimeoutUs: tms * 1000, HeartbeatUs: hms * 1000}
	c.TCP = rapid.IntRange(0, 7).Draw(rt, "tcp") == 0
	p := &Plan{Cfg: c, DefConn: okFate(1337), DefHb: okFate(337), DefAck: okFate(137), DefDisc: okFate(1337)}
	if rapid.IntRange(0, 5).Draw(rt, "dead-gateway") == 0 {
		p.DefHb = Fate{Act: "lose"}
	}
	if rapid.IntRange(0, 2).Draw(rt, "gateway-reuses-channel") == 0 {
		p.DefConn.Ch = -1
	}
	nhb := rapid.IntRange(0, 14).Draw(rt, "hb-fates")
	for i := 0; i < nhb; i++ {
		p.Hb = append(p.Hb, genHbFate(rt, c, fmt.Sprintf("hb%d", i)))
	}
	p.Conn = []Fate{okFate(1337)} // the initial connect succeeds
	ncf := rapid.IntRange(0, 8).Draw(rt, "conn-fates")
	for i := 0; i < ncf; i++ {
		p.Conn = append(p.Conn, genConnFate(rt, c, fmt.Sprintf("conn%d", i)))
	}
	horizon := hms * rapid.IntRange(1, 6).Draw(rt, "horizon") // ms
	ng := rapid.IntRange(0, 6).Draw(rt, "gw-steps")
	for i := 0; i < ng; i++ {
		g := GwStep{AfterUs: rapid.IntRange(0, horizon/(ng+1)+1).Draw(rt, "gw-after")*1000 + 211}
		switch rapid.IntRange(0, 9).Draw(rt, "gw-kind") {
		case 0, 1:
			g.Kind, g.Chan = "discreq", "cur"
		case 2:
			g.Kind, g.Chan, g.AbsCh = "discreq", "other", rapid.IntRange(0, 253).Draw(rt, "absch")
		case 3:
			g.Kind, g.Chan = "discres", "cur"
			// whatever status the gateway puts into it: a disconnect response for the current channel ends the tunnel
			g.Status = rapid.SampledFrom([]int{0, 0, 1, 0x21, 0x24, 0x26, 0x27, 0xff}).Draw(rt, "discres-status")
		case 4:
			g.Kind, g.Chan, g.AbsCh = "discres", "other", rapid.IntRange(0, 253).Draw(rt, "absch")
		case 5, 6:
			g.Kind = "hbres"
			g.Chan = rapid.SampledFrom([]string{"cur", "cur", "other"}).Draw(rt, "hb-chan")
			g.AbsCh = rapid.IntRange(0, 253).Draw(rt, "absch")
			if rapid.Bool().Draw(rt, "hb-bad") {
				g.Status = rapid.IntRange(1, 255).Draw(rt, "hb-st")
			}
		case 7:
			g.Kind = "junk"
		case 8:
			g.Kind, g.Chan, g.Seq, g.Tag = "req", "cur", "exp", 5000+i
		default:
			if rapid.IntRange(0, 3).Draw(rt, "sockdie") == 0 {
				g.Kind = "sockdie"
			} else {
				g.Kind = "junk"
			}
		}
		p.Gw = append(p.Gw, g)
	}
	if !c.TCP && rapid.IntRange(0, 5).Draw(rt, "idle-epochs") == 0 {
		// connections that come and go without the application sending anything (the gateway ends 2..4 of them in a row,
		// every reconnect succeeds), then 3..5 Sends on the last one, all acknowledged: the numbering restarted at 0
		// once per connection and counts on from there
		p.Gw, p.Hb, p.Conn = nil, nil, []Fate{okFate(1337)}
		p.DefHb, p.DefAck = okFate(337), okFate(137)
		k := rapid.IntRange(2, 4).Draw(rt, "idle-epoch-count")
		at := 0
		for i := 0; i < k; i++ {
			gap := rapid.IntRange(3, 40).Draw(rt, "idle-gap")*1000 + 211
			at += gap
			p.Gw = append(p.Gw, GwStep{AfterUs: gap, Kind: "discreq", Chan: "cur"})
		}
		var lane []AppStep
		if rapid.Bool().Draw(rt, "send-before") {
			lane = append(lane, AppStep{AfterUs: 700, Tag: 1})
			at -= 700
		}
		first := true
		for i := 0; i < rapid.IntRange(3, 5).Draw(rt, "sends-after"); i++ {
			st := AppStep{AfterUs: rapid.IntRange(1, 20).Draw(rt, "send-gap")*1000 + 100, Tag: 10 + i}
			if first {
				st.AfterUs += at + 5000
				first = false
			}
			lane = append(lane, st)
		}
		p.Senders = [][]AppStep{lane}
		p.Consumer = []ConStep{{AfterUs: 50, Kind: "drain"}}
		p.TailUs = 2000
		return p
	}
	if rapid.IntRange(0, 4).Draw(rt, "heartbeat-write-fails") == 0 {
		// the socket refuses some connection-state requests (first transmissions and repetitions alike)
		for i := 0; i < rapid.IntRange(1, 2).Draw(rt, "n-hb-fail"); i++ {
			p.FailHb = append(p.FailHb, rapid.IntRange(0, 8).Draw(rt, "hb-fail-at"))
		}
	}
	ns := rapid.IntRange(0, 4).Draw(rt, "sends")
	var lane []AppStep
	for i := 0; i < ns; i++ {
		lane = append(lane, AppStep{AfterUs: rapid.IntRange(0, horizon/(ns+1)+1).Draw(rt, "send-after")*1000 + 100, Tag: i + 1})
	}
	if ns > 0 {
		p.Senders = [][]AppStep{lane}
	}
	p.Consumer = []ConStep{{AfterUs: 50, Kind: "drain"}}
	p.TailUs = rapid.IntRange(0, 2*hms).Draw(rt, "tail") * 1000
	if !c.TCP && rapid.IntRange(0, 2).Draw(rt, "application-away") == 0 {
		// the application stays away from Inbound for the whole run while 2..5 telegrams are accepted early on: the
		// heartbeat, the reaction to disconnect requests and responses and the reconnect go on as if it were reading
		p.Gw = append([]GwStep{{AfterUs: rapid.IntRange(3, 20).Draw(rt, "early-reqs-at")*1000 + 77, Kind: "req", Chan: "cur", Seq: "exp", Tag: 7000,
			Repeat: rapid.IntRange(1, 4).Draw(rt, "early-reqs")}}, p.Gw...)
		p.Consumer = []ConStep{{AfterUs: (horizon+2*hms+50)*1000 + p.TailUs, Kind: "drain"}}
	}
	if rapid.IntRange(0, 3).Draw(rt, "discres-write-fails") == 0 {
		// the socket refuses some disconnect responses (a connected UDP socket does after an ICMP error): the
		// disconnect request ends the connection all the same
		for i := 0; i < rapid.IntRange(1, 3).Draw(rt, "n-discres-fail"); i++ {
			p.FailDiscRes = append(p.FailDiscRes, rapid.IntRange(0, 3).Draw(rt, "discres-fail-at"))
		}
	}
	return p
}

func classifyC09(p *Plan, res *Result, rec *common.Rec) bool {
	m := buildC09(p, res.Events)
	failedHb, disc := false, false
	for _, e := range m.epochs {
		if e.e >= 0 {
			disc = true
		}
	}
	for _, w := range m.emits {
		if w.svc == "ConnReq" {
			failedHb = true
		}
	}
	rec.Class(fmt.Sprintf("epochs=%d", len(m.epochs)))
	selfTerm := m.termAt >= 0 && !strings.HasPrefix(m.termWhy, "Close")
	if selfTerm {
		why := m.termWhy
		if strings.HasPrefix(why, "reconnect: refused") {
			why = "reconnect: refused"
		}
		rec.Class("terminated: " + why)
	}
	if m.relaxed {
		rec.Class("heartbeat<timeout (overlapping exchanges)")
	} else {
		rec.Class("heartbeat>timeout")
	}
	if p.Cfg.TCP {
		rec.Class("tcp")
	}
	return (failedHb || disc) && (len(m.epochs) > 1 || selfTerm)
}

// oracleC09Overlap judges histories whose heartbeat interval is below the response timeout, where
// exchanges overlap and which exchange receives a given response is not determined. It works on the
// epochs *observed* in the trace and asserts only what holds for every assignment:
//
//	(1) every exchange starts on time: a request for the current channel at s + k*h;
//	(2) every connection-state request lies on the schedule x_k + j*r (j*r <= T) of some exchange of its
//	    epoch and carries the epoch's channel; none is sent between the end of an epoch and the next one;
//	(3) an epoch that ends with a reconnect does so because of a disconnect request, at an exchange's
//	    timeout, or when a non-OK response for the current channel was available;
//	(4) an exchange for which no OK response for the current channel was ever available ends its epoch
//	    by x_k + T at the latest;
//	(5) the connect request is repeated on the schedule e + j*r.
func oracleC09Overlap(p *Plan, res *Result) (*common.Fail, string) {
	evs := res.Events
	r := int64(p.Cfg.ResendUs) * 1000
	T := int64(p.Cfg.TimeoutUs) * 1000
	h := int64(p.Cfg.HeartbeatUs) * 1000
	type ep struct {
		ch      int
		s, e    int64 // e = -1: open at the end of the trace
		endIdx  int
		why     string // reconnect | terminated | open
		discReq bool   // a disconnect request for the channel was taken at e
	}
	var eps []*ep
	var cur *ep
	connAt := int64(-1)
	firstCh := -1
	endT := int64(0)
	for i, e := range evs {
		endT = e.T
		switch {
		case e.K == "dlv" && e.Svc == "ConnRes" && e.St == 0 && connAt < 0:
			firstCh = e.Ch
		case e.K == "conn<":
			if e.Err != "" {
				return nil, "initial connect failed"
			}
			connAt = e.T
			cur = &ep{ch: firstCh, s: e.T, e: -1, why: "open"}
			eps = append(eps, cur)
		case connAt < 0:
		case e.K == "out" && e.Svc == "ConnReq" && cur != nil:
			cur.e, cur.endIdx, cur.why = e.T, i, "reconnect"
			for _, x := range evs[:i] {
				if x.K == "dlv" && x.Svc == "DiscReq" && x.T == e.T && x.Ch == cur.ch {
					cur.discReq = true
				}
			}
			cur = nil
		case e.K == "dlv" && e.Svc == "ConnRes" && e.St == 0 && cur == nil:
			// only counts if the client is still reconnecting (not terminated): judged by what follows
			cur = &ep{ch: e.Ch, s: e.T, e: -1, why: "open"}
			eps = append(eps, cur)
		case (e.K == "close>" || e.K == "sockdie" || (e.K == "dlv" && e.Svc == "DiscRes" && cur != nil && e.Ch == cur.ch)) && cur != nil:
			cur.e, cur.endIdx, cur.why = e.T, i, "terminated"
			cur = nil
		case (e.K == "close>" || e.K == "sockdie") && cur == nil:
			// terminated while reconnecting: nothing more to judge
			goto judge
		}
	}
judge:
	for n, E := range eps {
		end := E.e
		if end < 0 {
			end = endT
		}
		var starts, startsIncl []int64 // exchanges that began strictly before / not after the end of the epoch
		for k := int64(1); E.s+k*h <= end; k++ {
			startsIncl = append(startsIncl, E.s+k*h)
			if E.s+k*h < end {
				starts = append(starts, E.s+k*h)
			}
		}
		// (1) and (2)
		have := map[int64]bool{}
		next := int64(1) << 62
		if n+1 < len(eps) {
			next = eps[n+1].s
		}
		for i, e := range evs {
			if e.K != "out" || e.Svc != "ConnStateReq" || e.T < E.s || e.T >= next {
				continue
			}
			if E.e >= 0 && e.T > E.e {
				return failTrace(evs, i, "heartbeat-after-epoch", "connection-state request (channel %d) at %s although the epoch on channel %d ended at %s (%s) and no new one has begun", e.Ch, ms(e.T), E.ch, ms(E.e), E.why), ""
			}
			if e.Ch != E.ch {
				return failTrace(evs, i, "stale-channel", "connection-state request at %s carries channel %d; the connection's channel is %d", ms(e.T), e.Ch, E.ch), ""
			}
			have[e.T] = true
			ok := false
			for _, x := range startsIncl {
				if e.T >= x && e.T-x <= T && (e.T-x)%r == 0 {
					ok = true
					break
				}
			}
			if !ok && !(E.e >= 0 && e.T == E.e) {
				return failTrace(evs, i, "heartbeat-off-schedule", "connection-state request at %s is on the schedule of no exchange of its epoch (epoch start %s, heartbeat %s, resend %s, timeout %s)", ms(e.T), ms(E.s), ms(h), ms(r), ms(T)), ""
			}
		}
		for _, x := range starts {
			if !have[x] {
				at := len(evs) - 1
				for i, e := range evs {
					if e.T >= x {
						at = i
						break
					}
				}
				return failTrace(evs, at, "heartbeat-missing", "no connection-state request at %s: epoch on channel %d began at %s and the heartbeat interval is %s", ms(x), E.ch, ms(E.s), ms(h)), ""
			}
		}
		// responses for the current channel taken during the epoch
		type rsp struct {
			t  int64
			ok bool
		}
		var rs []rsp
		for _, e := range evs {
			if e.K == "dlv" && e.Svc == "ConnStateRes" && e.Ch == E.ch && e.T >= E.s && e.T <= end {
				rs = append(rs, rsp{e.T, e.St == 0})
			}
		}
		// (4)
		for _, x := range starts {
			if x+T >= end {
				continue
			}
			answered := false
			for _, q := range rs {
				if q.ok && q.t > x-r && q.t < x+T {
					answered = true
					break
				}
			}
			if !answered {
				at := len(evs) - 1
				for i, e := range evs {
					if e.T >= x+T {
						at = i
						break
					}
				}
				return failTrace(evs, at, "dead-heartbeat-ignored", "the exchange that began at %s got no OK response for channel %d (none was available between %s and %s), yet the epoch went on beyond %s", ms(x), E.ch, ms(x-r), ms(x+T), ms(x+T)), ""
			}
		}
		// (3)
		if E.why == "reconnect" && !E.discReq {
			explained := false
			for _, x := range startsIncl {
				if E.e == x+T {
					explained = true
				}
				for _, q := range rs {
					if !q.ok && (q.t == E.e || (E.e == x && q.t > x-r && q.t <= x)) {
						explained = true
					}
				}
			}
			for _, q := range rs {
				if !q.ok && q.t == E.e {
					explained = true
				}
			}
			if !explained {
				return failTrace(evs, E.endIdx, "reconnect-unexplained", "the client abandoned the epoch on channel %d at %s and reconnects, but no disconnect request was taken, no exchange timed out then and no error response was available (exchange starts %v)", E.ch, ms(E.e), starts), ""
			}
		}
		// (5)
		if E.why == "reconnect" {
			for i, e := range evs {
				if e.K == "out" && e.Svc == "ConnReq" && e.T >= E.e && e.T < next {
					if (e.T-E.e)%r != 0 || e.T-E.e > T {
						return failTrace(evs, i, "reconnect-off-schedule", "connect request at %s; the reconnect began at %s, resend %s, timeout %s", ms(e.T), ms(E.e), ms(r), ms(T)), ""
					}
				}
			}
		}
	}
	return nil, ""
}

// ------------------------------------------------------------------------------------------------
// C09 on the real clock: Sends queued behind an unacknowledged Send while the tunnel reconnects.
// "After a successful reconnect all frames carry the newly assigned channel" is judged one-sidedly:
// a request *first* transmitted later than `grace` after the client took the gateway's disconnect
// request for channel c (a connection on c having been offered before) must not carry c - unless
// the gateway offered c again in between. Only injection instants ("inj", a lower bound on when the
// client can have seen a frame) and hand-over log instants ("dlv", an upper bound: under load the
// pump can be descheduled between the hand-over and its log entry) enter the judgement, and no
// assumption is made about which connect response the client accepted: when the constructor's
// connect request is repeated under load the gateway answers twice and the client rightly ignores
// the second answer.
// ------------------------------------------------------------------------------------------------

const c09Grace = int64(100e6)

// sameChannelRestart: "restart at 0" when the gateway hands out the same channel number again (channels tell nothing
// then): a request whose first transmission lies after the client took the last connect response is on the last
// connection, and its number is at most the count of requests first transmitted since that response was sent (each of
// them took one number at most; a request that was pending across the reconnect keeps its old number and takes none).
func sameChannelRestart(p *Plan, evs []Ev) *common.Fail {
	if p.DefConn.Ch != -1 {
		return nil
	}
	var inj, dlv []int64
	for _, e := range evs {
		if e.Svc == "ConnRes" && e.St == 0 {
			switch e.K {
			case "inj":
				inj = append(inj, e.T)
			case "dlv":
				dlv = append(dlv, e.T)
			}
		}
	}
	if len(inj) < 2 || len(dlv) != len(inj) {
		return nil
	}
	// the reference is the first connect response sent after the last disconnect request (a later one can be the second
	// answer to a repeated connect request, which the client ignores)
	tDisc := int64(-1)
	for _, e := range evs {
		if e.K == "inj" && e.Svc == "DiscReq" {
			tDisc = e.T
		}
	}
	ref := -1
	for i, t := range inj {
		if tDisc >= 0 && t >= tDisc {
			ref = i
			break
		}
	}
	if ref < 0 {
		return nil
	}
	lastInj, lastDlv := inj[ref], dlv[ref]
	seenTag := map[int]bool{}
	k := 0
	for i, e := range evs {
		if e.K != "out" || e.Svc != "TunnelReq" || seenTag[e.Tag] {
			continue
		}
		seenTag[e.Tag] = true
		if e.T > lastDlv && e.Seq > k && e.Seq < 200 {
			return failTrace(evs, i, "counter-not-reset", "telegram %d was first transmitted at %s, after the client had taken the connect response of the last reconnect (same channel %d, response sent at %s, taken by %s), and carries sequence number %d; only %d requests have been transmitted for the first time since that response was sent, so its number can be %d at most",
				e.Tag, ms(e.T), e.Ch, ms(lastInj), ms(lastDlv), e.Seq, k, k)
		}
		if e.T >= lastInj {
			k++
		}
	}
	return nil
}

func oracleC09R(p *Plan, res *Result) (*common.Fail, bool) {
	evs := res.Events
	type stamp struct {
		inj, dlv int64
		ch       int
	}
	collect := func(svc string) []stamp {
		var out []stamp
		n := 0
		for _, e := range evs {
			if e.Svc != svc || (svc == "ConnRes" && e.St != 0) {
				continue
			}
			switch e.K {
			case "inj":
				out = append(out, stamp{inj: e.T, dlv: math.MaxInt64, ch: e.Ch})
			case "dlv":
				if n < len(out) {
					out[n].dlv = e.T
				}
				n++
			}
		}
		return out
	}
	offers, ends := collect("ConnRes"), collect("DiscReq")
	if f := sameChannelRestart(p, evs); f != nil {
		return f, false
	}
	first := map[int]bool{}
	firstHex := map[int]string{}
	lastCh := -1
	queuedAcross := false
	sendStart := map[int]int64{}
	for i, e := range evs {
		switch {
		case e.K == "send>":
			sendStart[e.Tag] = e.T
		case e.K == "out" && e.Svc == "TunnelReq":
			if first[e.Tag] {
				// retransmission: carries what the first transmission carried (C03), also when the connection was
				// re-established in between
				if e.Hex != firstHex[e.Tag] {
					return failTrace(evs, i, "retransmission-differs", "a retransmission of telegram %d differs from its first transmission (the connection was re-established in between):\n first %s\n this  %s", e.Tag, firstHex[e.Tag], e.Hex), false
				}
				continue
			}
			first[e.Tag] = true
			firstHex[e.Tag] = e.Hex
			// "the sequence numbers of both directions restart at 0": the first request that carries a newly assigned
			// channel opens that connection's numbering (plans in which the gateway re-uses the channel are not judged)
			if p.DefConn.Ch != -1 {
				if lastCh >= 0 && e.Ch != lastCh && e.Seq != 0 {
					return failTrace(evs, i, "counter-not-reset", "telegram %d is the first request transmitted with the newly assigned channel %d and carries sequence number %d (the previous request went out on channel %d)", e.Tag, e.Ch, e.Seq, lastCh), false
				}
				lastCh = e.Ch
			}
			offered := false
			for _, o := range offers {
				if o.ch == e.Ch && o.inj <= e.T {
					offered = true
				}
			}
			if !offered {
				return failTrace(evs, i, "unknown-channel", "the request for telegram %d was transmitted at %s with channel %d, which no connect response had assigned by then", e.Tag, ms(e.T), e.Ch), false
			}
			for _, d := range ends {
				if d.dlv > e.T {
					continue
				}
				if st, ok := sendStart[e.Tag]; ok && st < d.inj {
					queuedAcross = true
				}
				if d.ch != e.Ch || d.dlv > e.T-c09Grace {
					continue
				}
				before, again := false, false
				for _, o := range offers {
					if o.ch != e.Ch {
						continue
					}
					if o.dlv <= d.inj {
						before = true
					}
					if o.inj > d.inj && o.inj <= e.T {
						again = true
					}
				}
				if before && !again {
					return failTrace(evs, i, "stale-channel", "the request for telegram %d was first transmitted at %s with channel %d; the client had taken the gateway's disconnect request for that channel by %s, %s earlier, and the gateway has not assigned it again since (the Send had been waiting since %s)",
						e.Tag, ms(e.T), e.Ch, ms(d.dlv), ms(e.T-d.dlv), ms(sendStart[e.Tag])), false
				}
			}
		}
	}
	return nil, queuedAcross
}

func genPlanC09R(rt *rapid.T) *Plan {
	c := Cfg{ResendUs: 20000, TimeoutUs: rapid.SampledFrom([]int{160000, 220000, 300000}).Draw(rt, "timeout"), HeartbeatUs: 3_600_000_000}
	p := &Plan{Cfg: c, DefConn: okFate(300), DefHb: okFate(200), DefAck: okFate(100), DefDisc: okFate(300)}
	if rapid.IntRange(0, 2).Draw(rt, "send-right-behind-reconnect") == 0 {
		// nothing is pending: 1..4 requests are acknowledged, the gateway ends the connection, and a Send arrives within
		// a few milliseconds of the reconnect - while the client's goroutines may be standing in a slow diagnostic line.
		// Channel and numbering switch together: that Send is number 0 on the new channel.
		n := rapid.IntRange(1, 4).Draw(rt, "acked-before")
		var a []AppStep
		for i := 0; i < n; i++ {
			a = append(a, AppStep{AfterUs: rapid.IntRange(0, 600).Draw(rt, "gap0"), Tag: i + 1})
		}
		discAt := 8000 + rapid.IntRange(0, 4000).Draw(rt, "disc-at0")
		p.SlowLogUs = rapid.SampledFrom([]int{0, 3000, 8000, 8000}).Draw(rt, "slow-log")
		// the Send starts 0 .. (one log line + 0.5 ms) after the client has taken the reconnect's connect response: the
		// reconnect path may then be standing in a diagnostic line
		p.Senders = [][]AppStep{a, {{AfterConn: 2, AfterUs: rapid.IntRange(0, p.SlowLogUs+500).Draw(rt, "behind-reconnect"), Tag: 50}, {AfterUs: 200, Tag: 51}}}
		p.Gw = []GwStep{{AfterUs: discAt, Kind: "discreq", Chan: "cur"}}
		return p
	}
	if rapid.IntRange(0, 3).Draw(rt, "same-channel") == 0 {
		p.DefConn.Ch = -1
	}
	// the first Send (or the first few transmissions) get no acknowledgement: it holds the sender lock until its timeout
	// (after 0..3 requests that are acknowledged normally, so that the sender's counter is not 0 when the connection is
	// replaced)
	for i := 0; i < rapid.IntRange(0, 3).Draw(rt, "acked-first"); i++ {
		p.Ack = append(p.Ack, okFate(100))
	}
	lost := rapid.IntRange(8, 30).Draw(rt, "lost-acks")
	for i := 0; i < lost; i++ {
		p.Ack = append(p.Ack, Fate{Act: "lose"})
	}
	lanes := rapid.IntRange(2, 4).Draw(rt, "senders")
	tag := 1
	for l := 0; l < lanes; l++ {
		var lane []AppStep
		for i := 0; i < rapid.IntRange(1, 3).Draw(rt, "n"); i++ {
			lane = append(lane, AppStep{AfterUs: rapid.IntRange(0, 3000).Draw(rt, "gap") + l*500, Tag: tag})
			tag++
		}
		p.Senders = append(p.Senders, lane)
	}
	// the gateway ends the connection while the first Send is pending; the client reconnects at once
	p.Gw = []GwStep{{AfterUs: rapid.IntRange(4000, 40000).Draw(rt, "disc-at"), Kind: "discreq", Chan: "cur"}}
	if rapid.Bool().Draw(rt, "second-reconnect") {
		p.Gw = append(p.Gw, GwStep{AfterUs: rapid.IntRange(20000, 200000).Draw(rt, "disc2-at"), Kind: "discreq", Chan: "cur"})
	} else if rapid.Bool().Draw(rt, "late-ack") {
		// a delayed acknowledgement of the old connection for the request that is still pending arrives after the
		// reconnect (same channel number: the client cannot tell and takes it; the numbering of the new connection
		// starts at 0 all the same)
		p.DefConn.Ch = -1
		p.Gw = append(p.Gw, GwStep{AfterUs: rapid.IntRange(3000, 25000).Draw(rt, "late-ack-at"), Kind: "ack", Chan: "cur", Abs: len(p.Ack) - lost})
	}
	return p
}
