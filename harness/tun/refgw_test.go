package tun

import (
	"sync"
	"time"

	"github.com/vapourismo/knx-go/knx/knxnet"
)

// NetFate is what the network does to one datagram: deliver (after DelayUs), lose, or dup
// (deliver twice, after DelayUs and Delay2Us).
type NetFate struct {
	Act      string `json:"act"`
	DelayUs  int    `json:"d,omitempty"`
	Delay2Us int    `json:"d2,omitempty"`
}

// BusStep: a telegram arrives from the bus and has to be tunnelled to the client.
type BusStep struct {
	AfterUs int `json:"after_us"`
	Tag     int `json:"tag"`
}

// RefGw configures the reference gateway (follows the KNXnet/IP tunnelling rules: accept the
// expected sequence number, re-acknowledge the previous one, ignore others, repeat its own
// unacknowledged requests) and the lossy network between it and the client.
type RefGw struct {
	C2G        []NetFate `json:"c2g,omitempty"`
	G2C        []NetFate `json:"g2c,omitempty"`
	DefC2G     NetFate   `json:"def_c2g"`
	DefG2C     NetFate   `json:"def_g2c"`
	GwResendUs int       `json:"gw_resend_us"`
	GwTries    int       `json:"gw_tries"`
	Bus        []BusStep `json:"bus,omitempty"`
	// Refuse: tags of client telegrams the gateway does not forward: it takes the request (its counter advances, as
	// for any request with the expected number), keeps it off the bus and acknowledges with an error status. A
	// repetition of that request is re-acknowledged like any other duplicate (status OK: "had that one")
	Refuse []int `json:"refuse,omitempty"`
}

type refState struct {
	cfg     *RefGw
	mu      sync.Mutex
	nC2G    int
	nG2C    int
	expC    int // expected sequence number of the next client request
	sendSeq int
	acks    chan *knxnet.TunnelRes
	gaveUp  bool
}

func newRefState(c *RefGw) *refState {
	return &refState{cfg: c, acks: make(chan *knxnet.TunnelRes, 4096)}
}

func (r *refState) reset() {
	r.mu.Lock()
	r.expC, r.sendSeq = 0, 0
	r.mu.Unlock()
}

func (r *refState) fateC2G() NetFate {
	r.mu.Lock()
	defer r.mu.Unlock()
	k := r.nC2G
	r.nC2G++
	if k < len(r.cfg.C2G) {
		return r.cfg.C2G[k]
	}
	return r.cfg.DefC2G
}

func (r *refState) fateG2C() NetFate {
	r.mu.Lock()
	defer r.mu.Unlock()
	k := r.nG2C
	r.nG2C++
	if k < len(r.cfg.G2C) {
		return r.cfg.G2C[k]
	}
	return r.cfg.DefG2C
}

// carry applies a network fate to one datagram.
func carry(s *Sim, f NetFate, arrive func()) {
	switch f.Act {
	case "lose":
		return
	case "dup":
		s.after(us(f.DelayUs), arrive)
		s.after(us(f.Delay2Us), arrive)
	default:
		s.after(us(f.DelayUs), arrive)
	}
}

// toClient sends one datagram from the gateway to the client through the network.
func (r *refState) toClient(s *Sim, svc knxnet.Service) {
	carry(s, r.fateG2C(), func() { s.inject(svc) })
}

// clientRequest: the client emitted a tunnelling request.
func (r *refState) clientRequest(s *Sim, req *knxnet.TunnelReq, raw []byte) {
	tag := tagOf(req.Payload)
	ch, seq := int(req.Channel), int(req.SeqNumber)
	carry(s, r.fateC2G(), func() {
		s.mu.Lock()
		cur := s.curChan
		s.mu.Unlock()
		if ch != cur {
			return
		}
		r.mu.Lock()
		exp := r.expC
		accept := seq == exp
		reack := seq == (exp+255)%256
		if accept {
			r.expC = (exp + 1) % 256
		}
		r.mu.Unlock()
		status := knxnet.ErrCode(knxnet.NoError)
		if accept {
			for _, t := range r.cfg.Refuse {
				if t == tag {
					status = knxnet.ErrCode(knxnet.ErrTunnellingLayer)
				}
			}
			if status == knxnet.ErrCode(knxnet.NoError) {
				s.Tr.add(Ev{K: "bus", Tag: tag, Seq: seq, Ch: ch})
			} else {
				s.Tr.add(Ev{K: "note", Tag: tag, Note: "gateway refuses this telegram (error status, counter advanced)"})
			}
		}
		if accept || reack {
			r.toClient(s, &knxnet.TunnelRes{Channel: uint8(ch), SeqNumber: uint8(seq), Status: status})
		}
	})
}

// clientAck: the client emitted an acknowledgement for one of the gateway's requests.
func (r *refState) clientAck(s *Sim, res *knxnet.TunnelRes) {
	cp := *res
	carry(s, r.fateC2G(), func() {
		select {
		case r.acks <- &cp:
		default:
		}
	})
}

// busToClient tunnels the scripted bus telegrams to the client, stop-and-wait.
func (r *refState) busToClient(s *Sim) {
	for _, b := range r.cfg.Bus {
		time.Sleep(us(b.AfterUs))
		s.mu.Lock()
		ch := s.curChan
		s.mu.Unlock()
		r.mu.Lock()
		seq := r.sendSeq
		r.mu.Unlock()
		acked := false
		for try := 0; try < r.cfg.GwTries && !acked; try++ {
			r.toClient(s, &knxnet.TunnelReq{Channel: uint8(ch), SeqNumber: uint8(seq), Payload: inMsg(b.Tag, s.Plan.Group)})
			tm := time.NewTimer(us(r.cfg.GwResendUs))
		wait:
			for {
				select {
				case a := <-r.acks:
					if int(a.Channel) == ch && int(a.SeqNumber) == seq && a.Status == knxnet.NoError {
						acked = true
						break wait
					}
				case <-tm.C:
					break wait
				}
			}
			tm.Stop()
		}
		if !acked {
			r.mu.Lock()
			r.gaveUp = true
			r.mu.Unlock()
			s.Tr.add(Ev{K: "note", Note: "gateway gave up (no acknowledgement): it would now tear the connection down", Tag: b.Tag})
			return
		}
		s.Tr.add(Ev{K: "gwacked", Tag: b.Tag, Seq: seq, Ch: ch})
		r.mu.Lock()
		r.sendSeq = (seq + 1) % 256
		r.mu.Unlock()
	}
}
