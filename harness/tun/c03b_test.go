//go:build go1.25

package tun

import (
	"testing"
	"time"

	"pgregory.net/rapid"
	"verif/harness/common"
)

// bubbleFail converts what the bubble itself reports (a panic escaping the library, or all
// goroutines blocked forever) into a failure.
func bubbleFail(br *BubbleResult) *common.Fail {
	if br.Panic != "" {
		f := common.Failf("panic-or-deadlock", "the virtual-time run ended with: %s", br.Panic)
		f.Extra = map[string]any{"trace": Dump(br.Events, 60), "goroutines": br.LeakDump}
		return f
	}
	return nil
}

func TestC03B(t *testing.T) {
	rec := common.NewRec("C03", "bubble")
	bubbleWD = common.NewWatchdog(rec, 90*time.Second)
	completed := false
	defer func() { rec.Finish(completed) }()
	run := func(p *Plan) *common.Fail {
		rec.InFlight(p)
		br := runBubble(t, p)
		rec.Landed()
		if f := bubbleFail(br); f != nil {
			return f
		}
		if br.ConnErr != "" {
			rec.Inconclusive("initial connect failed (not generated on purpose)")
			return nil
		}
		if f := oracleC03B(p, br.Result); f != nil {
			return f
		}
		if classifyC03(p, br.Result, rec) {
			rec.NonTrivial(common.HashJSON(p))
		}
		rec.Sample("bubble", map[string]any{"plan": p, "trace_head": Dump(br.Events, 0)[:min(len(br.Events), 25)]})
		return nil
	}
	common.Drive(t, rec, func(rt *rapid.T) *Plan { return withEdgeChannels(rt, genPlanC03B(rt)) }, run)
	completed = true
}
