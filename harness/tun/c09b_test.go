//go:build go1.25

package tun

import (
	"testing"
	"time"

	"pgregory.net/rapid"
	"verif/harness/common"
)

func TestC09B(t *testing.T) {
	rec := common.NewRec("C09", "bubble")
	bubbleWD = common.NewWatchdog(rec, 90*time.Second)
	completed := false
	defer func() { rec.Finish(completed) }()
	run := func(p *Plan) *common.Fail {
		rec.InFlight(p)
		br := runBubble(t, p)
		rec.Landed()
		if f := bubbleFail(br); f != nil {
			return f
		}
		if br.ConnErr != "" {
			rec.Inconclusive("initial connect failed")
			return nil
		}
		f, inc := oracleC09(p, br.Result)
		if f != nil {
			return f
		}
		if inc != "" {
			rec.Inconclusive(inc)
		}
		if classifyC09(p, br.Result, rec) {
			rec.NonTrivial(common.HashJSON(p))
		}
		rec.Sample("bubble", map[string]any{"plan": p, "trace_head": Dump(br.Events, 0)[:min(len(br.Events), 40)]})
		return nil
	}
	common.Drive(t, rec, func(rt *rapid.T) *Plan { return withEdgeChannels(rt, genPlanC09(rt)) }, run)
	completed = true
}
