package tun

import (
	"fmt"

	"pgregory.net/rapid"
	"verif/harness/common"
)

// oracleC17: the sequence read from Inbound must be the sequence in which the reference receiver
// accepted the telegrams.
func oracleC17(p *Plan, res *Result) *common.Fail {
	evs := res.Events
	w := newWalker()
	exp, expEpoch := 0, 0
	var accepted, read []int
	for _, e := range evs {
		if e.K == "dlv" && e.Svc == "TunnelReq" && w.ph == phConnected && e.Ch == w.ch {
			if w.epoch != expEpoch {
				exp, expEpoch = 0, w.epoch
			}
			if p.Cfg.TCP || e.Seq == exp {
				accepted = append(accepted, e.Tag)
				exp = (exp + 1) % 256
			}
		}
		if e.K == "read" {
			read = append(read, e.Tag)
		}
		w.step(e)
	}
	n := len(read)
	if len(accepted) < n {
		n = len(accepted)
	}
	for i := 0; i < n; i++ {
		if read[i] != accepted[i] {
			f := common.Failf("order", "the application read %v but the telegrams were accepted in the order %v (first difference at position %d)", read, accepted, i)
			f.Extra = map[string]any{"trace": Dump(evs, 80)}
			return f
		}
	}
	if len(read) != len(accepted) && !res.terminatedEarly() {
		f := common.Failf("count", "%d telegrams accepted, %d read although Inbound was drained while the tunnel was open (accepted %v, read %v)", len(accepted), len(read), accepted, read)
		f.Extra = map[string]any{"trace": Dump(evs, 80)}
		return f
	}
	return nil
}

// genPlanC17 draws bursts of accepted telegrams and a consumer behaviour.
// unit is the base time unit in microseconds (fake clock: 1000; real clock: 1).
func genPlanC17(rt *rapid.T, real bool) *Plan {
	c := Cfg{ResendUs: 500_000, TimeoutUs: 10_000_000, HeartbeatUs: hugeUs}
	if real {
		c = Cfg{ResendUs: 20_000, TimeoutUs: 400_000, HeartbeatUs: 3_600_000_000}
	}
	c.TCP = rapid.IntRange(0, 3).Draw(rt, "tcp") == 0
	p := &Plan{Cfg: c, DefConn: okFate(1337), DefHb: okFate(1337), DefAck: okFate(137), DefDisc: okFate(1337), DrainUs: 2000}
	if real {
		p.DrainUs = 30_000
	}
	p.Group = rapid.IntRange(0, 2).Draw(rt, "group") == 0
	if rapid.IntRange(0, 5).Draw(rt, "long-life") == 0 {
		// a client that has been running for a while: the application keeps pace for `pre` telegrams (just below a
		// multiple of 256: counters that live as long as the client wrap there), then stalls while a burst arrives
		pre := rapid.SampledFrom([]int{120, 250, 253, 254, 255, 256, 506, 510}).Draw(rt, "pre") + rapid.IntRange(-2, 2).Draw(rt, "pre-jitter")
		tag := 1
		for i := 0; i < pre; i++ {
			p.Gw = append(p.Gw, GwStep{AfterUs: 211, Kind: "req", Chan: "cur", Seq: "exp", Tag: tag})
			tag++
		}
		n := rapid.IntRange(3, 24).Draw(rt, "late-burst")
		for i := 0; i < n; i++ {
			g := GwStep{Kind: "req", Chan: "cur", Seq: "exp", Tag: tag, AfterUs: rapid.SampledFrom([]int{0, 0, 0, 1, 30}).Draw(rt, "late-gap")}
			if i == 0 {
				g.AfterUs = 3000
			}
			tag++
			p.Gw = append(p.Gw, g)
		}
		p.Consumer = []ConStep{{AfterUs: 57, Kind: "read", N: pre, WithinUs: 2500}}
		return p
	}
	bursts := rapid.IntRange(1, 4).Draw(rt, "bursts")
	tag := 1
	total := 0
	recon := 0
	for b := 0; b < bursts; b++ {
		if b > 0 && rapid.IntRange(0, 2).Draw(rt, "reconnect-between-bursts") == 0 {
			// the gateway ends the connection while telegrams may still be parked; the reconnect succeeds
			// and the next burst arrives on the new connection (acceptance order spans both epochs)
			p.Gw = append(p.Gw, GwStep{AfterUs: rapid.SampledFrom([]int{0, 1, 211, 3000}).Draw(rt, "disc-after"), Kind: "discreq", Chan: "cur"})
			recon++
			_ = recon
		}
		n := rapid.IntRange(2, 64).Draw(rt, "burst-len")
		if rapid.IntRange(0, 2).Draw(rt, "short") > 0 {
			n = rapid.IntRange(2, 8).Draw(rt, "burst-short")
		}
		pause := rapid.IntRange(0, 3000).Draw(rt, "pause") + 211
		for i := 0; i < n; i++ {
			g := GwStep{Kind: "req", Chan: "cur", Seq: "exp", Tag: tag}
			if i == 0 {
				g.AfterUs = pause
			} else {
				g.AfterUs = rapid.SampledFrom([]int{0, 0, 0, 0, 1, 30}).Draw(rt, "gap")
			}
			total += g.AfterUs
			tag++
			p.Gw = append(p.Gw, g)
			if !c.TCP && rapid.IntRange(0, 7).Draw(rt, "repetition-inside-burst") == 0 {
				// the gateway repeats the request it sent last (its acknowledgement was lost): re-acknowledged, not
				// delivered again - and the telegrams parked before and after it keep their order
				p.Gw = append(p.Gw, GwStep{Kind: "req", Chan: "cur", Seq: "prev", Tag: tag - 1, AfterUs: rapid.SampledFrom([]int{0, 0, 1, 30}).Draw(rt, "rep-gap"),
					Repeat: rapid.SampledFrom([]int{0, 0, 1}).Draw(rt, "rep-n")})
			}
		}
	}
	if !c.TCP && rapid.IntRange(0, 2).Draw(rt, "ack-write-fails") == 0 {
		// the socket refuses some of the client's acknowledgements (a connected UDP socket reports an ICMP error on the
		// next write): the telegram has been accepted all the same and keeps its place in the order
		for i := 0; i < rapid.IntRange(1, 3).Draw(rt, "n-ack-fail"); i++ {
			p.FailOut = append(p.FailOut, rapid.IntRange(0, tag).Draw(rt, "ack-fail-at"))
		}
	}
	switch rapid.IntRange(0, 2).Draw(rt, "consumer") {
	case 0:
		p.Consumer = []ConStep{{AfterUs: 50, Kind: "drain"}}
	case 1:
	default:
		k := rapid.IntRange(1, 6).Draw(rt, "reads")
		for i := 0; i < k; i++ {
			p.Consumer = append(p.Consumer, ConStep{AfterUs: rapid.IntRange(0, total/k+500).Draw(rt, "think") + 57, Kind: "read",
				N: rapid.IntRange(1, 20).Draw(rt, "n-read"), WithinUs: rapid.SampledFrom([]int{1, 50, 400}).Draw(rt, "within")})
		}
	}
	return p
}

func classifyC17(p *Plan, res *Result, rec *common.Rec) bool {
	// non-trivial: at least one hand-off found the consumer not ready (a telegram was taken by the
	// client while an earlier accepted one was still unread)
	unread, parked := 0, false
	for _, e := range res.Events {
		if e.K == "dlv" && e.Svc == "TunnelReq" {
			if unread > 0 {
				parked = true
			}
			unread++
		}
		if e.K == "read" {
			unread--
		}
		if e.K == "dlv" && e.Svc == "DiscReq" && unread > 0 {
			rec.Class("reconnect with telegrams parked")
		}
	}
	kind := "tunnel"
	if p.Group {
		kind = "group-tunnel"
	}
	rec.Class(fmt.Sprintf("%s tcp=%v parked=%v", kind, p.Cfg.TCP, parked))
	return parked
}
