// Package tun runs the real knx.Tunnel on an in-memory socket against a scripted or reference
// gateway, either inside a testing/synctest bubble (virtual time, go1.26.8) or on the real clock,
// and records one totally ordered trace that the per-property oracles judge.
package tun

import (
	"encoding/binary"
	"errors"
	"fmt"
	"net"
	"pgregory.net/rapid"
	"runtime"
	"sort"
	"strings"
	"sync"
	"sync/atomic"
	"time"

	"github.com/vapourismo/knx-go/knx"
	"github.com/vapourismo/knx-go/knx/cemi"
	"github.com/vapourismo/knx-go/knx/knxnet"
	"verif/harness/common"
)

// ---------------------------------------------------------------------------------- plan

// Cfg is the tunnel configuration of a case; the unit is microseconds.
type Cfg struct {
	ResendUs    int  `json:"resend_us"`
	TimeoutUs   int  `json:"timeout_us"`
	HeartbeatUs int  `json:"heartbeat_us"`
	TCP         bool `json:"tcp,omitempty"`
	SendLocal   bool `json:"send_local,omitempty"`
}

// Fate is the gateway's reaction to one frame emitted by the client.
//
//	act: ok | lose | status | wrongseq | foreign | busy | junk
type Fate struct {
	Act        string `json:"act"`
	DelayUs    int    `json:"d,omitempty"`
	Status     int    `json:"st,omitempty"`
	Ch         int    `json:"ch,omitempty"`
	SeqDelta   int    `json:"sd,omitempty"`
	Dup        int    `json:"dup,omitempty"`
	DupDelayUs int    `json:"dd,omitempty"`
}

// AppStep: wait AfterUs, then Send a telegram tagged Tag (blocking).
type AppStep struct {
	AfterUs int `json:"after_us"`
	Tag     int `json:"tag"`
	// AfterConn > 0 (real clock): the step first waits until the client has taken its AfterConn-th OK connect response
	// (1 = the constructor's), then AfterUs - a Send aimed at the moments right behind a reconnect
	AfterConn int `json:"after_conn,omitempty"`
}

// GwStep is an unsolicited action of the gateway / network at a scripted time.
//
//	kind: req (tunnelling request) | ack (TunnelRes) | hbres (ConnStateRes) | discreq | discres |
//	      connres | junk | sockdie (the socket's receiver dies: Inbound() closes)
//	chan: cur | other | abs      seq: exp | prev | next | far | abs
type GwStep struct {
	AfterUs int    `json:"after_us"`
	Kind    string `json:"kind"`
	Chan    string `json:"chan,omitempty"`
	Seq     string `json:"seq,omitempty"`
	Abs     int    `json:"abs,omitempty"`
	AbsCh   int    `json:"abs_ch,omitempty"`
	Status  int    `json:"st,omitempty"`
	Tag     int    `json:"tag,omitempty"`
	Repeat  int    `json:"repeat,omitempty"` // extra back-to-back copies
	// Behind (discreq): so many in-sequence tunnelling requests (numbers 0.., tags Tag..) are put on the wire directly
	// behind the connect response that answers the reconnect this disconnect request triggers - a gateway that
	// has telegrams waiting sends them the moment the connection is up again
	Behind int `json:"behind,omitempty"`
}

// ConStep is an action of the application's reader.
//
//	kind: read (up to N messages, giving up after WithinUs without one) | drain (read until closed)
type ConStep struct {
	AfterUs  int    `json:"after_us"`
	Kind     string `json:"kind"`
	N        int    `json:"n,omitempty"`
	WithinUs int    `json:"within_us,omitempty"`
}

// CloseStep: kind close | send (a probe Send, e.g. after Close).
type CloseStep struct {
	AfterUs int    `json:"after_us"`
	Kind    string `json:"kind"`
	Tag     int    `json:"tag,omitempty"`
}

// Plan is one generated case.
type Plan struct {
	// SlowLogUs > 0 (real clock): a log target is installed whose every line takes this long (a console, a network log
	// sink): the client's goroutines stand still inside their diagnostic lines for that time
	SlowLogUs int `json:"slow_log_us,omitempty"`
	// Judge: "" = the job's own oracle; "order" = a plan of the C17 generator run inside another job (judged by the
	// order oracle and the receiver model)
	Judge string `json:"judge,omitempty"`
	// ChanEdge: the gateway assigns the channels 0, 255, 0, 1, 254, ... instead of numbers from the middle of the range
	ChanEdge bool          `json:"chan_edge,omitempty"`
	Cfg      Cfg           `json:"cfg"`
	Conn     []Fate        `json:"conn,omitempty"` // per connect request emitted
	Hb       []Fate        `json:"hb,omitempty"`   // per connection-state request emitted
	Ack      []Fate        `json:"ack,omitempty"`  // per tunnelling request emitted
	Disc     []Fate        `json:"disc,omitempty"` // per disconnect request emitted
	DefConn  Fate          `json:"def_conn"`
	DefHb    Fate          `json:"def_hb"`
	DefAck   Fate          `json:"def_ack"`
	DefDisc  Fate          `json:"def_disc"`
	Senders  [][]AppStep   `json:"senders,omitempty"`
	Gw       []GwStep      `json:"gw,omitempty"`
	Consumer []ConStep     `json:"consumer,omitempty"`
	Closers  [][]CloseStep `json:"closers,omitempty"`
	TailUs   int           `json:"tail_us,omitempty"`
	DrainUs  int           `json:"drain_us,omitempty"` // before the cleanup Close: read Inbound until it stays silent this long
	Ref      *RefGw        `json:"ref,omitempty"`      // C05: reference gateway + lossy network for tunnelling traffic
	// FailOut: indices (counting every frame the client hands to its socket after the connection is up,
	// from 0) whose transmission fails with a socket error: the frame is not transmitted.
	FailOut []int `json:"fail_out,omitempty"`
	// FailDiscRes: indices (counting the disconnect responses the client hands to its socket, from 0) whose
	// transmission fails. A disconnect response is fire-and-forget: whether it could be written changes nothing about
	// what the client does next (it reconnects), so the reference models need not know.
	FailDiscRes []int `json:"fail_discres,omitempty"`
	// FailHb: indices (counting the connection-state requests the client hands to its socket, from 0) whose
	// transmission the socket refuses with an error: that heartbeat has failed there and then
	FailHb []int `json:"fail_hb,omitempty"`
	Group  bool  `json:"group,omitempty"`
}

// ---------------------------------------------------------------------------------- trace

// Ev is one entry of the trace. T is nanoseconds since the scenario started.
type Ev struct {
	T    int64  `json:"t"`
	K    string `json:"k"` // out | inj | dlv | send> | send< | read | inb-closed | close> | close< | conn< | sockdie | bus | gwacked | note
	Svc  string `json:"svc,omitempty"`
	Ch   int    `json:"ch,omitempty"`
	Seq  int    `json:"seq,omitempty"`
	St   int    `json:"st,omitempty"`
	Tag  int    `json:"tag,omitempty"`
	Lane int    `json:"lane,omitempty"`
	Err  string `json:"err,omitempty"`
	Hex  string `json:"hex,omitempty"`
	Note string `json:"note,omitempty"`
}

func (e Ev) String() string {
	s := fmt.Sprintf("%12.3fms %-10s", float64(e.T)/1e6, e.K)
	if e.Svc != "" {
		s += fmt.Sprintf(" %s ch=%d seq=%d st=%d", e.Svc, e.Ch, e.Seq, e.St)
	}
	if e.K == "out" || e.K == "inj" || e.K == "dlv" || e.K == "send>" || e.K == "send<" || e.K == "read" || e.K == "bus" || e.K == "gwacked" {
		s += fmt.Sprintf(" tag=%d", e.Tag)
	}
	if e.Lane != 0 {
		s += fmt.Sprintf(" lane=%d", e.Lane)
	}
	if e.Err != "" {
		s += " err=" + e.Err
	}
	if e.Note != "" {
		s += " " + e.Note
	}
	return s
}

// Trace is the totally ordered history of a case.
type Trace struct {
	mu     sync.Mutex
	start  time.Time
	Events []Ev
}

func (tr *Trace) add(e Ev) {
	tr.mu.Lock()
	e.T = int64(time.Since(tr.start))
	tr.Events = append(tr.Events, e)
	tr.mu.Unlock()
}

func (tr *Trace) snapshot() []Ev {
	tr.mu.Lock()
	defer tr.mu.Unlock()
	return append([]Ev{}, tr.Events...)
}

// causalOrder repairs the one place where the log order is not the causal order: the pump can only
// log "the client took the frame" (dlv) after the hand-off, by which time the client may already
// have logged its reaction at the same virtual instant. On the fake clock nothing but reactions to
// it can share the instant of a delivery (harness events never coincide with client timers), so
// within one instant: injections first, then deliveries, then everything else, each group in log order.
func causalOrder(evs []Ev) []Ev {
	prio := func(e Ev) int {
		switch e.K {
		case "close>":
			return -1 // opens its segment (see the barrier below)
		case "inj":
			return 0
		case "dlv":
			return 1
		}
		return 2
	}
	// A Close call is a barrier: once it has begun, frames may be taken from the socket by Close itself
	// (it lets the receiver finish by draining it), not by the connection server - such deliveries must
	// not be moved ahead of the Close that caused them.
	type keyed struct {
		e   Ev
		seg int
	}
	ks := make([]keyed, len(evs))
	seg := 0
	for i, e := range evs {
		if e.K == "close>" {
			seg++
		}
		ks[i] = keyed{e, seg}
	}
	sort.SliceStable(ks, func(i, j int) bool {
		if ks[i].e.T != ks[j].e.T {
			return ks[i].e.T < ks[j].e.T
		}
		if ks[i].seg != ks[j].seg {
			return ks[i].seg < ks[j].seg
		}
		return prio(ks[i].e) < prio(ks[j].e)
	})
	out := make([]Ev, len(ks))
	for i := range ks {
		out[i] = ks[i].e
	}
	return out
}

// Dump renders the last n events (all when n <= 0).
func Dump(evs []Ev, n int) []string {
	if n > 0 && len(evs) > n {
		evs = evs[len(evs)-n:]
	}
	out := make([]string, len(evs))
	for i, e := range evs {
		out[i] = e.String()
	}
	return out
}

// ---------------------------------------------------------------------------------- payloads

const noTag = -1

func tagData(tag int) []byte {
	b := []byte{0, 0, 0, 0, 0}
	binary.BigEndian.PutUint32(b[1:], uint32(tag))
	return b
}

func ldata(tag int) cemi.LData {
	return cemi.LData{
		Control1: cemi.Control1StdFrame | cemi.Control1NoRepeat | cemi.Control1NoSysBroadcast | cemi.Control1Prio(cemi.PrioLow),
		Control2: cemi.Control2GroupAddr | cemi.Control2Hops(6),
		Source:   cemi.NewIndividualAddr3(1, 1, 7), Destination: uint16(cemi.NewGroupAddr3(1, 2, 3)),
		Data: &cemi.AppData{Command: cemi.GroupValueWrite, Data: tagData(tag)},
	}
}

func reqMsg(tag int) cemi.Message { return &cemi.LDataReq{LData: ldata(tag)} }
func indMsg(tag int) cemi.Message { return &cemi.LDataInd{LData: ldata(tag)} }

// inMsg: what the gateway tunnels to the client for telegram `tag`. On a raw tunnel a fraction of the telegrams are
// confirmations and requests (the message kind is a function of the tag): the client hands every cEMI message to
// the application alike. The group layer surfaces indications only, so group plans stick to those.
// vary gives the telegram for `tag` header fields that depend on the tag: all four priorities (system priority among
// them), both repeat flags, hop counts 0..7, different senders. Order, delivery and acknowledgement do not depend on them.
func vary(l *cemi.LData, tag int) {
	l.Control1 = cemi.Control1StdFrame | cemi.Control1NoSysBroadcast | cemi.Control1Prio(cemi.Priority(tag%4))
	if tag%3 != 0 {
		l.Control1 |= cemi.Control1NoRepeat
	}
	l.Control2 = cemi.Control2GroupAddr | cemi.Control2Hops(uint8(tag%8))
	l.Source = cemi.NewIndividualAddr3(1, 1, uint8(tag%250+1))
}

func inMsg(tag int, group bool) cemi.Message {
	m := inMsgPlain(tag, group)
	switch v := m.(type) {
	case *cemi.LDataInd:
		vary(&v.LData, tag)
	case *cemi.LDataCon:
		vary(&v.LData, tag)
	case *cemi.LDataReq:
		vary(&v.LData, tag)
	}
	return m
}

func inMsgPlain(tag int, group bool) cemi.Message {
	switch {
	case group:
		return indMsg(tag)
	case tag%7 == 3 || tag%16 == 8:
		return &cemi.LDataCon{LData: ldata(tag)}
	case tag%11 == 5:
		return &cemi.LDataReq{LData: ldata(tag)}
	}
	return indMsg(tag)
}

func tagOf(m cemi.Message) int {
	var l *cemi.LData
	switch v := m.(type) {
	case *cemi.LDataReq:
		l = &v.LData
	case *cemi.LDataInd:
		l = &v.LData
	case *cemi.LDataCon:
		l = &v.LData
	}
	if l == nil {
		return noTag
	}
	if a, ok := l.Data.(*cemi.AppData); ok && len(a.Data) == 5 {
		return int(binary.BigEndian.Uint32(a.Data[1:]))
	}
	return noTag
}

func tagOfGroupEvent(e knx.GroupEvent) int {
	if len(e.Data) == 5 {
		return int(binary.BigEndian.Uint32(e.Data[1:]))
	}
	return noTag
}

// describe fills the frame fields of an event from a service value.
func describe(e *Ev, s knxnet.Service) {
	e.Tag = noTag
	switch v := s.(type) {
	case *knxnet.ConnReq:
		e.Svc = "ConnReq"
	case *knxnet.ConnRes:
		e.Svc, e.Ch, e.St = "ConnRes", int(v.Channel), int(v.Status)
	case *knxnet.ConnStateReq:
		e.Svc, e.Ch, e.St = "ConnStateReq", int(v.Channel), int(v.Status)
	case *knxnet.ConnStateRes:
		e.Svc, e.Ch, e.St = "ConnStateRes", int(v.Channel), int(v.Status)
	case *knxnet.DiscReq:
		e.Svc, e.Ch, e.St = "DiscReq", int(v.Channel), int(v.Status)
	case *knxnet.DiscRes:
		e.Svc, e.Ch, e.St = "DiscRes", int(v.Channel), int(v.Status)
	case *knxnet.TunnelReq:
		e.Svc, e.Ch, e.Seq, e.Tag = "TunnelReq", int(v.Channel), int(v.SeqNumber), tagOf(v.Payload)
	case *knxnet.TunnelRes:
		e.Svc, e.Ch, e.Seq, e.St = "TunnelRes", int(v.Channel), int(v.SeqNumber), int(v.Status)
	case nil:
		e.Svc = "undecodable"
	default:
		e.Svc = fmt.Sprintf("%T", s)
	}
}

// ---------------------------------------------------------------------------------- executor

// Sim is one running case.
type Sim struct {
	Plan   *Plan
	Bubble bool          // virtual time: enforce the "no goroutine waits for a mutex while time must pass" discipline
	Limit  time.Duration // bound for "must happen" waits of the cleanup phase
	Tr     *Trace
	Sock   *common.MemSock
	Tun    *knx.Tunnel
	GTun   knx.GroupTunnel

	mu            sync.Mutex
	nConn, nHb    int
	nAck, nDisc   int
	connTaken     int32 // OK connect responses the client has taken (atomic)
	nDiscRes      int   // disconnect responses handed to the socket so far
	nHbOut        int   // connection-state requests handed to the socket so far
	behind        int   // requests to put behind the next OK connect response (GwStep.Behind) and their first tag
	behindTag     int
	curChan       int // channel of the last OK connect response injected
	expIn         int // reference receiver: expected sequence number of the next request from the gateway
	sendsPending  int
	reconnInFlite bool
	deferred      []func()
	nextChan      int
	nOut          int
	connected     atomic.Bool
	ref           *refState
	timers        sync.WaitGroup // outstanding AfterFunc deliveries
	stopped       bool
}

var errSockScripted = errors.New("scripted socket error")

func us(n int) time.Duration { return time.Duration(n) * time.Microsecond }

func (s *Sim) fate(list []Fate, n *int, def Fate) Fate {
	k := *n
	*n++
	if k < len(list) {
		return list[k]
	}
	return def
}

// after runs f after d (in the bubble: on the fake clock); the scenario waits for all of them.
func (s *Sim) after(d time.Duration, f func()) {
	s.mu.Lock()
	if s.stopped {
		s.mu.Unlock()
		return
	}
	s.timers.Add(1)
	s.mu.Unlock()
	time.AfterFunc(d, func() {
		defer s.timers.Done()
		s.mu.Lock()
		stopped := s.stopped
		s.mu.Unlock()
		if !stopped {
			f()
		}
	})
}

func (s *Sim) inject(svc knxnet.Service) {
	e := Ev{K: "inj"}
	describe(&e, svc)
	s.Tr.add(e)
	s.Sock.Inject(svc)
}

// injectConnOK delivers an OK connect response, respecting the bubble discipline: it never lands
// while a Send is pending (the client would then wait for the sender's mutex while time must pass).
func (s *Sim) injectConnOK(ch int) {
	deliver := func() {
		s.mu.Lock()
		s.curChan = ch
		s.expIn = 0
		if s.ref != nil {
			s.ref.reset()
		}
		n, tag := s.behind, s.behindTag
		s.behind = 0
		if !s.Plan.Cfg.TCP {
			s.expIn = n % 256
		}
		s.mu.Unlock()
		s.inject(&knxnet.ConnRes{Channel: uint8(ch), Status: knxnet.NoError, Control: knxnet.HostInfo{Protocol: knxnet.UDP4}})
		for k := 0; k < n; k++ {
			s.inject(&knxnet.TunnelReq{Channel: uint8(ch), SeqNumber: uint8(k), Payload: inMsg(tag+k, s.Plan.Group)})
		}
	}
	if !s.Bubble {
		deliver()
		return
	}
	s.mu.Lock()
	if s.sendsPending > 0 {
		s.deferred = append(s.deferred, func() { s.injectConnOK(ch) })
		s.mu.Unlock()
		s.Tr.add(Ev{K: "note", Note: "connect response held back while a Send is pending (virtual-time discipline)"})
		return
	}
	s.reconnInFlite = true
	s.mu.Unlock()
	deliver()
	s.after(time.Microsecond, func() {
		s.mu.Lock()
		s.reconnInFlite = false
		s.mu.Unlock()
	})
}

// onSend is the gateway: it sees every frame the client emits.
func (s *Sim) onSend(f *common.OutFrame) error {
	e := Ev{K: "out", Hex: fmt.Sprintf("%x", f.Bytes)}
	describe(&e, f.Svc)
	p := s.Plan
	if _, isConn := f.Svc.(*knxnet.ConnReq); !isConn || s.connected.Load() {
		s.mu.Lock()
		k := s.nOut
		s.nOut++
		fail := false
		for _, x := range p.FailOut {
			if x == k {
				fail = true
			}
		}
		s.mu.Unlock()
		if _, isDiscRes := f.Svc.(*knxnet.DiscRes); isDiscRes {
			s.mu.Lock()
			for _, x := range p.FailDiscRes {
				if x == s.nDiscRes {
					fail = true
				}
			}
			s.nDiscRes++
			s.mu.Unlock()
		}
		if _, isHb := f.Svc.(*knxnet.ConnStateReq); isHb {
			s.mu.Lock()
			for _, x := range p.FailHb {
				if x == s.nHbOut {
					fail = true
				}
			}
			s.nHbOut++
			s.mu.Unlock()
		}
		if fail {
			e.Err = errSockScripted.Error()
			s.Tr.add(e)
			return errSockScripted // not transmitted: the gateway never sees it
		}
	}
	s.Tr.add(e)
	switch v := f.Svc.(type) {
	case *knxnet.ConnReq:
		s.mu.Lock()
		ft := s.fate(p.Conn, &s.nConn, p.DefConn)
		ch := ft.Ch
		if ch == 0 && ft.Act == "ok" {
			s.nextChan++
			ch = 1 + (s.nextChan*37)%250
			if p.ChanEdge {
				// the ends of the channel octet's range: 0 is a channel like any other in a successful response
				ch = []int{0, 255, 0, 1, 254, 255, 0}[(s.nextChan-1)%7]
			}
		}
		if ch < 0 && ft.Act == "ok" {
			// the gateway hands out the channel the client had before (real gateways commonly do)
			ch = s.curChan
			if s.nextChan == 0 {
				ch = 38
			}
			s.nextChan++
		}
		s.mu.Unlock()
		switch ft.Act {
		case "ok":
			s.after(us(ft.DelayUs), func() { s.injectConnOK(ch) })
		case "busy":
			st := knxnet.ErrCode(knxnet.ErrNoMoreConnections)
			if ft.Status == int(knxnet.ErrNoMoreUniqueConnections) {
				st = knxnet.ErrCode(knxnet.ErrNoMoreUniqueConnections)
			}
			s.after(us(ft.DelayUs), func() { s.inject(&knxnet.ConnRes{Channel: 0, Status: st}) })
		case "status":
			s.after(us(ft.DelayUs), func() { s.inject(&knxnet.ConnRes{Channel: uint8(ft.Ch), Status: knxnet.ErrCode(ft.Status)}) })
		case "junk":
			s.after(us(ft.DelayUs), func() { s.inject(&knxnet.ConnStateRes{Channel: uint8(ft.Ch), Status: 0}) })
		}
	case *knxnet.ConnStateReq:
		s.mu.Lock()
		ft := s.fate(p.Hb, &s.nHb, p.DefHb)
		s.mu.Unlock()
		ch, st := int(v.Channel), 0
		switch ft.Act {
		case "lose":
			return nil
		case "status":
			st = ft.Status
		case "foreign":
			ch = (ch + 1 + ft.Ch%254) % 256
		}
		for k := 0; k <= ft.Dup; k++ {
			s.after(us(ft.DelayUs+k*ft.DupDelayUs), func() {
				s.inject(&knxnet.ConnStateRes{Channel: uint8(ch), Status: knxnet.ErrCode(st)})
			})
		}
	case *knxnet.TunnelReq:
		if s.ref != nil {
			s.ref.clientRequest(s, v, f.Bytes)
			return nil
		}
		s.mu.Lock()
		ft := s.fate(p.Ack, &s.nAck, p.DefAck)
		s.mu.Unlock()
		ch, seq, st := int(v.Channel), int(v.SeqNumber), 0
		switch ft.Act {
		case "lose":
			return nil
		case "status":
			st = ft.Status
		case "wrongseq":
			seq = (seq + 256 + ft.SeqDelta) % 256
		case "foreign":
			ch = (ch + 1 + ft.Ch%254) % 256
		}
		for k := 0; k <= ft.Dup; k++ {
			s.after(us(ft.DelayUs+k*ft.DupDelayUs), func() {
				s.inject(&knxnet.TunnelRes{Channel: uint8(ch), SeqNumber: uint8(seq), Status: knxnet.ErrCode(st)})
			})
		}
	case *knxnet.TunnelRes:
		if s.ref != nil {
			s.ref.clientAck(s, v)
		}
	case *knxnet.DiscReq:
		s.mu.Lock()
		ft := s.fate(p.Disc, &s.nDisc, p.DefDisc)
		s.mu.Unlock()
		if ft.Act == "ok" {
			s.after(us(ft.DelayUs), func() { s.inject(&knxnet.DiscRes{Channel: v.Channel, Status: 0}) })
		}
	}
	return nil
}

func (s *Sim) chanSel(g GwStep) int {
	switch g.Chan {
	case "other":
		return (s.curChan + 1 + g.AbsCh%254) % 256
	case "abs":
		return g.AbsCh & 0xff
	}
	return s.curChan
}

// gwStep performs one scripted gateway action.
func (s *Sim) gwStep(g GwStep) {
	for k := 0; k <= g.Repeat; k++ {
		s.mu.Lock()
		ch := s.chanSel(g)
		var svc knxnet.Service
		switch g.Kind {
		case "req":
			var seq int
			switch g.Seq {
			case "prev":
				seq = (s.expIn + 255) % 256
			case "next":
				seq = (s.expIn + 1) % 256
			case "far":
				seq = (s.expIn + 2 + g.Abs%253) % 256
			case "abs":
				seq = g.Abs & 0xff
			default:
				seq = s.expIn
			}
			if ch == s.curChan && seq == s.expIn && !s.Plan.Cfg.TCP {
				s.expIn = (s.expIn + 1) % 256
			}
			svc = &knxnet.TunnelReq{Channel: uint8(ch), SeqNumber: uint8(seq), Payload: inMsg(g.Tag+k, s.Plan.Group)}
		case "ack":
			svc = &knxnet.TunnelRes{Channel: uint8(ch), SeqNumber: uint8(g.Abs), Status: knxnet.ErrCode(g.Status)}
		case "hbres":
			svc = &knxnet.ConnStateRes{Channel: uint8(ch), Status: knxnet.ErrCode(g.Status)}
		case "discreq":
			svc = &knxnet.DiscReq{Channel: uint8(ch), Status: 0, Control: knxnet.HostInfo{Protocol: knxnet.UDP4}}
			s.behind, s.behindTag = g.Behind, g.Tag
		case "discres":
			svc = &knxnet.DiscRes{Channel: uint8(ch), Status: uint8(g.Status)}
		case "connres":
			svc = &knxnet.ConnRes{Channel: uint8(ch), Status: knxnet.ErrCode(g.Status)}
		case "connres-stray":
			// the late answer to a repeated connect request: the connection it "assigns" is the one already running
			// (or a foreign one); the gateway keeps counting, and so must the client
			svc = &knxnet.ConnRes{Channel: uint8(ch), Status: knxnet.NoError, Control: knxnet.HostInfo{Protocol: knxnet.UDP4}}
		case "ack-stray":
			// an acknowledgement nobody waits for (the second answer to a repeated request, one that arrives after its
			// Send gave up): it concerns the sender's side only, the receiver's side goes on as before
			svc = &knxnet.TunnelRes{Channel: uint8(ch), SeqNumber: uint8(g.Abs), Status: knxnet.ErrCode(g.Status)}
		case "junk":
			svc = &knxnet.RoutingInd{Payload: indMsg(g.Tag)}
		}
		s.mu.Unlock()
		switch {
		case g.Kind == "sockdie":
			s.Tr.add(Ev{K: "sockdie"})
			s.Sock.Close()
			return
		case g.Kind == "connres" && g.Status == 0:
			s.injectConnOK(ch)
		case svc != nil:
			s.inject(svc)
		}
	}
}

func errStr(err error) string {
	if err == nil {
		return ""
	}
	return err.Error()
}

// doSend performs one application Send on lane.
func (s *Sim) doSend(lane, tag int) {
	if s.Bubble {
		for {
			s.mu.Lock()
			if !s.reconnInFlite {
				s.sendsPending++
				s.mu.Unlock()
				break
			}
			s.mu.Unlock()
			time.Sleep(2 * time.Microsecond)
		}
	}
	s.Tr.add(Ev{K: "send>", Tag: tag, Lane: lane})
	var err error
	if s.Plan.Group {
		err = s.GTun.Send(knx.GroupEvent{Command: knx.GroupWrite, Source: cemi.NewIndividualAddr3(1, 1, 7), Destination: cemi.NewGroupAddr3(1, 2, 3), Data: tagData(tag)})
	} else {
		err = s.Tun.Send(reqMsg(tag))
	}
	s.Tr.add(Ev{K: "send<", Tag: tag, Lane: lane, Err: errStr(err)})
	if s.Bubble {
		s.mu.Lock()
		s.sendsPending--
		var run []func()
		if s.sendsPending == 0 {
			run, s.deferred = s.deferred, nil
		}
		s.mu.Unlock()
		for _, f := range run {
			f := f
			s.after(time.Microsecond, f)
		}
	}
}

// readOne waits up to d for a message from the application-facing channel.
// ok=false, closed=true when the channel was closed.
func (s *Sim) readOne(d time.Duration) (got, closed bool) {
	var tm <-chan time.Time
	if d >= 0 {
		t := time.NewTimer(d)
		defer t.Stop()
		tm = t.C
	}
	if s.Plan.Group {
		select {
		case e, open := <-s.GTun.Inbound():
			if !open {
				s.Tr.add(Ev{K: "inb-closed"})
				return false, true
			}
			s.Tr.add(Ev{K: "read", Tag: tagOfGroupEvent(e)})
			return true, false
		case <-tm:
			return false, false
		}
	}
	select {
	case m, open := <-s.Tun.Inbound():
		if !open {
			s.Tr.add(Ev{K: "inb-closed"})
			return false, true
		}
		s.Tr.add(Ev{K: "read", Tag: tagOf(m)})
		return true, false
	case <-tm:
		return false, false
	}
}

// probeClosed: Close has just returned to this goroutine; a non-blocking receive from Inbound() must
// report "closed" (a closed channel never blocks and never yields a value from a parked sender).
func (s *Sim) probeClosed(lane int) {
	select {
	case _, open := <-s.Tun.Inbound():
		if open {
			s.Tr.add(Ev{K: "probe", Lane: lane, Note: "message"})
		} else {
			s.Tr.add(Ev{K: "probe", Lane: lane, Note: "closed"})
		}
	default:
		s.Tr.add(Ev{K: "probe", Lane: lane, Note: "open"})
	}
}

// handoffPending reports whether a goroutine of the library is still about to hand an inbound
// message over (parked in pushInbound, or the group layer blocked on its output channel).
func handoffPending() bool {
	buf := make([]byte, 1<<20)
	buf = buf[:runtime.Stack(buf, true)]
	for _, g := range strings.Split(string(buf), "\n\n") {
		if strings.Contains(g, "pushInbound.func") || (strings.Contains(g, "knx.serveGroupInbound") && strings.Contains(g, "chan send")) {
			return true
		}
	}
	return false
}

// Result is what the executor hands to the oracles besides the trace.
type Result struct {
	Untaken       int // frames injected that the client had not taken from its socket when the cleanup began
	ConnErr       string
	Events        []Ev
	InboundClosed bool // observed by the consumer or the final drain
	FinalDrainUs  int64
	CloseHung     bool // the cleanup Close did not return within the limit
	DrainTimedOut bool // Inbound() did not close within the limit after Close
	ReceiverStuck bool // after Close the socket's receiver stayed blocked handing over a frame nobody reads
}

// Run executes the plan. It must be called inside the bubble when s.Bubble is set.
func (s *Sim) Run() *Result {
	p := s.Plan
	res := &Result{}
	s.Tr = &Trace{start: time.Now()}
	var local net.Addr = &net.UDPAddr{IP: net.IPv4(192, 168, 7, 9), Port: 43671}
	if p.Cfg.TCP {
		local = &net.TCPAddr{IP: net.IPv4(192, 168, 7, 9), Port: 43671}
	}
	s.Sock = common.NewMemSock(local)
	s.Sock.OnSend = s.onSend
	s.Sock.OnDelivered = func(svc knxnet.Service) {
		if cr, ok := svc.(*knxnet.ConnRes); ok && cr.Status == knxnet.NoError {
			atomic.AddInt32(&s.connTaken, 1)
		}
		e := Ev{K: "dlv"}
		describe(&e, svc)
		s.Tr.add(e)
	}
	if p.Ref != nil {
		s.ref = newRefState(p.Ref)
	}
	cfg := knx.TunnelConfig{ResendInterval: us(p.Cfg.ResendUs), ResponseTimeout: us(p.Cfg.TimeoutUs), HeartbeatInterval: us(p.Cfg.HeartbeatUs),
		UseTCP: p.Cfg.TCP, SendLocalAddress: p.Cfg.SendLocal}
	var err error
	if p.Group {
		s.GTun, err = knx.VerifNewGroupTunnel(s.Sock, cfg)
		s.Tun = s.GTun.Tunnel
	} else {
		s.Tun, err = knx.VerifNewTunnel(s.Sock, knxnet.TunnelLayerData, cfg)
	}
	s.Tr.add(Ev{K: "conn<", Err: errStr(err)})
	s.connected.Store(true)
	if err != nil {
		res.ConnErr = err.Error()
		s.finish()
		res.Events = s.Tr.snapshot()
		return res
	}
	var lanes sync.WaitGroup
	for i, steps := range p.Senders {
		i, steps := i, steps
		lanes.Add(1)
		go func() {
			defer lanes.Done()
			for _, st := range steps {
				if st.AfterConn > 0 && !s.Bubble {
					for until := time.Now().Add(3 * time.Second); atomic.LoadInt32(&s.connTaken) < int32(st.AfterConn) && time.Now().Before(until); {
						time.Sleep(20 * time.Microsecond)
					}
				}
				time.Sleep(us(st.AfterUs))
				s.doSend(i+1, st.Tag)
			}
		}()
	}
	if len(p.Gw) > 0 || s.ref != nil {
		lanes.Add(1)
		go func() {
			defer lanes.Done()
			for _, g := range p.Gw {
				time.Sleep(us(g.AfterUs))
				s.gwStep(g)
			}
			if s.ref != nil {
				s.ref.busToClient(s)
			}
		}()
	}
	var drainDone chan struct{}
	if len(p.Consumer) > 0 {
		lanes.Add(1)
		go func() {
			defer lanes.Done()
			for _, c := range p.Consumer {
				time.Sleep(us(c.AfterUs))
				switch c.Kind {
				case "read":
					for k := 0; k < c.N; k++ {
						got, closed := s.readOne(us(c.WithinUs))
						if closed {
							res.InboundClosed = true
							return
						}
						if !got {
							break
						}
					}
				case "drain":
					drainDone = make(chan struct{})
					go func() {
						defer close(drainDone)
						for {
							if _, closed := s.readOne(-1); closed {
								res.InboundClosed = true
								return
							}
						}
					}()
					return
				}
			}
		}()
	}
	for i, steps := range p.Closers {
		i, steps := i, steps
		lanes.Add(1)
		go func() {
			defer lanes.Done()
			for _, c := range steps {
				time.Sleep(us(c.AfterUs))
				switch c.Kind {
				case "close":
					s.Tr.add(Ev{K: "close>", Lane: i + 1})
					s.Tun.Close()
					s.Tr.add(Ev{K: "close<", Lane: i + 1})
					s.probeClosed(i + 1)
				case "send":
					s.doSend(100+i, c.Tag)
				}
			}
		}()
	}
	lanes.Wait()
	time.Sleep(us(p.TailUs))
	if s.Bubble {
		// settle: whatever the last lane event set in motion at this very instant completes before the
		// cleanup begins (the fake clock only advances once every goroutine is blocked), so that the
		// cleanup Close never shares an instant with a delivery
		time.Sleep(time.Microsecond)
	}
	if p.DrainUs > 0 && drainDone == nil && !res.InboundClosed {
		deadline := time.Now().Add(s.Limit)
		for {
			got, closed := s.readOne(us(p.DrainUs))
			if closed {
				res.InboundClosed = true
			}
			if got {
				continue
			}
			// On the fake clock silence is conclusive (time only advances when everything is blocked). On the
			// real clock a hand-off parked in the library may simply not have run yet.
			if s.Bubble || closed || time.Now().After(deadline) || (s.Sock.Pending() == 0 && !handoffPending()) {
				break
			}
		}
		s.Tr.add(Ev{K: "note", Note: "application drained Inbound"})
	}
	// frames the gateway sent that the client has not taken from its socket although everything has settled (fake
	// clock only, where "settled" is conclusive)
	if s.Bubble {
		res.Untaken = s.Sock.Untaken()
	}
	// cleanup: close the tunnel (idempotent), drain what the application has not read, stop timers
	s.Tr.add(Ev{K: "note", Note: "cleanup"})
	closeDone := make(chan struct{})
	go func() {
		defer close(closeDone)
		s.Tr.add(Ev{K: "close>", Lane: 99})
		s.Tun.Close()
		s.Tr.add(Ev{K: "close<", Lane: 99})
		s.probeClosed(99)
	}()
	limit := s.Limit
	if limit <= 0 {
		limit = 5 * time.Second
	}
	if s.Bubble {
		lt := time.NewTimer(limit)
		select {
		case <-closeDone:
		case <-lt.C:
			res.CloseHung = true
			s.Tr.add(Ev{K: "note", Note: "cleanup Close did not return within the limit"})
		}
		lt.Stop()
	} else if !common.WaitLive(closeDone, limit) {
		// real clock: the limit counts time in which this process was being scheduled (a machine that stands still for
		// a while makes every timer fire at once afterwards)
		res.CloseHung = true
		s.Tr.add(Ev{K: "note", Note: "cleanup Close did not return within the limit"})
	}
	t0 := time.Now()
	if drainDone != nil {
		lt := time.NewTimer(limit)
		select {
		case <-drainDone:
		case <-lt.C:
			res.DrainTimedOut = true
		}
		lt.Stop()
	} else if !res.InboundClosed {
		for {
			got, closed := s.readOne(limit)
			if closed {
				res.InboundClosed = true
				break
			}
			if !got {
				res.DrainTimedOut = true
				break
			}
		}
	}
	res.FinalDrainUs = int64(time.Since(t0) / time.Microsecond)
	res.ReceiverStuck = !s.finish()
	res.Events = s.Tr.snapshot()
	return res
}

// finish stops the harness side. It reports whether the socket's receiver (the pump) could end: a
// receiver still blocked handing a frame to a client that no longer reads is a leaked goroutine.
func (s *Sim) finish() (receiverEnded bool) {
	s.mu.Lock()
	s.stopped = true
	s.mu.Unlock()
	s.Sock.Close()
	lim := 2 * time.Second
	if s.Bubble {
		lim = time.Hour
	}
	tm := time.NewTimer(lim)
	defer tm.Stop()
	select {
	case <-s.Sock.PumpDone():
		receiverEnded = true
	case <-tm.C:
		// release it so that the harness itself leaves nothing behind
		go func() {
			for range s.Sock.Inbound() {
			}
		}()
		<-s.Sock.PumpDone()
	}
	s.timers.Wait()
	return receiverEnded
}

// withEdgeChannels lets a fifth of the plans run on the channels 0 and 255.
func withEdgeChannels(rt *rapid.T, p *Plan) *Plan {
	if rapid.IntRange(0, 4).Draw(rt, "edge-channels") == 0 {
		p.ChanEdge = true
	}
	return p
}
