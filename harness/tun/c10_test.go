package tun

import (
	"fmt"

	"pgregory.net/rapid"
	"verif/harness/common"
)

// oracleC10 judges the Close clauses on a trace. exact=true: fake clock (durations are exact).
func oracleC10(p *Plan, res *Result, exact bool) *common.Fail {
	evs := res.Events
	T := int64(p.Cfg.TimeoutUs) * 1000
	type cl struct {
		i0, i1 int
		t0, t1 int64
		lane   int
	}
	var closes []*cl
	open := map[int]*cl{}
	for i, e := range evs {
		switch e.K {
		case "close>":
			c := &cl{i0: i, i1: -1, t0: e.T, lane: e.Lane}
			closes = append(closes, c)
			open[e.Lane] = c
		case "close<":
			if c := open[e.Lane]; c != nil {
				c.i1, c.t1 = i, e.T
				delete(open, e.Lane)
			}
		}
	}
	if res.CloseHung {
		return failTrace(evs, len(evs)-1, "close-hung", "Close did not return within the limit")
	}
	for _, c := range closes {
		if c.i1 < 0 {
			return failTrace(evs, c.i0, "close-hung", "Close called at %s (lane %d) never returned", ms(c.t0), c.lane)
		}
	}
	if len(closes) == 0 {
		return nil
	}
	first := closes[0]
	// was a reconnect attempt under way when Close was called?
	reconnecting, reconnSince := false, int64(0)
	connected := false
	sockUsable := true
	for k, e := range evs {
		// everything before the Close call, plus whatever happened at the very instant of the call (a
		// disconnect request taken at that instant starts a reconnect that Close then has to wait for)
		if k >= first.i0 && e.T > first.t0 {
			break
		}
		switch {
		case e.K == "conn<":
			connected = e.Err == ""
		case e.K == "out" && e.Svc == "ConnReq" && connected && !reconnecting:
			reconnecting, reconnSince = true, e.T
		case e.K == "dlv" && e.Svc == "ConnRes" && reconnecting && e.St != 0x24 && e.St != 0x25:
			reconnecting = false
		case e.K == "sockdie":
			sockUsable = false
			reconnecting = false
		}
	}
	if reconnecting && first.t0 >= reconnSince+T {
		reconnecting = false
	}
	dur := first.t1 - first.t0
	if exact {
		if dur > T {
			return failTrace(evs, first.i1, "close-slow", "Close took %s, longer than the response timeout %s", ms(dur), ms(T))
		}
		if !reconnecting && dur != 0 {
			return failTrace(evs, first.i1, "close-slow", "Close took %s although no reconnect attempt was under way (nothing to wait for)", ms(dur))
		}
	}
	// disconnect requests
	nDisc := 0
	for i, e := range evs {
		if e.K == "out" && e.Svc == "DiscReq" {
			nDisc++
			if nDisc > 1 {
				return failTrace(evs, i, "disconnect-twice", "a second disconnect request left the socket at %s", ms(e.T))
			}
			if exact && e.T != first.t0 {
				return failTrace(evs, i, "disconnect-time", "the disconnect request left at %s, Close was called at %s", ms(e.T), ms(first.t0))
			}
		}
	}
	if sockUsable && nDisc != 1 {
		return failTrace(evs, first.i1, "disconnect-missing", "the socket was usable when Close was called at %s but %d disconnect requests were sent", ms(first.t0), nDisc)
	}
	// whenever *any* Close call has returned to its caller, the tunnel is completely shut down for that caller
	for i, e := range evs {
		switch {
		case e.K == "probe" && e.Note != "closed":
			what := "is still open and empty"
			if e.Note == "message" {
				what = "still delivered a telegram"
			}
			return failTrace(evs, i, "inbound-open-after-close", "Close had returned (lane %d) but Inbound() %s: a non-blocking receive right after Close did not report the channel closed", e.Lane, what)
		case e.K == "send<" && e.Lane >= 100 && e.Err == "":
			return failTrace(evs, i, "send-after-close-ok", "a Send issued right after this goroutine's Close had returned (closer lane %d, telegram %d) reported success", e.Lane-100, e.Tag)
		}
	}
	// after the first Close has returned
	for i, e := range evs {
		if i <= first.i1 {
			continue
		}
		switch e.K {
		case "read":
			if exact && e.T > first.t1 {
				return failTrace(evs, i, "read-after-close", "a telegram was read from Inbound at %s, after Close had returned at %s (Inbound must be closed by then)", ms(e.T), ms(first.t1))
			}
		case "send<":
			// find the start
			for j := i - 1; j >= 0; j-- {
				if evs[j].K == "send>" && evs[j].Tag == e.Tag && evs[j].Lane == e.Lane {
					if j > first.i1 && evs[j].T > first.t1 {
						if e.Err == "" {
							return failTrace(evs, i, "send-after-close-ok", "Send(tag %d) started at %s, after Close had returned at %s, and reported success", e.Tag, ms(evs[j].T), ms(first.t1))
						}
						if exact && e.T != evs[j].T {
							return failTrace(evs, i, "send-after-close-slow", "Send(tag %d) after Close took %s to fail", e.Tag, ms(e.T-evs[j].T))
						}
					}
					break
				}
			}
		case "out":
			if e.T > first.t1 && e.Svc != "DiscReq" && exact {
				// a frame emitted strictly after Close returned: only a Send probe may try (and memsock then refuses)
				return failTrace(evs, i, "frame-after-close", "a %s left the socket at %s, after Close had returned at %s", e.Svc, ms(e.T), ms(first.t1))
			}
		}
	}
	if res.ReceiverStuck {
		return failTrace(evs, len(evs)-1, "receiver-leak", "after Close the socket's receiver goroutine stayed blocked handing over a frame that arrived around Close (e.g. the disconnect response): nobody reads the socket any more, so that goroutine never ends")
	}
	if !res.InboundClosed || res.DrainTimedOut {
		return failTrace(evs, len(evs)-1, "inbound-not-closed", "Inbound() was not closed after Close (a range loop over it would not end)")
	}
	return nil
}

// addClosers injects Close at a generated point of a plan, followed by a second Close and a Send.
func addClosers(rt *rapid.T, p *Plan, lanes int, horizonUs int) {
	p.Closers = nil
	for l := 0; l < lanes; l++ {
		at := rapid.IntRange(0, horizonUs).Draw(rt, fmt.Sprintf("close-at-%d", l))
		steps := []CloseStep{{AfterUs: at + 33, Kind: "close"}}
		if rapid.Bool().Draw(rt, "second-close") {
			steps = append(steps, CloseStep{AfterUs: rapid.SampledFrom([]int{1, 1, 1000, 60000}).Draw(rt, "second-after"), Kind: "close"})
		}
		if rapid.Bool().Draw(rt, "send-after") {
			steps = append(steps, CloseStep{AfterUs: rapid.SampledFrom([]int{1, 1, 1000, 60000}).Draw(rt, "send-after-us"), Kind: "send", Tag: 900000 + l})
		}
		p.Closers = append(p.Closers, steps)
	}
}

func planHorizonUs(p *Plan) int {
	h := 0
	for _, g := range p.Gw {
		h += g.AfterUs
	}
	for _, lane := range p.Senders {
		s := 0
		for _, st := range lane {
			s += st.AfterUs + p.Cfg.ResendUs/2
		}
		if s > h {
			h = s
		}
	}
	if p.Cfg.HeartbeatUs < hugeUs/2 && 2*p.Cfg.HeartbeatUs > h {
		h = 2 * p.Cfg.HeartbeatUs
	}
	return h + 1000
}

func genPlanC10B(rt *rapid.T) *Plan {
	var p *Plan
	if rapid.IntRange(0, 7).Draw(rt, "backlog") == 0 {
		// an application that is not reading while a long run of telegrams is accepted (every one of them parked),
		// then Close: however large the backlog, Close returns and releases everything
		p = genPlanC04(rt, false)
		p.Gw = nil
		n := rapid.SampledFrom([]int{33, 64, 65, 66, 100, 129, 200, 257}).Draw(rt, "backlog-n") + rapid.IntRange(0, 3).Draw(rt, "backlog-jitter")
		for i := 0; i < n; i++ {
			p.Gw = append(p.Gw, GwStep{AfterUs: 211, Kind: "req", Chan: "cur", Seq: "exp", Tag: 1000 + i})
		}
		p.Consumer, p.DrainUs, p.FailOut = nil, 0, nil
		addClosers(rt, p, 1, n*211)
		if rapid.IntRange(0, 3).Draw(rt, "close-mid-stream") > 0 {
			p.Closers[0][0].AfterUs = n*211 + 500 + rapid.IntRange(0, 3000).Draw(rt, "close-after-backlog")
		}
		return p
	}
	switch rapid.IntRange(0, 3).Draw(rt, "base") {
	case 0:
		p = genPlanC03B(rt)
	case 1:
		p = genPlanC04(rt, false)
		if len(p.Gw) > 60 {
			p.Gw = p.Gw[:60]
		}
	default:
		p = genPlanC09(rt)
	}
	if rapid.Bool().Draw(rt, "reader") {
		p.Consumer = []ConStep{{AfterUs: 50, Kind: "drain"}}
	} else if rapid.Bool().Draw(rt, "no-reader") {
		p.Consumer = nil
		p.DrainUs = 0
	}
	addClosers(rt, p, 1, planHorizonUs(p))
	return p
}

func classifyC10(p *Plan, res *Result, rec *common.Rec) bool {
	evs := res.Events
	ci := -1
	for i, e := range evs {
		if e.K == "close>" && e.Lane != 99 {
			ci = i
			break
		}
	}
	if ci < 0 {
		rec.Class("close only at cleanup")
		return false
	}
	t := evs[ci].T
	pendingSend, reconn, parked, hb := false, false, false, false
	sends := map[int]bool{}
	unread := 0
	lastHbReq, lastHbRes := int64(-1), int64(-1)
	for _, e := range evs[:ci] {
		switch {
		case e.K == "send>":
			sends[e.Tag] = true
		case e.K == "send<":
			delete(sends, e.Tag)
		case e.K == "out" && e.Svc == "ConnReq" && e.T > 0:
			reconn = true
		case e.K == "dlv" && e.Svc == "ConnRes":
			reconn = false
		case e.K == "dlv" && e.Svc == "TunnelReq":
			unread++
		case e.K == "read":
			unread--
		case e.K == "out" && e.Svc == "ConnStateReq":
			lastHbReq = e.T
		case e.K == "dlv" && e.Svc == "ConnStateRes":
			lastHbRes = e.T
		}
	}
	pendingSend = len(sends) > 0
	parked = unread > 1
	hb = lastHbReq >= 0 && lastHbRes < lastHbReq && t-lastHbReq < int64(p.Cfg.TimeoutUs)*1000
	for name, b := range map[string]bool{"close during a pending Send": pendingSend, "close during a reconnect": reconn, "close with parked deliveries": parked, "close during a heartbeat exchange": hb} {
		if b {
			rec.Class(name)
		}
	}
	return pendingSend || reconn || parked || hb
}

// genPlanC10R: free-running concurrency on the real clock (run under the race detector).
func genPlanC10R(rt *rapid.T) *Plan {
	c := Cfg{ResendUs: rapid.SampledFrom([]int{2000, 3000, 5000}).Draw(rt, "resend"), HeartbeatUs: rapid.SampledFrom([]int{8000, 15000, 30000}).Draw(rt, "heartbeat")}
	c.TimeoutUs = c.ResendUs * rapid.IntRange(3, 10).Draw(rt, "timeout-mult")
	c.TCP = rapid.IntRange(0, 5).Draw(rt, "tcp") == 0
	p := &Plan{Cfg: c, DefConn: okFate(300), DefHb: okFate(200), DefAck: okFate(100), DefDisc: okFate(300), DrainUs: 0}
	if rapid.IntRange(0, 3).Draw(rt, "hb-flaky") == 0 {
		for i := 0; i < 6; i++ {
			p.Hb = append(p.Hb, Fate{Act: rapid.SampledFrom([]string{"ok", "lose", "lose", "status"}).Draw(rt, "hb"), Status: 0x21, DelayUs: 200})
		}
	}
	for i := 0; i < rapid.IntRange(0, 10).Draw(rt, "ack-faults"); i++ {
		p.Ack = append(p.Ack, Fate{Act: rapid.SampledFrom([]string{"ok", "lose", "ok", "wrongseq", "status"}).Draw(rt, "ack"), Status: 0x29, SeqDelta: 1, DelayUs: rapid.IntRange(50, c.ResendUs*2).Draw(rt, "ack-d")})
	}
	lanes := rapid.IntRange(1, 6).Draw(rt, "senders")
	tag := 1
	for l := 0; l < lanes; l++ {
		var lane []AppStep
		for i := 0; i < rapid.IntRange(1, 8).Draw(rt, "n"); i++ {
			lane = append(lane, AppStep{AfterUs: rapid.IntRange(0, 4000).Draw(rt, "gap"), Tag: tag})
			tag++
		}
		p.Senders = append(p.Senders, lane)
	}
	horizon := 40000
	ng := rapid.IntRange(0, 30).Draw(rt, "gw")
	for i := 0; i < ng; i++ {
		g := GwStep{AfterUs: rapid.IntRange(0, horizon/(ng+1)).Draw(rt, "gw-after")}
		switch rapid.IntRange(0, 9).Draw(rt, "gw-kind") {
		case 0, 1:
			g.Kind, g.Chan = "discreq", "cur"
		case 2:
			g.Kind, g.Chan = "hbres", "cur"
		default:
			g.Kind, g.Chan, g.Seq, g.Tag = "req", "cur", "exp", 5000+i*8
			g.Repeat = rapid.IntRange(0, 3).Draw(rt, "rep")
		}
		p.Gw = append(p.Gw, g)
	}
	if rapid.Bool().Draw(rt, "reader") {
		p.Consumer = []ConStep{{AfterUs: 10, Kind: "drain"}}
	}
	if rapid.IntRange(0, 3).Draw(rt, "closers-during-dead-reconnect") == 0 {
		// the gateway ends the connection and then stays silent: the reconnect attempt lasts the whole response
		// timeout. Several closers arrive one after the other while the first is still waiting for it; every one of
		// them must find the tunnel completely shut down when *its* Close returns.
		p.Cfg.TimeoutUs = rapid.SampledFrom([]int{60000, 120000}).Draw(rt, "dead-timeout")
		p.Conn = []Fate{okFate(300)}
		p.DefConn = Fate{Act: "lose"}
		at := rapid.IntRange(1000, 8000).Draw(rt, "dead-disc-at")
		p.Gw = append([]GwStep{{AfterUs: at, Kind: "discreq", Chan: "cur"}}, p.Gw...)
		p.Closers = nil
		n := rapid.IntRange(2, 4).Draw(rt, "dead-closers")
		for l := 0; l < n; l++ {
			off := at + 2000 + l*rapid.IntRange(3000, 12000).Draw(rt, "dead-closer-gap")
			steps := []CloseStep{{AfterUs: off, Kind: "close"}}
			if rapid.Bool().Draw(rt, "dead-send-after") {
				steps = append(steps, CloseStep{AfterUs: 1, Kind: "send", Tag: 910000 + l})
			}
			p.Closers = append(p.Closers, steps)
		}
		return p
	}
	addClosers(rt, p, rapid.IntRange(1, 4).Draw(rt, "closers"), horizon)
	return p
}
