//go:build go1.25

package tun

import (
	"fmt"
	"os"
	"runtime"
	"strings"
	"testing"
	"testing/synctest"
	"time"

	"verif/harness/common"
)

// BubbleResult adds what only the bubble can tell: goroutines left over and a deadlock report.
type BubbleResult struct {
	*Result
	Leaked   int    // goroutines of the bubble still alive after cleanup (harness goroutines have all exited)
	LeakDump string // their stacks
	Panic    string // panic raised by the bubble (deadlock: all goroutines blocked / blocked goroutines remain)
}

// bubbleGoroutines returns the stacks of the goroutines belonging to a synctest bubble, except the caller.
func bubbleGoroutines() []string {
	buf := make([]byte, 1<<20)
	buf = buf[:runtime.Stack(buf, true)]
	var out []string
	for i, g := range strings.Split(string(buf), "\n\n") {
		if i == 0 {
			continue // the calling goroutine comes first
		}
		if strings.Contains(strings.SplitN(g, "\n", 2)[0], "synctest bubble") && !infraGoroutine(g) {
			out = append(out, g)
		}
	}
	return out
}

// bubbleWD watches the real time a virtual-time case takes (set by the bubble jobs): inside a bubble time only moves
// when every goroutine is durably blocked, so a client goroutine that waits for a lock held by one that waits for time
// (or that spins) stops the clock for good. Cases take milliseconds; after 90 s the case in flight is recorded as a
// violation of kind "hang" with all stacks and the process ends, instead of sitting out the job's time limit.
var bubbleWD *common.Watchdog

// runBubble executes plan on the fake clock. One bubble per case.
func runBubble(t *testing.T, plan *Plan) (br *BubbleResult) {
	br = &BubbleResult{}
	if bubbleWD != nil {
		bubbleWD.Enter("the virtual-time run of the plan (virtual time stopped: a client goroutine waits for a lock whose holder waits for time, or spins)", plan)
		defer bubbleWD.Leave()
	}
	var sim *Sim
	func() {
		defer func() {
			if p := recover(); p != nil {
				br.Panic = fmt.Sprint(p)
				if sim != nil && sim.Tr != nil && br.Result == nil {
					br.Result = &Result{Events: sim.Tr.snapshot()}
				}
			}
		}()
		synctest.Test(t, func(t *testing.T) {
			sim = &Sim{Plan: plan, Bubble: true, Limit: 200*us(plan.Cfg.TimeoutUs) + time.Hour}
			br.Result = sim.Run()
			synctest.Wait()
			if gs := bubbleGoroutines(); len(gs) > 0 {
				br.Leaked = len(gs)
				br.LeakDump = strings.Join(gs, "\n\n")
			}
		})
	}()
	if br.Result == nil {
		br.Result = &Result{}
	}
	br.Result.Events = causalOrder(br.Result.Events)
	return br
}

func TestBubbleSmoke(t *testing.T) {
	if os.Getenv("VERIF_SMOKE") == "" {
		t.Skip("development aid")
	}
	ok := Fate{Act: "ok", DelayUs: 1300}
	p := &Plan{
		Cfg:     Cfg{ResendUs: 500000, TimeoutUs: 10000000, HeartbeatUs: 10000000},
		Conn:    []Fate{{Act: "lose"}, {Act: "lose"}, {Act: "ok", DelayUs: 200700, Ch: 7}},
		DefConn: ok, DefHb: ok, DefAck: ok, DefDisc: ok,
		Ack:      []Fate{{Act: "lose"}, {Act: "ok", DelayUs: 1300}},
		Senders:  [][]AppStep{{{AfterUs: 100100, Tag: 1}, {AfterUs: 100, Tag: 2}}},
		Gw:       []GwStep{{AfterUs: 2000200, Kind: "req", Tag: 100}, {AfterUs: 200, Kind: "req", Tag: 101, Seq: "prev"}, {AfterUs: 9000000, Kind: "discreq"}},
		Consumer: []ConStep{{AfterUs: 3000300, Kind: "read", N: 5, WithinUs: 1000}},
		TailUs:   15000000,
	}
	br := runBubble(t, p)
	for _, l := range Dump(br.Events, 0) {
		t.Log(l)
	}
	t.Logf("leaked=%d panic=%q closed=%v\n%s", br.Leaked, br.Panic, br.InboundClosed, br.LeakDump)
}

// infraGoroutine reports whether a bubble goroutine belongs to synctest itself.
func infraGoroutine(stack string) bool {
	return strings.Contains(stack, "internal/synctest.Run(") || strings.Contains(stack, "testingSynctestTest(")
}
