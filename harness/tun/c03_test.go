package tun

import (
	"fmt"
	"sort"
	"strings"

	"pgregory.net/rapid"
	"verif/harness/common"
)

// ------------------------------------------------------------------------------------------------
// C03 reference sender model (Appendix A.1 of DESIGN.md), evaluated after the fact on the trace.
// ------------------------------------------------------------------------------------------------

type ackRec struct {
	idx       int
	a         int64 // time the client took the acknowledgement from its socket
	epoch     int
	ch        int
	seq, st   int
	consumed  bool
	uncertain bool // may or may not have been consumed (same-instant race inside the client)
}

type sendRec struct {
	i0, i1  int // indices of send> and send<
	lane    int
	tag     int
	t0, ret int64
	err     string
	outs    []int // indices of the tunnelling requests emitted in between
}

// collectSends pairs send> / send< events and attributes the tunnelling requests emitted in
// between (valid for a single sender lane).
func collectSends(evs []Ev) (sends []*sendRec, stray []int) {
	var cur *sendRec
	for i, e := range evs {
		switch {
		case e.K == "send>":
			cur = &sendRec{i0: i, i1: -1, lane: e.Lane, tag: e.Tag, t0: e.T}
			sends = append(sends, cur)
		case e.K == "send<" && cur != nil && cur.tag == e.Tag:
			cur.i1, cur.ret, cur.err = i, e.T, e.Err
			cur = nil
		case e.K == "out" && e.Svc == "TunnelReq":
			if cur != nil {
				cur.outs = append(cur.outs, i)
			} else {
				stray = append(stray, i)
			}
		}
	}
	return
}

// oracleC03B judges a single-sender history on the fake clock (exact times).
func oracleC03B(p *Plan, res *Result) *common.Fail {
	evs := res.Events
	r := int64(p.Cfg.ResendUs) * 1000
	T := int64(p.Cfg.TimeoutUs) * 1000
	// pass 1: phases, acknowledgement arrivals, epoch boundaries
	w := newWalker()
	phaseAt := make([]int, len(evs))
	chanAt := make([]int, len(evs))
	epochAt := make([]int, len(evs))
	var acks []*ackRec
	for i, e := range evs {
		if e.K == "dlv" && e.Svc == "TunnelRes" && w.ph == phConnected && e.Ch == w.ch {
			acks = append(acks, &ackRec{idx: i, a: e.T, epoch: w.epoch, ch: e.Ch, seq: e.Seq, st: e.St})
		}
		w.step(e)
		// a reconnect that got no OK response within the timeout terminates the tunnel
		phaseAt[i], chanAt[i], epochAt[i] = w.ph, w.ch, w.epoch
	}
	termAt := w.termAt
	sends, stray := collectSends(evs)
	if len(stray) > 0 {
		return failTrace(evs, stray[0], "stray-request", "a tunnelling request left the socket at %s although no Send was in progress", ms(evs[stray[0]].T))
	}
	// a Send that begins at the very instant the client takes a connect response: which of the two the client does first
	// is not determined (on the fake clock both happen "at once"); such a history is not judged
	connAt := map[int64]bool{}
	for _, e := range evs {
		if e.K == "dlv" && e.Svc == "ConnRes" {
			connAt[e.T] = true
		}
	}
	for _, s := range sends {
		if connAt[s.t0] {
			return nil
		}
	}
	sn, snEpoch := 0, -1
	for _, s := range sends {
		if s.i1 < 0 {
			return failTrace(evs, s.i0, "send-never-returned", "Send(tag %d) started at %s never returned", s.tag, ms(s.t0))
		}
		ph, ch, ep := phaseAt[s.i0], chanAt[s.i0], epochAt[s.i0]
		if ep != snEpoch {
			sn, snEpoch = 0, ep
		}
		// ---- transmissions: identical, numbered sn, spaced exactly r
		if p.Cfg.TCP {
			if ph == phTerminated && len(s.outs) == 0 && s.err != "" {
				continue
			}
			if len(s.outs) == 1 && evs[s.outs[0]].Err != "" && s.ret == s.t0 && strings.Contains(s.err, "scripted socket error") {
				continue // the socket refused the transmission: the Send reports that error
			}
			if len(s.outs) != 1 || s.ret != s.t0 || (s.err != "" && ph != phTerminated) {
				return failTrace(evs, s.i1, "tcp-send", "TCP tunnel: Send(tag %d) emitted %d requests, returned %q after %s (expected one request, immediate nil)",
					s.tag, len(s.outs), s.err, ms(s.ret-s.t0))
			}
			o := evs[s.outs[0]]
			if o.Seq != 0 || o.Tag != s.tag || o.Ch != ch {
				return failTrace(evs, s.outs[0], "tcp-send", "TCP tunnel: request of Send(tag %d) carries channel %d seq %d tag %d (expected channel %d, seq 0)", s.tag, o.Ch, o.Seq, o.Tag, ch)
			}
			continue
		}
		if len(s.outs) == 0 {
			if s.err == "" {
				return failTrace(evs, s.i1, "success-without-request", "Send(tag %d) returned nil without transmitting anything", s.tag)
			}
			continue
		}
		first := evs[s.outs[0]]
		for k, oi := range s.outs {
			o := evs[oi]
			if o.Hex != first.Hex {
				return failTrace(evs, oi, "retransmission-differs", "retransmission %d of Send(tag %d) differs from the first transmission:\n first %s\n this  %s", k, s.tag, first.Hex, o.Hex)
			}
			if want := s.t0 + int64(k)*r; o.T != want {
				return failTrace(evs, oi, "resend-timing", "transmission %d of Send(tag %d) left at %s, expected %s (first transmission %s + %d x resend interval %s)",
					k, s.tag, ms(o.T), ms(want), ms(s.t0), k, ms(r))
			}
		}
		if first.Tag != s.tag {
			return failTrace(evs, s.outs[0], "wrong-payload", "Send(tag %d) transmitted a request with payload tag %d", s.tag, first.Tag)
		}
		if first.Ch != ch {
			return failTrace(evs, s.outs[0], "wrong-channel", "Send(tag %d) used channel %d, the connection's channel is %d", s.tag, first.Ch, ch)
		}
		if ph != phTerminated && first.Seq != sn {
			return failTrace(evs, s.outs[0], "sequence-number", "Send(tag %d) used sequence number %d; %d acknowledged requests precede it in this epoch, so it must be %d",
				s.tag, first.Seq, sn, sn)
		}
		// a transmission the socket refused ends the Send at once with that error; nothing was acknowledged
		sockFailed := false
		for k, oi := range s.outs {
			if evs[oi].Err == "" {
				continue
			}
			sockFailed = true
			if k != len(s.outs)-1 || s.ret != evs[oi].T || !strings.Contains(s.err, "scripted socket error") {
				return failTrace(evs, s.i1, "socket-error-handling", "transmission %d of Send(tag %d) failed with a socket error at %s; the Send returned %q at %s after %d transmissions (it must return that error at once)",
					k, s.tag, ms(evs[oi].T), s.err, ms(s.ret), len(s.outs))
			}
		}
		if sockFailed {
			for _, a := range acks {
				if !a.consumed && a.a >= s.t0 && a.a < s.ret {
					a.consumed = true // taken and ignored while the Send was waiting
				}
			}
			continue
		}
		if s.ret > s.t0+T {
			return failTrace(evs, s.i1, "send-late", "Send(tag %d) returned %s after its first transmission, later than the response timeout %s", s.tag, ms(s.ret-s.t0), ms(T))
		}
		// ---- outcome
		D := s.t0 + T
		type cand struct {
			a   *ackRec
			tau int64
		}
		var cands []cand
		if ph != phTerminated {
			for _, a := range acks {
				if a.ch != ch || a.consumed || a.a+r < s.t0 || a.a > D {
					continue
				}
				tau := a.a
				if tau < s.t0 {
					tau = s.t0
				}
				cands = append(cands, cand{a, tau})
			}
			sort.SliceStable(cands, func(i, j int) bool { return cands[i].tau < cands[j].tau })
		}
		certain := func(c cand) bool { return !c.a.uncertain && c.a.a+r > s.t0 && c.a.a < D }
		tauStar := int64(-1)
		for _, c := range cands {
			if c.a.seq == sn && certain(c) {
				tauStar = c.tau
				break
			}
		}
		explained := false
		var decider *ackRec
		// (a) decided by a matching acknowledgement
		for _, c := range cands {
			if c.a.seq != sn || c.tau != s.ret {
				continue
			}
			if tauStar >= 0 && c.tau > tauStar {
				continue
			}
			if (c.a.st == 0) == (s.err == "") && (c.a.st == 0 || isRejectedErr(s.err)) {
				explained, decider = true, c.a
				break
			}
		}
		// (b) timeout
		if !explained && s.ret == D && isTimeoutErr(s.err) && (tauStar < 0 || tauStar >= D) {
			explained = true
		}
		// (c) the tunnel terminated while the Send was waiting
		if !explained && termAt >= 0 && s.ret >= termAt && s.err != "" && (tauStar < 0 || termAt <= tauStar) && (isTerminatedErr(s.err) || ph != phConnected || s.ret == termAt) {
			explained = true
		}
		// a Send that started outside a connected epoch can only fail
		if !explained && ph != phConnected && s.err != "" {
			explained = true
		}
		if !explained {
			avail := ""
			for _, c := range cands {
				avail += fmt.Sprintf(" [seq %d status %d taken by the client at %s, usable from %s%s]", c.a.seq, c.a.st, ms(c.a.a), ms(c.tau), map[bool]string{true: ", maybe already consumed", false: ""}[c.a.uncertain])
			}
			if avail == "" {
				avail = " none"
			}
			return failTrace(evs, s.i1, "send-outcome", "Send(tag %d, seq %d) first transmitted at %s returned %q at %s (+%s). The reference model cannot explain this: "+
				"acknowledgements for the current channel available to it:%s; timeout would be at %s", s.tag, sn, ms(s.t0), s.err, ms(s.ret), ms(s.ret-s.t0), avail, ms(D))
		}
		// ---- number of transmissions
		nMin := int((s.ret - s.t0 + r - 1) / r)
		if nMin < 1 {
			nMin = 1
		}
		nMax := nMin
		if s.ret > s.t0 && (s.ret-s.t0)%r == 0 {
			nMax++
		}
		if len(s.outs) < nMin || len(s.outs) > nMax {
			return failTrace(evs, s.i1, "resend-count", "Send(tag %d) was pending for %s and transmitted %d times; with resend interval %s it must be %d..%d",
				s.tag, ms(s.ret-s.t0), len(s.outs), ms(r), nMin, nMax)
		}
		// ---- bookkeeping
		for _, c := range cands {
			switch {
			case c.a == decider:
				c.a.consumed = true
			case c.tau < s.ret:
				c.a.consumed = true
			case c.tau == s.ret:
				c.a.uncertain = true
			}
		}
		// acknowledgements of another connection that were still on offer (the hand-over goroutine keeps one for a resend
		// interval, whatever happens to the connection meanwhile) are taken and ignored by the waiting Send like any
		// other that does not match: they are gone afterwards, also when a later connection gets their channel number again
		if ph != phTerminated {
			for _, a := range acks {
				if a.ch == ch || a.consumed || a.a+r < s.t0 || a.a > s.ret {
					continue
				}
				tau := a.a
				if tau < s.t0 {
					tau = s.t0
				}
				switch {
				case tau < s.ret:
					a.consumed = true
				case tau == s.ret:
					a.uncertain = true
				}
			}
		}
		if decider != nil {
			sn = (sn + 1) % 256
		}
	}
	return nil
}

// ------------------------------------------------------------------------------------------------
// generator
// ------------------------------------------------------------------------------------------------

const hugeUs = 10_000_000_000_000 // ~115 days: "never" for heartbeats

func okFate(d int) Fate { return Fate{Act: "ok", DelayUs: d} }

// oddUs turns a millisecond count into microseconds that are never a multiple of 1 ms, so that no
// harness event coincides with a client timer (all client intervals are multiples of 1 ms).
func oddUs(msCount, salt int) int { return msCount*1000 + 137 + 100*(salt%8) }

func genCfg(rt *rapid.T, allowTCP bool) Cfg {
	rms := rapid.SampledFrom([]int{50, 100, 250, 500, 500, 1000, 2000, 73}).Draw(rt, "resend_ms")
	var tms int
	switch rapid.IntRange(0, 4).Draw(rt, "timeout_kind") {
	case 4:
		// a response timeout below the resend interval: the Send gives up before its first repetition would be due
		tms = rapid.SampledFrom([]int{rms - 1, rms / 2, rms / 10, 7}).Draw(rt, "timeout_below_resend")
		if tms < 1 {
			tms = 1
		}
	case 0:
		tms = 20 * rms
	case 1:
		tms = rms * rapid.IntRange(1, 30).Draw(rt, "timeout_mult")
	default:
		tms = rms*rapid.IntRange(1, 12).Draw(rt, "timeout_mult2") + rapid.IntRange(1, rms-1).Draw(rt, "timeout_off")
	}
	c := Cfg{ResendUs: rms * 1000, TimeoutUs: tms * 1000, HeartbeatUs: hugeUs}
	if allowTCP && rapid.IntRange(0, 9).Draw(rt, "tcp") == 0 {
		c.TCP = true
	}
	return c
}

// genDelay draws a response delay around the interesting boundaries of cfg.
func genDelay(rt *rapid.T, c Cfg, label string) int {
	r, T := c.ResendUs, c.TimeoutUs
	base := rapid.SampledFrom([]int{0, 0, 0, r, r, 2 * r, 3 * r, T, T, T - r, T / 2}).Draw(rt, label+"-base")
	off := rapid.SampledFrom([]int{137, 337, -263, -463, 1137, -1263}).Draw(rt, label+"-off")
	if rapid.IntRange(0, 4).Draw(rt, label+"-free") == 0 {
		base = rapid.IntRange(0, T/1000+2*r/1000).Draw(rt, label+"-ms") * 1000
	}
	d := base + off
	if d < 37 {
		d = 137
	}
	return d
}

func genAckFate(rt *rapid.T, c Cfg, label string) Fate {
	switch rapid.IntRange(0, 11).Draw(rt, label+"-kind") {
	case 0, 1, 2:
		return Fate{Act: "lose"}
	case 3, 4, 5:
		return Fate{Act: "ok", DelayUs: genDelay(rt, c, label)}
	case 6:
		return Fate{Act: "ok", DelayUs: genDelay(rt, c, label), Dup: rapid.IntRange(1, 3).Draw(rt, label+"-dup"), DupDelayUs: rapid.SampledFrom([]int{1, 211, c.ResendUs - 211, c.ResendUs + 211}).Draw(rt, label+"-dd")}
	case 7:
		return Fate{Act: "status", Status: rapid.IntRange(1, 255).Draw(rt, label+"-st"), DelayUs: genDelay(rt, c, label)}
	case 8, 9:
		return Fate{Act: "wrongseq", SeqDelta: rapid.SampledFrom([]int{-1, 1, -2, 2, 17, 128, 255}).Draw(rt, label+"-sd"), DelayUs: genDelay(rt, c, label)}
	case 10:
		return Fate{Act: "foreign", Ch: rapid.IntRange(0, 253).Draw(rt, label+"-ch"), DelayUs: genDelay(rt, c, label)}
	}
	return Fate{Act: "ok", DelayUs: 137}
}

func genPlanC03B(rt *rapid.T) *Plan {
	c := genCfg(rt, true)
	p := &Plan{Cfg: c, DefConn: okFate(1337), DefHb: okFate(1337), DefAck: okFate(137), DefDisc: okFate(1337)}
	if rapid.IntRange(0, 2).Draw(rt, "gateway-reuses-channel") == 0 {
		p.DefConn.Ch = -1
	}
	var n int
	switch rapid.IntRange(0, 19).Draw(rt, "size") {
	case 0:
		n = rapid.IntRange(256, 600).Draw(rt, "n-long")
	case 1, 2, 3:
		n = rapid.IntRange(9, 60).Draw(rt, "n-mid")
	default:
		n = rapid.IntRange(1, 8).Draw(rt, "n")
	}
	nf := n * 2
	if n > 60 {
		nf = rapid.IntRange(0, 40).Draw(rt, "faults-long")
	}
	if rapid.IntRange(0, 5).Draw(rt, "all-lost-default") == 0 && n <= 8 {
		p.DefAck = Fate{Act: "lose"}
	}
	for i := 0; i < nf; i++ {
		if n > 60 && rapid.IntRange(0, 3).Draw(rt, "okgap") > 0 {
			p.Ack = append(p.Ack, okFate(137))
			continue
		}
		p.Ack = append(p.Ack, genAckFate(rt, c, fmt.Sprintf("ack%d", i)))
	}
	var lane []AppStep
	for i := 0; i < n; i++ {
		gap := rapid.SampledFrom([]int{0, 0, 1, 5, c.ResendUs/1000 - 1, c.ResendUs / 1000, c.ResendUs/1000 + 1, 3 * c.ResendUs / 1000}).Draw(rt, "gap")
		if gap < 0 {
			gap = 0
		}
		lane = append(lane, AppStep{AfterUs: gap*1000 + 100, Tag: i + 1})
	}
	p.Senders = [][]AppStep{lane}
	if rapid.IntRange(0, 3).Draw(rt, "socket-errors") == 0 {
		for i := 0; i < rapid.IntRange(1, 3).Draw(rt, "n-sock-fail"); i++ {
			p.FailOut = append(p.FailOut, rapid.IntRange(0, 2*n+2).Draw(rt, "sock-fail-at"))
		}
	}
	span := n * (c.ResendUs / 1000) * 2
	if span > 4*c.TimeoutUs/1000 && n <= 8 {
		span = 4 * c.TimeoutUs / 1000
	}
	ng := rapid.IntRange(0, 6).Draw(rt, "gw-steps")
	for i := 0; i < ng; i++ {
		g := GwStep{AfterUs: rapid.IntRange(0, span/(ng+1)+1).Draw(rt, "gw-after")*1000 + 211}
		switch rapid.IntRange(0, 5).Draw(rt, "gw-kind") {
		case 0, 1, 2:
			g.Kind = "ack"
			g.Chan = rapid.SampledFrom([]string{"cur", "cur", "cur", "other"}).Draw(rt, "gw-chan")
			g.AbsCh = rapid.IntRange(0, 253).Draw(rt, "gw-absch")
			g.Abs = rapid.SampledFrom([]int{0, 0, 1, 1, 2, 3, 4, 255, 254}).Draw(rt, "gw-seq")
			if rapid.IntRange(0, 4).Draw(rt, "gw-seq-free") == 0 {
				g.Abs = rapid.IntRange(0, 255).Draw(rt, "gw-seq-any")
			}
			if rapid.IntRange(0, 3).Draw(rt, "gw-ack-bad") == 0 {
				g.Status = rapid.IntRange(1, 255).Draw(rt, "gw-st")
			}
			g.Repeat = rapid.SampledFrom([]int{0, 0, 0, 1, 2}).Draw(rt, "gw-rep")
		case 3:
			g.Kind = "junk"
		default:
			if c.TCP {
				g.Kind = "junk"
			} else {
				g.Kind, g.Chan = "discreq", "cur"
			}
		}
		p.Gw = append(p.Gw, g)
	}
	return p
}

// classifyC03 labels a history for the evidence histogram and decides non-triviality.
func classifyC03(p *Plan, res *Result, rec *common.Rec) bool {
	nt := false
	sends, _ := collectSends(res.Events)
	wrap, retrans, errs, recon := false, false, false, false
	for _, s := range sends {
		if len(s.outs) > 1 {
			retrans = true
		}
		if s.err != "" {
			errs = true
		}
		if len(s.outs) > 0 && res.Events[s.outs[0]].Seq == 255 {
			wrap = true
		}
	}
	ignored := false
	for _, e := range res.Events {
		if e.K == "dlv" && e.Svc == "DiscReq" {
			recon = true
		}
	}
	for _, f := range p.Ack {
		if f.Act == "wrongseq" || f.Act == "foreign" || f.Dup > 0 || f.Act == "status" {
			ignored = true
		}
	}
	for _, g := range p.Gw {
		if g.Kind == "ack" {
			ignored = true
		}
	}
	for name, b := range map[string]bool{"retransmission": retrans, "failed-send": errs, "wrap-255-0": wrap, "odd-acks": ignored} {
		if b {
			rec.Class(name)
			nt = true
		}
	}
	if recon {
		rec.Class("reconnect")
	}
	if p.Cfg.TCP {
		rec.Class("tcp")
	} else {
		rec.Class("udp")
	}
	return nt
}

// ------------------------------------------------------------------------------------------------
// C03 on the real clock: 1..8 concurrent senders, timing-free / lower-bound invariants on the
// totally ordered outbound log (no reconnects in these plans: a single epoch).
// ------------------------------------------------------------------------------------------------

func oracleC03R(p *Plan, res *Result) *common.Fail {
	evs := res.Events
	r := int64(p.Cfg.ResendUs) * 1000
	T := int64(p.Cfg.TimeoutUs) * 1000
	type blk struct {
		tag, seq int
		first    int
		firstT   int64
		hex      string
		n        int
	}
	var blocks []*blk
	seenTag := map[int]bool{}
	result := map[int]string{}
	returned := map[int]bool{}
	retT := map[int]int64{}
	started := map[int]bool{}
	for i, e := range evs {
		switch {
		case e.K == "send>":
			started[e.Tag] = true
		case e.K == "send<":
			result[e.Tag], returned[e.Tag], retT[e.Tag] = e.Err, true, e.T
		case e.K == "out" && e.Svc == "TunnelReq":
			if len(blocks) > 0 && blocks[len(blocks)-1].tag == e.Tag {
				b := blocks[len(blocks)-1]
				if e.Hex != b.hex {
					return failTrace(evs, i, "retransmission-differs", "retransmission of telegram %d differs from its first transmission:\n first %s\n this  %s", e.Tag, b.hex, e.Hex)
				}
				b.n++
				if !p.Cfg.TCP && e.T < b.firstT+int64(b.n-1)*r {
					return failTrace(evs, i, "resend-early", "transmission %d of telegram %d left %s after the first one; the resend interval is %s", b.n-1, e.Tag, ms(e.T-b.firstT), ms(r))
				}
				continue
			}
			if seenTag[e.Tag] {
				return failTrace(evs, i, "interleaved", "a request for telegram %d left the socket after a request for telegram %d had been transmitted in between: two requests were unacknowledged at the same time",
					e.Tag, blocks[len(blocks)-1].tag)
			}
			seenTag[e.Tag] = true
			blocks = append(blocks, &blk{tag: e.Tag, seq: e.Seq, first: i, firstT: e.T, hex: e.Hex, n: 1})
		}
	}
	for tag := range started {
		if !returned[tag] {
			return failTrace(evs, len(evs)-1, "send-never-returned", "Send(telegram %d) had not returned when every other lane had finished and the tunnel was closed", tag)
		}
	}
	// the request of block k must not leave before the Send of block k-1 has been decided... (order only:
	// the previous Send may log its return a little later, so only the sequence numbers are asserted)
	sn := 0
	for _, b := range blocks {
		if p.Cfg.TCP {
			if b.seq != 0 || b.n != 1 {
				return failTrace(evs, b.first, "tcp-send", "TCP tunnel: telegram %d was transmitted %d times with sequence number %d", b.tag, b.n, b.seq)
			}
			continue
		}
		if b.seq != sn {
			return failTrace(evs, b.first, "sequence-number", "telegram %d was transmitted with sequence number %d; %d acknowledged requests precede it, so it must be %d", b.tag, b.seq, sn, sn)
		}
		err := result[b.tag]
		if err == "" || isRejectedErr(err) {
			sn = (sn + 1) % 256
		}
		if isTimeoutErr(err) && retT[b.tag]-b.firstT < T {
			return failTrace(evs, b.first, "timeout-early", "Send(telegram %d) reported a response timeout %s after its first transmission; the timeout is %s", b.tag, ms(retT[b.tag]-b.firstT), ms(T))
		}
	}
	if p.Cfg.TCP {
		return nil
	}
	// every success / rejection is covered by an injected matching acknowledgement not attributed before
	type ackIn struct {
		t       int64
		seq, st int
		used    bool
	}
	var acks []*ackIn
	for _, e := range evs {
		if e.K == "inj" && e.Svc == "TunnelRes" {
			acks = append(acks, &ackIn{t: e.T, seq: e.Seq, st: e.St})
		}
	}
	for _, b := range blocks {
		err := result[b.tag]
		if err != "" && !isRejectedErr(err) {
			continue
		}
		ok := false
		for _, a := range acks {
			if !a.used && a.seq == b.seq && (a.st == 0) == (err == "") && a.t <= retT[b.tag] {
				a.used, ok = true, true
				break
			}
		}
		if !ok {
			return failTrace(evs, b.first, "result-without-ack", "Send(telegram %d, sequence number %d) returned %q but no acknowledgement with that number and a matching status had been handed to the client that was not already used by another Send", b.tag, b.seq, err)
		}
	}
	return nil
}

func genPlanC03R(rt *rapid.T) *Plan {
	c := Cfg{ResendUs: rapid.SampledFrom([]int{2000, 3000, 5000}).Draw(rt, "resend"), HeartbeatUs: 3_600_000_000}
	c.TimeoutUs = c.ResendUs * rapid.IntRange(3, 12).Draw(rt, "timeout-mult")
	c.TCP = rapid.IntRange(0, 9).Draw(rt, "tcp") == 0
	p := &Plan{Cfg: c, DefConn: okFate(300), DefHb: okFate(200), DefAck: okFate(60), DefDisc: okFate(300)}
	lanes := rapid.IntRange(1, 8).Draw(rt, "senders")
	total := rapid.IntRange(lanes, 40).Draw(rt, "sends")
	if rapid.IntRange(0, 9).Draw(rt, "long") == 0 {
		total = rapid.IntRange(260, 600).Draw(rt, "sends-long")
	}
	nf := rapid.IntRange(0, 12).Draw(rt, "faults")
	for i := 0; i < nf; i++ {
		f := Fate{DelayUs: rapid.IntRange(20, 2*c.ResendUs).Draw(rt, "ack-d")}
		switch rapid.IntRange(0, 6).Draw(rt, "ack-kind") {
		case 0, 1:
			f.Act = "lose"
		case 2:
			f.Act, f.Dup, f.DupDelayUs = "ok", rapid.IntRange(1, 3).Draw(rt, "dup"), rapid.IntRange(1, c.ResendUs).Draw(rt, "dd")
		case 3:
			f.Act, f.Status = "status", rapid.IntRange(1, 255).Draw(rt, "st")
		case 4:
			f.Act, f.SeqDelta = "wrongseq", rapid.SampledFrom([]int{-1, 1, 2, 128}).Draw(rt, "sd")
		case 5:
			f.Act, f.Ch = "foreign", rapid.IntRange(0, 253).Draw(rt, "ch")
		default:
			f.Act = "ok"
		}
		p.Ack = append(p.Ack, f)
	}
	p.Senders = make([][]AppStep, lanes)
	for i := 0; i < total; i++ {
		p.Senders[i%lanes] = append(p.Senders[i%lanes], AppStep{AfterUs: rapid.SampledFrom([]int{0, 0, 0, 30, 400}).Draw(rt, "gap"), Tag: i + 1})
	}
	return p
}
