//go:build go1.25

package tun

import (
	"testing"
	"time"

	"pgregory.net/rapid"
	"verif/harness/common"
)

func TestC04B(t *testing.T) {
	rec := common.NewRec("C04", "bubble")
	bubbleWD = common.NewWatchdog(rec, 90*time.Second)
	completed := false
	defer func() { rec.Finish(completed) }()
	run := func(p *Plan) *common.Fail {
		rec.InFlight(p)
		br := runBubble(t, p)
		rec.Landed()
		if f := bubbleFail(br); f != nil {
			return f
		}
		if br.ConnErr != "" {
			rec.Inconclusive("initial connect failed")
			return nil
		}
		if f := oracleC04(p, br.Result, true); f != nil {
			return f
		}
		if classifyC04(p, br.Result, rec) {
			rec.NonTrivial(common.HashJSON(p))
		}
		rec.Sample("bubble", map[string]any{"plan_gw_steps": len(p.Gw), "trace_head": Dump(br.Events, 0)[:min(len(br.Events), 30)]})
		return nil
	}
	common.Drive(t, rec, func(rt *rapid.T) *Plan { return withEdgeChannels(rt, genPlanC04(rt, false)) }, run)
	completed = true
}
