package tun

import (
	"fmt"
	"sort"

	"pgregory.net/rapid"
	"verif/harness/common"
)

// oracleC04 is the reference receiver (Appendix A.2): which requests are accepted, which are
// acknowledged, and that the application reads exactly the accepted ones (as a multiset; order is C17).
// exact=true (fake clock): every acknowledgement leaves at the instant its request was taken.
func oracleC04(p *Plan, res *Result, exact bool) *common.Fail {
	evs := res.Events
	w := newWalker()
	exp, expEpoch := 0, 0
	type ack struct {
		t       int64
		ch, seq int
		idx     int
	}
	var want, got []ack
	accepted := map[int]int{}
	acceptIdx := map[int]int{}
	read := map[int]int{}
	nAccepted := 0
	closing := false
	late := map[int]bool{}
	for i, e := range evs {
		if e.K == "close>" {
			// Once the application has called Close the receiver's duties end: whether a request that still arrives (a
			// reconnect that was under way may even complete) is acknowledged is not prescribed, and nothing more can be
			// delivered. What Close itself owes is C10's subject.
			closing = true
		}
		if closing && (e.K == "dlv" || e.K == "out") && (e.Svc == "TunnelReq" || e.Svc == "TunnelRes") {
			if e.K == "dlv" && e.Svc == "TunnelReq" {
				late[e.Tag] = true // may or may not still reach the application
			}
			continue
		}
		if e.K == "dlv" && e.Svc == "TunnelReq" && w.ph == phConnected && e.Ch == w.ch {
			if w.epoch != expEpoch {
				exp, expEpoch = 0, w.epoch
			}
			switch {
			case p.Cfg.TCP:
				accepted[e.Tag]++
				acceptIdx[e.Tag] = i
				nAccepted++
			case e.Seq == exp:
				accepted[e.Tag]++
				acceptIdx[e.Tag] = i
				nAccepted++
				want = append(want, ack{e.T, w.ch, e.Seq, i})
				exp = (exp + 1) % 256
			case e.Seq == (exp+255)%256:
				want = append(want, ack{e.T, w.ch, e.Seq, i})
			}
		}
		if e.K == "out" && e.Svc == "TunnelRes" {
			if e.St != 0 {
				return failTrace(evs, i, "ack-status", "the client acknowledged with status %d; acknowledgements of accepted or repeated requests carry status OK", e.St)
			}
			got = append(got, ack{e.T, e.Ch, e.Seq, i})
		}
		if e.K == "read" {
			read[e.Tag]++
		}
		if e.K == "note" && e.Note == "cleanup" && !closing && w.ph == phConnected && res.Untaken > 0 {
			return failTrace(evs, i, "receiver-stalled", "the tunnel is open and connected (channel %d), everything has settled, yet %d frames the gateway sent are still waiting in the socket: the client has stopped taking frames, so requests with the right channel and number are neither delivered nor acknowledged",
				w.ch, res.Untaken)
		}
		w.step(e)
		if w.ph == phConnected && w.epoch != expEpoch {
			exp, expEpoch = 0, w.epoch
		}
	}
	for k := 0; k < len(want) || k < len(got); k++ {
		switch {
		case k >= len(got):
			return failTrace(evs, want[k].idx, "ack-missing", "request with channel %d seq %d taken at %s must be acknowledged (it is the expected or the immediately preceding number) but no acknowledgement left the socket",
				want[k].ch, want[k].seq, ms(want[k].t))
		case k >= len(want):
			return failTrace(evs, got[k].idx, "ack-unexpected", "acknowledgement channel %d seq %d left the socket at %s; the reference receiver acknowledges nothing here (foreign channel, number further off, or reconnect in progress)",
				got[k].ch, got[k].seq, ms(got[k].t))
		case want[k].ch != got[k].ch || want[k].seq != got[k].seq || (exact && want[k].t != got[k].t):
			return failTrace(evs, got[k].idx, "ack-mismatch", "acknowledgement #%d: expected channel %d seq %d at %s, the client sent channel %d seq %d at %s",
				k, want[k].ch, want[k].seq, ms(want[k].t), got[k].ch, got[k].seq, ms(got[k].t))
		}
	}
	// delivered multiset == accepted multiset (the plan drains Inbound before the tunnel is closed)
	tags := map[int]bool{}
	for t := range accepted {
		tags[t] = true
	}
	for t := range read {
		tags[t] = true
	}
	var ts []int
	for t := range tags {
		ts = append(ts, t)
	}
	sort.Ints(ts)
	for _, t := range ts {
		a, r := accepted[t], read[t]
		if late[t] && a == 0 && r <= 1 {
			continue
		}
		switch {
		case r > a && a == 0:
			return failTrace(evs, len(evs)-1, "delivered-not-accepted", "the application read telegram %d, which the reference receiver never accepted (wrong channel / out of sequence / repetition)", t)
		case r > a:
			return failTrace(evs, acceptIdx[t], "delivered-twice", "telegram %d was accepted %d time(s) but read %d times from Inbound", t, a, r)
		case r < a && !res.terminatedEarly():
			return failTrace(evs, acceptIdx[t], "accepted-lost", "telegram %d was accepted (and acknowledged) but the application, which drained Inbound while the tunnel was open, read it %d of %d times", t, r, a)
		}
	}
	return nil
}

// terminatedEarly: the tunnel ended on its own before the application drained it (then undelivered
// telegrams may legitimately be gone).
func (r *Result) terminatedEarly() bool {
	for _, e := range r.Events {
		if e.K == "note" && e.Note == "application drained Inbound" {
			return false
		}
		if e.K == "inb-closed" || e.K == "sockdie" {
			return true
		}
	}
	return true
}

func genPlanC04(rt *rapid.T, realClock bool) *Plan {
	c := genCfg(rt, false)
	if rapid.IntRange(0, 6).Draw(rt, "tcp") == 0 {
		c.TCP = true
	}
	p := &Plan{Cfg: c, DefConn: okFate(1337), DefHb: okFate(1337), DefAck: okFate(137), DefDisc: okFate(1337), DrainUs: 1000}
	var n int
	switch rapid.IntRange(0, 19).Draw(rt, "size") {
	case 0:
		n = rapid.IntRange(300, 1000).Draw(rt, "n-long")
	case 1, 2, 3:
		n = rapid.IntRange(31, 120).Draw(rt, "n-mid")
	default:
		n = rapid.IntRange(1, 30).Draw(rt, "n")
	}
	inSeqBias := rapid.IntRange(5, 9).Draw(rt, "in-seq-bias")
	total := 0
	// a gateway with a single connection slot assigns the same channel again at every reconnect; such plans get
	// more reconnects, and the counters must restart all the same
	reconnectOdds := 60
	if !c.TCP && rapid.IntRange(0, 3).Draw(rt, "same-channel") == 0 {
		p.DefConn.Ch = -1
		reconnectOdds = rapid.SampledFrom([]int{6, 15, 60}).Draw(rt, "reconnect-odds")
	}
	for i := 0; i < n; i++ {
		g := GwStep{AfterUs: rapid.SampledFrom([]int{0, 0, 0, 0, 1, 2, 7, 40}).Draw(rt, "gap")*1000 + 211, Kind: "req", Tag: 1000 + i*8, Chan: "cur", Seq: "exp"}
		if rapid.IntRange(0, 9).Draw(rt, "seqclass") >= inSeqBias {
			g.Seq = rapid.SampledFrom([]string{"prev", "prev", "next", "far", "far", "abs"}).Draw(rt, "seq")
			g.Abs = rapid.IntRange(0, 255).Draw(rt, "abs")
		}
		if rapid.IntRange(0, 11).Draw(rt, "chanclass") == 0 {
			g.Chan = "other"
			g.AbsCh = rapid.IntRange(0, 253).Draw(rt, "absch")
		}
		if rapid.IntRange(0, 14).Draw(rt, "rep") == 0 {
			g.Repeat = rapid.IntRange(1, 4).Draw(rt, "repeat") // back-to-back copies: the 2nd.. are repetitions of the previous number
		}
		if rapid.IntRange(0, 40).Draw(rt, "stray-connres") == 0 {
			g = GwStep{AfterUs: g.AfterUs, Kind: "connres-stray", Chan: rapid.SampledFrom([]string{"cur", "cur", "other"}).Draw(rt, "stray-chan"), AbsCh: rapid.IntRange(0, 253).Draw(rt, "stray-absch"), Tag: g.Tag}
		}
		if !c.TCP && rapid.IntRange(0, 25).Draw(rt, "stray-ack") == 0 {
			g = GwStep{AfterUs: g.AfterUs, Kind: "ack-stray", Chan: rapid.SampledFrom([]string{"cur", "cur", "cur", "other"}).Draw(rt, "stray-ack-chan"), AbsCh: rapid.IntRange(0, 253).Draw(rt, "stray-ack-absch"),
				Abs: rapid.SampledFrom([]int{0, 0, 1, 2, 255}).Draw(rt, "stray-ack-seq"), Status: rapid.SampledFrom([]int{0, 0, 0, 0x29}).Draw(rt, "stray-ack-status"), Tag: g.Tag}
		}
		if rapid.IntRange(0, reconnectOdds).Draw(rt, "reconnect") == 0 {
			g = GwStep{AfterUs: g.AfterUs, Kind: "discreq", Chan: "cur", Tag: g.Tag}
			if rapid.IntRange(0, 2).Draw(rt, "behind") == 0 {
				g.Behind = rapid.IntRange(1, 4).Draw(rt, "behind-n")
			}
		}
		total += g.AfterUs
		p.Gw = append(p.Gw, g)
	}
	if !c.TCP && !realClock && n <= 120 && rapid.IntRange(0, 4).Draw(rt, "heartbeat-failure") == 0 {
		// a heartbeat exchange that stays unanswered in the middle of the stream: the client gives the connection up and
		// connects again (C09); the numbering restarts with the new connection and with nothing else - a client that
		// carries on with the old connection must carry on with its numbering too
		p.Cfg.ResendUs = rapid.SampledFrom([]int{2000, 3000, 5000}).Draw(rt, "hbf-resend")
		p.Cfg.TimeoutUs = p.Cfg.ResendUs * rapid.IntRange(1, 3).Draw(rt, "hbf-timeout-resends")
		hb := total / rapid.IntRange(2, 5).Draw(rt, "hbf-fraction")
		if hb < p.Cfg.TimeoutUs+p.Cfg.ResendUs+1000 {
			hb = p.Cfg.TimeoutUs + p.Cfg.ResendUs + 1000
		}
		p.Cfg.HeartbeatUs = (hb/1000 + 1) * 1000
		for i := 0; i < rapid.IntRange(0, 2).Draw(rt, "hbf-good-exchanges"); i++ {
			p.Hb = append(p.Hb, okFate(337))
		}
		for i := 0; i < p.Cfg.TimeoutUs/p.Cfg.ResendUs+2; i++ {
			p.Hb = append(p.Hb, Fate{Act: "lose"})
		}
		// traffic behind the failure
		p.Gw = append(p.Gw, GwStep{AfterUs: p.Cfg.HeartbeatUs + p.Cfg.TimeoutUs + 4211, Kind: "req", Tag: 1000 + n*8, Chan: "cur", Seq: "exp", Repeat: rapid.IntRange(2, 9).Draw(rt, "hbf-after")})
		total += p.Cfg.HeartbeatUs + p.Cfg.TimeoutUs + 4211
	}
	if rapid.IntRange(0, 2).Draw(rt, "socket-errors") == 0 {
		// the socket refuses some of the client's transmissions (mostly acknowledgements in these plans):
		// the telegram is accepted and delivered all the same, the gateway will simply repeat its request
		for i := 0; i < rapid.IntRange(1, 4).Draw(rt, "n-sock-fail"); i++ {
			p.FailOut = append(p.FailOut, rapid.IntRange(0, n+1).Draw(rt, "sock-fail-at"))
		}
	}
	// consumer behaviour
	switch rapid.IntRange(0, 3).Draw(rt, "consumer") {
	case 0: // always ready
		p.Consumer = []ConStep{{AfterUs: 50, Kind: "drain"}}
	case 1: // stalled for the whole stream: only the final drain reads
	default: // intermittent
		k := rapid.IntRange(1, 8).Draw(rt, "reads")
		for i := 0; i < k; i++ {
			p.Consumer = append(p.Consumer, ConStep{AfterUs: rapid.IntRange(0, total/k+1000).Draw(rt, "stall") + 57, Kind: "read",
				N: rapid.IntRange(1, 40).Draw(rt, "n-read"), WithinUs: rapid.SampledFrom([]int{1, 300, 5000}).Draw(rt, "within")})
		}
	}
	return p
}

func classifyC04(p *Plan, res *Result, rec *common.Rec) bool {
	prev, off, foreign, recon, wrap := false, false, false, false, false
	if p.DefConn.Ch == -1 {
		rec.Class("gateway reuses the channel at every reconnect")
	}
	for _, g := range p.Gw {
		switch {
		case g.Kind == "discreq":
			recon = true
		case g.Chan == "other":
			foreign = true
		case g.Seq == "prev" || g.Repeat > 0:
			prev = true
		case g.Seq == "next" || g.Seq == "far" || g.Seq == "abs":
			off = true
		}
	}
	parked, maxParked := 0, 0
	for _, e := range res.Events {
		switch {
		case e.K == "out" && e.Svc == "TunnelRes" && e.Seq == 255:
			wrap = true
		case e.K == "out" && e.Svc == "TunnelRes":
		case e.K == "read":
			parked--
		}
		if e.K == "dlv" && e.Svc == "TunnelReq" {
			parked++
			if parked > maxParked {
				maxParked = parked
			}
		}
	}
	if len(p.Hb) > 0 {
		rec.Class("heartbeat exchange unanswered in the middle of the stream")
	}
	for name, b := range map[string]bool{"repetition-of-previous": prev, "out-of-window": off, "foreign-channel": foreign, "reconnect": recon, "wrap-255-0": wrap, "stall>=2-parked": maxParked >= 2} {
		if b {
			rec.Class(name)
		}
	}
	rec.Class(fmt.Sprintf("tcp=%v", p.Cfg.TCP))
	return wrap || (prev && off) || (maxParked >= 2 && (prev || off || foreign))
}
