//go:build go1.25

package tun

import (
	"testing"
	"time"

	"pgregory.net/rapid"
	"verif/harness/common"
)

func TestC10B(t *testing.T) {
	rec := common.NewRec("C10", "bubble")
	bubbleWD = common.NewWatchdog(rec, 90*time.Second)
	completed := false
	defer func() { rec.Finish(completed) }()
	run := func(p *Plan) *common.Fail {
		rec.InFlight(p)
		br := runBubble(t, p)
		rec.Landed()
		if f := bubbleFail(br); f != nil {
			return f
		}
		if br.ConnErr != "" {
			rec.Inconclusive("initial connect failed")
			return nil
		}
		if f := oracleC10(p, br.Result, true); f != nil {
			return f
		}
		if br.Leaked > 0 {
			f := common.Failf("goroutine-leak", "%d goroutine(s) started by the tunnel are still alive after Close returned and every timer has been given the chance to fire", br.Leaked)
			f.Extra = map[string]any{"goroutines": br.LeakDump, "trace": Dump(br.Events, 60)}
			return f
		}
		if classifyC10(p, br.Result, rec) {
			rec.NonTrivial(common.HashJSON(p))
		}
		rec.Sample("bubble", map[string]any{"plan": p})
		return nil
	}
	common.Drive(t, rec, func(rt *rapid.T) *Plan { return withEdgeChannels(rt, genPlanC10B(rt)) }, run)
	completed = true
}
