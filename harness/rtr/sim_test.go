// Package rtr runs the real knx.Router (and the group layers) on an in-memory socket on the real
// clock. A router paces itself with a mutex held across a sleep, which a synctest bubble cannot
// run (a goroutine waiting for a mutex is not durably blocked), so every timing oracle here is a
// lower bound or an order (DESIGN.md 2.6).
package rtr

import (
	"encoding/binary"
	"errors"
	"fmt"
	"runtime"
	"strings"
	"sync"
	"sync/atomic"
	"time"

	"github.com/vapourismo/knx-go/knx"
	"github.com/vapourismo/knx-go/knx/cemi"
	"github.com/vapourismo/knx-go/knx/knxnet"
	"verif/harness/common"
)

// RSend: wait AfterUs, then Send a message tagged Tag; Fail scripts a socket error for its transmission.
type RSend struct {
	AfterUs int  `json:"after_us"`
	Tag     int  `json:"tag"`
	Fail    bool `json:"fail,omitempty"`
	// Bad: the application hands Send a message that cannot be put into a frame (an L_Data.ind without a transport
	// unit: the encoder panics inside the socket's Send) and recovers from the panic, as a server's request handler
	// does; the client must be as usable afterwards as before
	Bad bool `json:"bad,omitempty"`
}

// RNet is one scripted event from the network.
//
//	kind: ind (routing indication, Tag) | busy (WaitMs, Ctl) | lost (Count) | junk |
//	      lostq (lost issued at quiescence: senders are held, the previous resend has been observed)
type RNet struct {
	AfterUs int    `json:"after_us"`
	Kind    string `json:"kind"`
	Tag     int    `json:"tag,omitempty"`
	WaitMs  int    `json:"wait_ms,omitempty"`
	Ctl     int    `json:"ctl,omitempty"`
	Count   int    `json:"count,omitempty"`
	Repeat  int    `json:"repeat,omitempty"`
	Status  int    `json:"status,omitempty"` // busy / lost: the indication's device-state octet
}

// fromWire builds the indication from its octets as a router puts them on the wire and decodes them with the library
// (busy and lost indications reach the client through the frame decoder; a hand-built struct would bypass it).
func fromWire(service byte, status, a, b int) knxnet.Service {
	var w []byte
	if service == 0x32 { // ROUTING_BUSY: structure length 6, device state, wait time, control
		w = []byte{0x06, 0x10, 0x05, 0x32, 0x00, 0x0c, 0x06, byte(status), byte(a >> 8), byte(a), byte(b >> 8), byte(b)}
	} else { // ROUTING_LOST_MESSAGE: structure length 4, device state, count
		w = []byte{0x06, 0x10, 0x05, 0x31, 0x00, 0x0a, 0x04, byte(status), byte(a >> 8), byte(a)}
	}
	var svc knxnet.Service
	if _, err := knxnet.Unpack(w, &svc); err != nil {
		return nil
	}
	return svc
}

// RCon is a consumer step: read up to N messages, giving up after WithinUs without one; kind drain reads until closed.
type RCon struct {
	AfterUs  int    `json:"after_us"`
	Kind     string `json:"kind"`
	N        int    `json:"n,omitempty"`
	WithinUs int    `json:"within_us,omitempty"`
}

// RPlan is one generated router case.
type RPlan struct {
	PauseUs  int       `json:"pause_us"`
	Retain   int       `json:"retain"`
	Senders  [][]RSend `json:"senders,omitempty"`
	Net      []RNet    `json:"net,omitempty"`
	Consumer []RCon    `json:"consumer,omitempty"`
	CloseUs  int       `json:"close_us,omitempty"` // > 0: Close the router this long after the start
	DrainUs  int       `json:"drain_us,omitempty"`
	Group    bool      `json:"group,omitempty"`
	Scenario string    `json:"scenario,omitempty"`
	// FinalLost: after everything, at quiescence, issue lost(65535) to read back the retained window.
	FinalLost bool `json:"final_lost,omitempty"`
	// FailAt: indices (counting every routing indication handed to the socket, from 0) whose
	// transmission fails - this is how a retransmission can fail, not only an original transmission.
	FailAt []int `json:"fail_at,omitempty"`
	// SettleUs > 0: once every lane has finished, wait until no frame has left the socket for this long (and the send
	// lock is free) before the probe Send and the Close - retransmissions triggered by an un-gated lost indication
	// are still under way then. NoProbe omits the probe Send.
	SettleUs int  `json:"settle_us,omitempty"`
	NoProbe  bool `json:"no_probe,omitempty"`
}

// REv is one trace entry; T/T2 are nanoseconds since the start (T2: exit stamp of a transmission).
type REv struct {
	T    int64  `json:"t"`
	T2   int64  `json:"t2,omitempty"`
	K    string `json:"k"` // out | inj | dlv | send> | send< | read | inb-closed | close | probe | note
	Tag  int    `json:"tag,omitempty"`
	Lane int    `json:"lane,omitempty"`
	Err  string `json:"err,omitempty"`
	N    int    `json:"n,omitempty"`
	Note string `json:"note,omitempty"`
}

func (e REv) String() string {
	s := fmt.Sprintf("%10.3fms %-8s tag=%d", float64(e.T)/1e6, e.K, e.Tag)
	if e.T2 != 0 {
		s += fmt.Sprintf(" exit=%.3fms", float64(e.T2)/1e6)
	}
	if e.Lane != 0 {
		s += fmt.Sprintf(" lane=%d", e.Lane)
	}
	if e.N != 0 {
		s += fmt.Sprintf(" n=%d", e.N)
	}
	if e.Err != "" {
		s += " err=" + e.Err
	}
	if e.Note != "" {
		s += " " + e.Note
	}
	return s
}

func dump(evs []REv, n int) []string {
	if n > 0 && len(evs) > n {
		evs = evs[len(evs)-n:]
	}
	out := make([]string, len(evs))
	for i, e := range evs {
		out[i] = e.String()
	}
	return out
}

const noTag = -1

func tagData(tag int) []byte {
	b := []byte{0, 0, 0, 0, 0}
	binary.BigEndian.PutUint32(b[1:], uint32(tag))
	return b
}

func indMsg(tag int) *cemi.LDataInd {
	return &cemi.LDataInd{LData: cemi.LData{
		Control1: cemi.Control1StdFrame | cemi.Control1NoRepeat | cemi.Control1NoSysBroadcast | cemi.Control1Prio(cemi.PrioLow),
		Control2: cemi.Control2GroupAddr | cemi.Control2Hops(6),
		Source:   cemi.NewIndividualAddr3(1, 1, 7), Destination: uint16(cemi.NewGroupAddr3(1, 2, 3)),
		Data: &cemi.AppData{Command: cemi.GroupValueWrite, Data: tagData(tag)},
	}}
}

func tagOf(m cemi.Message) int {
	var l *cemi.LData
	switch v := m.(type) {
	case *cemi.LDataInd:
		l = &v.LData
	case *cemi.LDataCon:
		l = &v.LData
	case *cemi.LDataReq:
		l = &v.LData
	}
	if l != nil {
		if a, ok := l.Data.(*cemi.AppData); ok && len(a.Data) == 5 {
			return int(binary.BigEndian.Uint32(a.Data[1:]))
		}
	}
	return noTag
}

// inMsg: the routing indication injected for telegram `tag`. On a raw router client a fraction of them carry a
// confirmation or a request (a function of the tag): every cEMI message is handed to the application alike; the
// group layer surfaces indications only, so group plans stick to those.
// vary gives the telegram for `tag` header fields that depend on the tag: all four priorities (system priority among
// them), both repeat flags, hop counts 0..7, different senders. Order, delivery and acknowledgement do not depend on them.
func vary(l *cemi.LData, tag int) {
	l.Control1 = cemi.Control1StdFrame | cemi.Control1NoSysBroadcast | cemi.Control1Prio(cemi.Priority(tag%4))
	if tag%3 != 0 {
		l.Control1 |= cemi.Control1NoRepeat
	}
	l.Control2 = cemi.Control2GroupAddr | cemi.Control2Hops(uint8(tag%8))
	l.Source = cemi.NewIndividualAddr3(1, 1, uint8(tag%250+1))
}

func inMsg(tag int, group bool) cemi.Message {
	m := inMsgPlain(tag, group)
	switch v := m.(type) {
	case *cemi.LDataInd:
		vary(&v.LData, tag)
	case *cemi.LDataCon:
		vary(&v.LData, tag)
	case *cemi.LDataReq:
		vary(&v.LData, tag)
	}
	return m
}

func inMsgPlain(tag int, group bool) cemi.Message {
	switch {
	case group:
		return indMsg(tag)
	case tag%7 == 3 || tag%16 == 8:
		return &cemi.LDataCon{LData: indMsg(tag).LData}
	case tag%11 == 5:
		return &cemi.LDataReq{LData: indMsg(tag).LData}
	}
	return indMsg(tag)
}

var errScripted = errors.New("scripted transmission failure")

// RSim is one running router case.
type RSim struct {
	firstBytes map[int]string
	retxDiff   string
	nextStatus int // device-state octet of the next gated lost indication
	Plan       *RPlan
	Sock       *common.MemSock
	R          *knx.Router
	GR         knx.GroupRouter

	mu       sync.Mutex
	start    time.Time
	evs      []REv
	failTags map[int]bool
	failAt   map[int]bool
	nInd     int
	inFlight int32 // Sends between send> and send<
	gate     sync.RWMutex
	outCount int32
	dlvCount int32
	closedF  int32
	stalls   int32 // scheduler-health: number of control sleeps that overshot badly
}

func (s *RSim) add(e REv) {
	s.mu.Lock()
	if e.T == 0 {
		e.T = int64(time.Since(s.start))
	}
	s.evs = append(s.evs, e)
	s.mu.Unlock()
}

func (s *RSim) now() int64 { return int64(time.Since(s.start)) }

func (s *RSim) snapshot() []REv {
	s.mu.Lock()
	defer s.mu.Unlock()
	return append([]REv{}, s.evs...)
}

func us(n int) time.Duration { return time.Duration(n) * time.Microsecond }

// RResult is what the oracles get.
type RResult struct {
	Events        []REv
	InboundClosed bool
	SendHung      bool // a Send did not return within the limit
	CloseSeen     bool
	MaxRetained   int
	RetainSamples int
	Stalls        int
	ServeStalled  int    // frames handed to the socket that the open client had not taken after the limit
	RetxDiff      string // a retransmission whose octets differ from the first transmission of the same message
}

func (s *RSim) send(lane, tag int) error {
	s.gate.RLock()
	atomic.AddInt32(&s.inFlight, 1)
	s.add(REv{K: "send>", Tag: tag, Lane: lane})
	var err error
	if s.Plan.Group {
		err = s.GR.Send(knx.GroupEvent{Command: knx.GroupWrite, Source: cemi.NewIndividualAddr3(1, 1, 7), Destination: cemi.NewGroupAddr3(1, 2, 3), Data: tagData(tag)})
	} else {
		err = s.R.Send(inMsg(tag, false)) // indications mostly, some confirmations and requests, varied headers
	}
	es := ""
	if err != nil {
		es = err.Error()
	}
	s.add(REv{K: "send<", Tag: tag, Lane: lane, Err: es})
	atomic.AddInt32(&s.inFlight, -1)
	s.gate.RUnlock()
	return err
}

func (s *RSim) sendBad(lane, tag int) {
	s.gate.RLock()
	atomic.AddInt32(&s.inFlight, 1)
	s.add(REv{K: "send>", Tag: tag, Lane: lane, Note: "unsendable"})
	es := func() (es string) {
		defer func() {
			if r := recover(); r != nil {
				es = fmt.Sprintf("panic: %v", r)
			}
		}()
		if err := s.R.Send(&cemi.LDataInd{}); err != nil {
			return err.Error()
		}
		return "unsendable message accepted"
	}()
	s.add(REv{K: "send<", Tag: tag, Lane: lane, Err: es})
	atomic.AddInt32(&s.inFlight, -1)
	s.gate.RUnlock()
}

func (s *RSim) readOne(d time.Duration) (got, closed bool) {
	var tm <-chan time.Time
	if d >= 0 {
		t := time.NewTimer(d)
		defer t.Stop()
		tm = t.C
	}
	if s.Plan.Group {
		select {
		case e, open := <-s.GR.Inbound():
			if !open {
				s.add(REv{K: "inb-closed"})
				return false, true
			}
			tag := noTag
			if len(e.Data) == 5 {
				tag = int(binary.BigEndian.Uint32(e.Data[1:]))
			}
			s.add(REv{K: "read", Tag: tag})
			return true, false
		case <-tm:
			return false, false
		}
	}
	select {
	case m, open := <-s.R.Inbound():
		if !open {
			s.add(REv{K: "inb-closed"})
			return false, true
		}
		s.add(REv{K: "read", Tag: tagOf(m)})
		return true, false
	case <-tm:
		return false, false
	}
}

// quiesce waits until no Send is in flight and the send lock has been seen free; false on timeout.
func (s *RSim) quiesce(limit time.Duration) bool {
	deadline := time.Now().Add(limit)
	for time.Now().Before(deadline) {
		if atomic.LoadInt32(&s.inFlight) == 0 && !s.R.VerifSendLocked() {
			return true
		}
		time.Sleep(200 * time.Microsecond)
	}
	return false
}

// Run executes the plan.
func (s *RSim) Run() *RResult {
	p := s.Plan
	res := &RResult{}
	s.start = time.Now()
	s.failTags = map[int]bool{}
	s.failAt = map[int]bool{}
	for _, k := range p.FailAt {
		s.failAt[k] = true
	}
	for _, lane := range p.Senders {
		for _, st := range lane {
			if st.Fail {
				s.failTags[st.Tag] = true
			}
		}
	}
	s.Sock = common.NewMemSock(nil)
	s.Sock.OnSend = func(f *common.OutFrame) error {
		e := REv{K: "out", T: int64(f.At.Sub(s.start)), Tag: noTag}
		var err error
		if ri, ok := f.Svc.(*knxnet.RoutingInd); ok {
			e.Tag = tagOf(ri.Payload)
			s.mu.Lock()
			// a retransmission is the message that was sent, octet for octet (kind of message included)
			if s.firstBytes == nil {
				s.firstBytes = map[int]string{}
			}
			if was, seen := s.firstBytes[e.Tag]; !seen {
				s.firstBytes[e.Tag] = string(f.Bytes)
			} else if was != string(f.Bytes) && s.retxDiff == "" {
				s.retxDiff = fmt.Sprintf("the message with tag %d was first transmitted as %x and is transmitted again as %x", e.Tag, was, f.Bytes)
			}
			if s.failTags[e.Tag] {
				err = errScripted
				delete(s.failTags, e.Tag) // only the original transmission fails
			}
			if s.failAt[s.nInd] {
				err = errScripted
			}
			s.nInd++
			s.mu.Unlock()
		} else {
			e.Note = fmt.Sprintf("%T", f.Svc)
		}
		if err != nil {
			e.Err = err.Error()
		}
		e.T2 = s.now()
		s.add(e)
		atomic.AddInt32(&s.outCount, 1)
		return err
	}
	s.Sock.OnDelivered = func(svc knxnet.Service) {
		atomic.AddInt32(&s.dlvCount, 1)
		e := REv{K: "dlv", Tag: noTag}
		switch v := svc.(type) {
		case *knxnet.RoutingInd:
			e.Tag, e.Note = tagOf(v.Payload), "ind"
		case *knxnet.RoutingBusy:
			e.Note, e.N = "busy", int(v.WaitTime/time.Millisecond)
		case *knxnet.RoutingLost:
			e.Note, e.N = "lost", int(v.Count)
		default:
			e.Note = fmt.Sprintf("%T", svc)
		}
		s.add(e)
	}
	cfg := knx.RouterConfig{RetainCount: uint(p.Retain), PostSendPauseDuration: us(p.PauseUs)}
	if p.Group {
		s.GR = knx.VerifNewGroupRouter(s.Sock, cfg)
		s.R = s.GR.Router
	} else {
		s.R = knx.VerifNewRouter(s.Sock, cfg)
	}
	cap := p.Retain
	if cap == 0 {
		cap = 32
	}
	sampleRetained := func() {
		if n := s.R.VerifRetainedLen(); n >= 0 {
			res.RetainSamples++
			if n > res.MaxRetained {
				res.MaxRetained = n
			}
		}
	}
	limit := 5 * time.Second
	var lanes sync.WaitGroup
	var sendHung int32
	for i, steps := range p.Senders {
		i, steps := i, steps
		lanes.Add(1)
		go func() {
			defer lanes.Done()
			for _, st := range steps {
				time.Sleep(us(st.AfterUs))
				done := make(chan struct{})
				go func() {
					if st.Bad {
						s.sendBad(i+1, st.Tag)
					} else {
						s.send(i+1, st.Tag)
					}
					close(done)
				}()
				if !common.WaitLive(done, limit) {
					atomic.StoreInt32(&sendHung, 1)
					s.add(REv{K: "note", Note: fmt.Sprintf("Send(tag %d) did not return within %v", st.Tag, limit)})
					return
				}
			}
		}()
	}
	if len(p.Net) > 0 {
		lanes.Add(1)
		go func() {
			defer lanes.Done()
			for _, n := range p.Net {
				time.Sleep(us(n.AfterUs))
				for k := 0; k <= n.Repeat; k++ {
					switch n.Kind {
					case "ind":
						s.add(REv{K: "inj", Tag: n.Tag + k, Note: "ind"})
						s.Sock.Inject(&knxnet.RoutingInd{Payload: inMsg(n.Tag+k, s.Plan.Group)})
					case "busy":
						s.add(REv{K: "inj", Note: "busy", N: n.WaitMs, Tag: noTag})
						if svc := fromWire(0x32, n.Status, n.WaitMs, n.Ctl); svc != nil {
							s.Sock.Inject(svc)
						} else {
							s.Sock.Inject(&knxnet.RoutingBusy{WaitTime: time.Duration(n.WaitMs) * time.Millisecond, Control: uint16(n.Ctl)})
						}
					case "lost":
						s.add(REv{K: "inj", Note: "lost", N: n.Count, Tag: noTag})
						if svc := fromWire(0x31, n.Status, n.Count, 0); svc != nil {
							s.Sock.Inject(svc)
						} else {
							s.Sock.Inject(&knxnet.RoutingLost{Count: uint16(n.Count)})
						}
					case "lostq":
						s.nextStatus = n.Status
						s.lostAtQuiescence(n.Count, cap, limit)
						s.nextStatus = 0
					case "busy-idle":
						s.busyAtIdle(n, limit)
					case "junk":
						s.add(REv{K: "inj", Note: "junk", Tag: noTag})
						s.Sock.Inject(&knxnet.SearchReq{})
					}
				}
				if n.Kind == "ind" && n.Repeat >= 500 {
					// a long burst: the script goes on once the client has taken all of it (the gated steps that
					// follow assume a client that is not busy with earlier frames); a client that never does is
					// reported at the end of the run
					deadline := time.Now().Add(limit)
					for s.Sock.Pending() > 0 && time.Now().Before(deadline) {
						time.Sleep(200 * time.Microsecond)
					}
				}
				sampleRetained()
			}
		}()
	}
	var drainDone chan struct{}
	if len(p.Consumer) > 0 {
		lanes.Add(1)
		go func() {
			defer lanes.Done()
			for _, c := range p.Consumer {
				time.Sleep(us(c.AfterUs))
				switch c.Kind {
				case "read":
					for k := 0; k < c.N; k++ {
						got, closed := s.readOne(us(c.WithinUs))
						if closed {
							res.InboundClosed = true
							return
						}
						if !got {
							break
						}
					}
				case "drain":
					drainDone = make(chan struct{})
					go func() {
						defer close(drainDone)
						for {
							if _, closed := s.readOne(-1); closed {
								res.InboundClosed = true
								return
							}
						}
					}()
					return
				}
			}
		}()
	}
	if p.CloseUs > 0 {
		lanes.Add(1)
		go func() {
			defer lanes.Done()
			time.Sleep(us(p.CloseUs))
			s.add(REv{K: "close"})
			atomic.StoreInt32(&s.closedF, 1)
			s.R.Close()
		}()
	}
	lanes.Wait()
	res.SendHung = atomic.LoadInt32(&sendHung) != 0
	sampleRetained()
	// the open client takes every frame from its socket, however many indications the application has left unread
	// (a busy inhibit holds the serve loop for 50 ms at most, a pause for PostSendPause)
	if p.CloseUs == 0 {
		deadline := time.Now().Add(limit)
		for s.Sock.Pending() > 0 && time.Now().Before(deadline) {
			time.Sleep(200 * time.Microsecond)
		}
		if n := s.Sock.Pending(); n > 0 {
			res.ServeStalled = n
			s.add(REv{K: "note", Note: fmt.Sprintf("%d frames handed to the socket have not been taken by the client within %v", n, limit)})
		}
	}
	if p.FinalLost && p.CloseUs == 0 && !res.SendHung {
		s.lostAtQuiescence(65535, cap, limit)
		sampleRetained()
	}
	if p.SettleUs > 0 && p.CloseUs == 0 && !res.SendHung {
		deadline := time.Now().Add(limit)
		for time.Now().Before(deadline) {
			n0 := len(s.Sock.Out())
			time.Sleep(us(p.SettleUs))
			if len(s.Sock.Out()) == n0 && !s.R.VerifSendLocked() {
				s.add(REv{K: "note", Note: "settled"})
				break
			}
		}
	}
	// probe: after any history the client can still send (no deadlock)
	if p.CloseUs == 0 && !res.SendHung && !p.NoProbe {
		done := make(chan struct{})
		go func() { s.send(90, 1<<30); close(done) }()
		if !common.WaitLive(done, limit) {
			res.SendHung = true
			s.add(REv{K: "note", Note: "probe Send after the history did not return"})
		}
	}
	if p.DrainUs > 0 && drainDone == nil && !res.InboundClosed {
		deadline := time.Now().Add(limit)
		for {
			got, closed := s.readOne(us(p.DrainUs))
			if closed {
				res.InboundClosed = true
			}
			if got {
				continue
			}
			// silence - but is something still on its way? (frames not yet taken by the client, hand-offs
			// parked in the library or in the group layer: under load they can take longer than DrainUs)
			if closed || time.Now().After(deadline) || (s.Sock.Pending() == 0 && !handoffPending()) {
				break
			}
		}
		s.add(REv{K: "note", Note: "application drained Inbound"})
	}
	if p.CloseUs == 0 {
		s.add(REv{K: "close"})
		s.R.Close()
	}
	if drainDone != nil {
		select {
		case <-drainDone:
		case <-time.After(limit):
		}
	} else if !res.InboundClosed {
		for {
			got, closed := s.readOne(limit)
			if closed {
				res.InboundClosed = true
				break
			}
			if !got {
				break
			}
		}
	}
	s.Sock.Close()
	<-s.Sock.PumpDone()
	res.Stalls = int(atomic.LoadInt32(&s.stalls))
	s.mu.Lock()
	res.RetxDiff = s.retxDiff
	s.mu.Unlock()
	res.Events = s.snapshot()
	return res
}

// handoffPending reports whether a goroutine of the library is still about to hand an inbound
// message over (parked in pushInbound, or the group layer blocked on its output channel).
func handoffPending() bool {
	buf := make([]byte, 1<<20)
	buf = buf[:runtime.Stack(buf, true)]
	for _, g := range strings.Split(string(buf), "\n\n") {
		if strings.Contains(g, "pushInbound.func") || (strings.Contains(g, "knx.serveGroupInbound") && strings.Contains(g, "chan send")) {
			return true
		}
	}
	return false
}

// lostAtQuiescence holds the senders back, waits until nothing is in flight and the lock is free,
// issues lost(count) and waits until the expected number of retransmissions has been observed.
func (s *RSim) lostAtQuiescence(count, cap int, limit time.Duration) {
	s.gate.Lock()
	defer s.gate.Unlock()
	if atomic.LoadInt32(&s.closedF) != 0 {
		return
	}
	if !s.quiesce(limit) {
		s.add(REv{K: "note", Note: "lostq: no quiescence within the limit (skipped)"})
		return
	}
	retained := s.R.VerifRetainedLen()
	if retained < 0 {
		s.add(REv{K: "note", Note: "lostq: retained length not readable (skipped)"})
		return
	}
	want := count
	if retained < want {
		want = retained
	}
	before := atomic.LoadInt32(&s.outCount)
	dlvBefore := atomic.LoadInt32(&s.dlvCount)
	s.add(REv{K: "inj", Note: "lostq", N: count, Tag: noTag, Lane: retained})
	if svc := fromWire(0x31, s.nextStatus, count, 0); svc != nil {
		s.Sock.Inject(svc)
	} else {
		s.Sock.Inject(&knxnet.RoutingLost{Count: uint16(count)})
	}
	// a sentinel behind it: the serve loop takes the next frame only after it has dealt with the lost
	// indication (obtained the lock and removed the messages to resend) - only then may senders go on
	s.Sock.Inject(&knxnet.SearchReq{})
	deadline := time.Now().Add(limit)
	for time.Now().Before(deadline) && atomic.LoadInt32(&s.closedF) == 0 && atomic.LoadInt32(&s.dlvCount) < dlvBefore+2 {
		time.Sleep(100 * time.Microsecond)
	}
	for time.Now().Before(deadline) && atomic.LoadInt32(&s.closedF) == 0 {
		if int(atomic.LoadInt32(&s.outCount)-before) >= want && s.quiesceRetransmit() {
			break
		}
		time.Sleep(200 * time.Microsecond)
	}
	// grace: anything emitted beyond the expected resend shows up now
	time.Sleep(us(s.Plan.PauseUs) + 2*time.Millisecond)
	s.quiesce(limit)
	s.add(REv{K: "note", Note: "lostq-done", N: int(atomic.LoadInt32(&s.outCount) - before)})
}

func (s *RSim) quiesceRetransmit() bool { return !s.R.VerifSendLocked() }

// busyAtIdle: with the senders held back and the lock seen free, hand a busy indication over and
// wait until the lock is seen held (the only possible holder is the serve loop); only then are the
// senders released. The stamp is taken before the hand-over starts.
func (s *RSim) busyAtIdle(n RNet, limit time.Duration) {
	s.gate.Lock()
	defer s.gate.Unlock()
	if atomic.LoadInt32(&s.closedF) != 0 {
		return
	}
	if !s.quiesce(limit) {
		s.add(REv{K: "note", Note: "busy-idle: no quiescence (skipped)"})
		return
	}
	before := atomic.LoadInt32(&s.dlvCount)
	s.add(REv{K: "inj", Note: "busy-idle", N: n.WaitMs, Lane: n.Ctl, Tag: noTag})
	if svc := fromWire(0x32, n.Status, n.WaitMs, n.Ctl); svc != nil {
		s.Sock.Inject(svc)
	} else {
		s.Sock.Inject(&knxnet.RoutingBusy{WaitTime: time.Duration(n.WaitMs) * time.Millisecond, Control: uint16(n.Ctl)})
	}
	// a frame the client ignores, queued right behind the indication: the serve loop takes it only after it has dealt
	// with the indication completely (it handles one frame at a time) - from then on the inhibit is in force whether or
	// not the probe below catches the lock held (a wait of a millisecond or two is over before the probe looks)
	s.Sock.Inject(&knxnet.SearchRes{})
	seen := false
	until := time.Now().Add(2 * time.Second)
	for time.Now().Before(until) {
		if !seen && s.R.VerifSendLocked() {
			seen = true
			s.add(REv{K: "note", Note: "hold-observed"})
		}
		if atomic.LoadInt32(&s.dlvCount) >= before+2 {
			if !seen && s.R.VerifSendLocked() {
				seen = true
				s.add(REv{K: "note", Note: "hold-observed"})
			}
			if !seen {
				s.add(REv{K: "note", Note: "hold-missed"})
			}
			s.add(REv{K: "note", Note: "busy-handled"})
			return
		}
		time.Sleep(20 * time.Microsecond)
	}
	if !seen {
		s.add(REv{K: "note", Note: "hold-missed"})
	}
}
