package rtr

import (
	"fmt"
	"os"
	"testing"

	"pgregory.net/rapid"
	"verif/harness/common"
)

func runRouter(p *RPlan) *RResult {
	s := &RSim{Plan: p}
	return s.Run()
}

// ------------------------------------------------------------------------------------------ C14

func genPlanC14(rt *rapid.T) *RPlan {
	p := &RPlan{DrainUs: 3000}
	p.Retain = rapid.SampledFrom([]int{0, 1, 2, 3, 5, 8, 32, 64}).Draw(rt, "retain")
	if rapid.IntRange(0, 3).Draw(rt, "retain-free") == 0 {
		p.Retain = rapid.IntRange(1, 64).Draw(rt, "retain-any")
	}
	cp := capOf(p)
	p.PauseUs = rapid.SampledFrom([]int{0, 0, 300, 1000}).Draw(rt, "pause")
	p.Group = rapid.IntRange(0, 5).Draw(rt, "group") == 0
	lanes := 1
	if rapid.IntRange(0, 3).Draw(rt, "concurrent") == 0 {
		lanes = rapid.IntRange(2, 4).Draw(rt, "lanes")
	}
	var total int
	switch rapid.IntRange(0, 9).Draw(rt, "size") {
	case 0:
		total = rapid.IntRange(100, 300).Draw(rt, "n-long")
	default:
		total = rapid.IntRange(1, 2*cp+6).Draw(rt, "n")
		if total > 90 {
			total = 90
		}
	}
	tag := 1
	p.Senders = make([][]RSend, lanes)
	for i := 0; i < total; i++ {
		l := i % lanes
		st := RSend{AfterUs: rapid.SampledFrom([]int{0, 0, 50, 400}).Draw(rt, "gap"), Tag: tag}
		if rapid.IntRange(0, 9).Draw(rt, "fail") == 0 {
			st.Fail = true
		} else if rapid.IntRange(0, 24).Draw(rt, "unsendable") == 0 {
			st.Bad = true
		}
		tag++
		p.Senders[l] = append(p.Senders[l], st)
	}
	span := total*(p.PauseUs+150)/lanes + 2000
	nn := rapid.IntRange(0, 8).Draw(rt, "net-steps")
	ungated := rapid.IntRange(0, 4).Draw(rt, "ungated") == 0
	itag := 100000
	for i := 0; i < nn; i++ {
		n := RNet{AfterUs: rapid.IntRange(0, span/(nn+1)+1).Draw(rt, "net-after")}
		switch rapid.IntRange(0, 9).Draw(rt, "net-kind") {
		case 0, 1, 2, 3, 4:
			n.Kind = "lostq"
			if ungated && rapid.Bool().Draw(rt, "this-ungated") {
				n.Kind = "lost"
			}
			n.Status = rapid.SampledFrom([]int{0, 0, 0, 1, 2, 3, 0xfc, 0xff}).Draw(rt, "device-state")
			n.Count = rapid.SampledFrom([]int{0, 1, 1, 2, 3, cp - 1, cp, cp + 1, 2 * cp, 65535}).Draw(rt, "count")
			if n.Count < 0 {
				n.Count = 0
			}
			if rapid.IntRange(0, 3).Draw(rt, "count-free") == 0 {
				n.Count = rapid.IntRange(0, 2*cp+2).Draw(rt, "count-any")
			}
		case 5:
			n.Kind, n.WaitMs, n.Ctl = "busy", rapid.IntRange(0, 6).Draw(rt, "wait"), rapid.IntRange(0, 1).Draw(rt, "ctl")
		case 6:
			n.Kind = "junk"
		default:
			n.Kind, n.Tag, n.Repeat = "ind", itag, rapid.IntRange(0, 6).Draw(rt, "ind-burst")
			itag += 10
		}
		p.Net = append(p.Net, n)
	}
	p.FinalLost = rapid.IntRange(0, 2).Draw(rt, "final-lost") > 0
	if rapid.IntRange(0, 2).Draw(rt, "failing-transmissions") == 0 {
		// socket errors at arbitrary positions of the transmission sequence: they hit retransmissions too
		for i := 0; i < rapid.IntRange(1, 4).Draw(rt, "n-fail-at"); i++ {
			p.FailAt = append(p.FailAt, rapid.IntRange(0, total+2*cp).Draw(rt, "fail-at"))
		}
	}
	switch rapid.IntRange(0, 2).Draw(rt, "consumer") {
	case 0:
		p.Consumer = []RCon{{AfterUs: 10, Kind: "drain"}}
	case 1:
	default:
		p.Consumer = []RCon{{AfterUs: rapid.IntRange(0, span).Draw(rt, "stall"), Kind: "read", N: rapid.IntRange(1, 10).Draw(rt, "n-read"), WithinUs: 200}}
	}
	if rapid.IntRange(0, 6).Draw(rt, "close") == 0 {
		p.CloseUs = rapid.IntRange(1, span+1000).Draw(rt, "close-at")
		p.FinalLost = false
	}
	if rapid.IntRange(0, 11).Draw(rt, "deep-backlog") == 0 {
		// an application that does not read at all while a long burst of indications arrives (a bus monitor run, a
		// line scan): thousands of them are left unread - sizes around the powers of two a bound would pick - and
		// only then the lost / busy indications and the Sends of the plan follow
		n := rapid.SampledFrom([]int{1000, 1023, 1024, 1025, 1030, 2049, 4100, 8200}).Draw(rt, "backlog")
		p.Net = append([]RNet{{AfterUs: 0, Kind: "ind", Tag: 500000, Repeat: n - 1}}, p.Net...)
		p.Consumer = nil
		if rapid.Bool().Draw(rt, "late-reader") {
			p.Consumer = []RCon{{AfterUs: span + 20000, Kind: "read", N: 3, WithinUs: 200}}
		}
	}
	return p
}

func classifyC14(p *RPlan, res *RResult, rec *common.Rec) bool {
	cp := capOf(p)
	failed, lostDiff, trimmed := false, false, false
	ok := 0
	for _, e := range res.Events {
		if e.K == "out" && e.Err != "" {
			failed = true
		}
		if e.K == "out" && e.Err == "" {
			ok++
		}
		if e.K == "inj" && e.Note == "lostq" && e.N != e.Lane {
			lostDiff = true
		}
	}
	trimmed = ok > cp
	rec.Class(fmt.Sprintf("senders=%d", len(p.Senders)))
	if len(p.Net) > 0 && p.Net[0].Kind == "ind" && p.Net[0].Repeat >= 999 {
		rec.Class("backlog of 1000..8200 unread indications before the rest of the history")
	}
	for name, b := range map[string]bool{"failed-transmission": failed, "lost-count!=retained": lostDiff, "window-trimmed": trimmed, "close-mid-run": p.CloseUs > 0, "group-router": p.Group} {
		if b {
			rec.Class(name)
		}
	}
	return lostDiff && (failed || trimmed)
}

func TestC14(t *testing.T) {
	rec := common.NewRec("C14", "real")
	completed := false
	defer func() { rec.Finish(completed) }()
	run := func(p *RPlan) *common.Fail {
		rec.InFlight(p)
		res := runRouter(p)
		rec.Landed()
		if f := oracleC14(p, res); f != nil {
			return f
		}
		if classifyC14(p, res, rec) {
			rec.NonTrivial(common.HashJSON(p))
		}
		rec.Sample("router", map[string]any{"plan": p})
		return nil
	}
	common.Drive(t, rec, genPlanC14, run)
	completed = true
}

// ------------------------------------------------------------------------------------------ C13

func genPlanC13(rt *rapid.T) *RPlan {
	p := &RPlan{Retain: 8}
	p.PauseUs = rapid.SampledFrom([]int{0, 1000, 2000, 5000, 20000, 250, 500, 999, 1001, 1500}).Draw(rt, "pause")
	p.Scenario = rapid.SampledFrom([]string{"pacing", "pacing", "idle", "idle", "saturated", "saturated", "storm", "storm", "close-in-inhibit", "barge", "idle-twice", "idle-twice"}).Draw(rt, "scenario")
	if p.Scenario == "barge" {
		p.PauseUs = 0
		k := rapid.SampledFrom([]int{1, 1, 2, 4, 8}).Draw(rt, "barge-senders")
		p.Senders = make([][]RSend, k)
		tag := 1
		for l := 0; l < k; l++ {
			for i := 0; i < 6000/k+500; i++ {
				p.Senders[l] = append(p.Senders[l], RSend{Tag: tag})
				tag++
			}
		}
		p.Net = []RNet{{AfterUs: rapid.SampledFrom([]int{300, 800, 1500}).Draw(rt, "barge-at"), Kind: "busy", WaitMs: 40, Ctl: 1}}
		p.NoProbe = true
		return p
	}
	lanes := rapid.IntRange(1, 8).Draw(rt, "senders")
	budgetUs := 250_000 // keep a case within a few hundred ms of real time
	per := p.PauseUs + 100
	maxSends := budgetUs / per
	if maxSends > 200 {
		maxSends = 200
	}
	if maxSends < 3 {
		maxSends = 3
	}
	total := rapid.IntRange(2, maxSends).Draw(rt, "sends")
	p.Senders = make([][]RSend, lanes)
	tag := 1
	add := func(n int, firstGap int) {
		for i := 0; i < n; i++ {
			g := 0
			if i < lanes {
				g = firstGap
			}
			p.Senders[i%lanes] = append(p.Senders[i%lanes], RSend{AfterUs: g, Tag: tag})
			tag++
		}
	}
	wait := rapid.SampledFrom([]int{0, 1, 5, 20, 30, 49, 50, 51, 120, 255, 256, 257, 260, 300, 500, 512, 1024, 65535}).Draw(rt, "wait")
	ctl := rapid.IntRange(0, 1).Draw(rt, "ctl")
	switch p.Scenario {
	case "pacing":
		add(total, 0)
		// an application that hands Send something that cannot be encoded (the encoder panics inside the socket's Send)
		// and recovers: pacing and liveness hold for everybody else, before and after
		if rapid.IntRange(0, 3).Draw(rt, "unsendable") == 0 {
			l := rapid.IntRange(0, lanes-1).Draw(rt, "unsendable-lane")
			if n := len(p.Senders[l]); n > 0 {
				p.Senders[l][rapid.IntRange(0, n-1).Draw(rt, "unsendable-at")].Bad = true
			}
		}
		// routing-lost indications while the burst is under way: the repetitions are transmissions like any other
		// and compete with the senders that are queueing on the send lock
		// busy indications with a wait *shorter* than the post-send pause, taken in while a pause is running and
		// senders are queueing: the pause still has to run out (only the pacing clause is judged in this scenario)
		if p.PauseUs >= 1000 && rapid.Bool().Draw(rt, "short-busy-during-burst") {
			span := total * per
			for i := 0; i < rapid.IntRange(1, 4).Draw(rt, "short-busies"); i++ {
				p.Net = append(p.Net, RNet{AfterUs: rapid.IntRange(100, span/4+300).Draw(rt, "busy-after"), Kind: "busy",
					WaitMs: rapid.IntRange(0, p.PauseUs/1000).Draw(rt, "short-wait"), Ctl: rapid.SampledFrom([]int{1, 1, 0}).Draw(rt, "busy-ctl")})
			}
		}
		if rapid.Bool().Draw(rt, "lost-during-burst") {
			span := total * per
			for i := 0; i < rapid.IntRange(1, 3).Draw(rt, "losts"); i++ {
				p.Net = append(p.Net, RNet{AfterUs: rapid.IntRange(200, span/3+300).Draw(rt, "lost-after"), Kind: "lost", Count: rapid.IntRange(1, 6).Draw(rt, "lost-count")})
			}
		}
	case "close-in-inhibit":
		// a busy indication, and while its inhibit is running the application closes the router (or the socket dies):
		// Sends that were waiting and Sends issued afterwards still return ("every Send eventually returns")
		first := total / 2
		add(first, 0)
		at := first*per/lanes + 2*p.PauseUs + 2000
		if wait < 20 || wait > 500 {
			wait = 40
		}
		p.Net = []RNet{{AfterUs: at, Kind: "busy", WaitMs: wait, Ctl: ctl}}
		add(total-first+1, at+rapid.IntRange(200, 4000).Draw(rt, "late-senders"))
		p.CloseUs = at + rapid.IntRange(1000, 15000).Draw(rt, "close-after-busy")
	case "idle":
		// a first burst, then (after it has drained) a busy at idle, then a second burst released once the hold was seen
		first := total / 2
		add(first, 0)
		if p.PauseUs >= 2000 && rapid.IntRange(0, 2).Draw(rt, "wait-below-pause") == 0 {
			// the announced wait is shorter than the post-send pause: at idle no pause is running that could cover it
			wait = rapid.IntRange(1, p.PauseUs/1000-1).Draw(rt, "short-idle-wait")
			ctl = 1
		}
		p.Net = []RNet{{AfterUs: first*per/lanes + 3*p.PauseUs + 3000, Kind: "busy-idle", WaitMs: wait, Ctl: ctl}}
		add(total-first+1, first*per/lanes+3*p.PauseUs+3500)
	case "idle-twice":
		// two busy indications at idle on one client, the second after the inhibit of the first has run out: the first
		// announces more than the 50 ms maximum (its inhibit is capped), the second less - it is an indication like
		// any other, whatever the client remembers of the first
		first := total / 3
		add(first, 0)
		at := first*per/lanes + 3*p.PauseUs + 3000
		wait1 := rapid.SampledFrom([]int{51, 60, 120, 300, 500, 1024}).Draw(rt, "wait1")
		wait2 := rapid.SampledFrom([]int{10, 20, 30, 40, 49, 50}).Draw(rt, "wait2")
		gap := rapid.IntRange(54_000, 90_000).Draw(rt, "second-busy-after")
		p.Net = []RNet{{AfterUs: at, Kind: "busy-idle", WaitMs: wait1, Ctl: ctl},
			{AfterUs: gap, Kind: "busy-idle", WaitMs: wait2, Ctl: rapid.IntRange(0, 1).Draw(rt, "ctl2")}}
		add(first+1, at+500)
		add(total-2*first+1, gap+2000)
	case "storm":
		first := total / 2
		add(first, 0)
		p.Net = []RNet{{AfterUs: first*per/lanes + 3*p.PauseUs + 3000, Kind: "busy-idle", WaitMs: wait, Ctl: ctl},
			{AfterUs: 0, Kind: "busy", WaitMs: rapid.IntRange(0, 30).Draw(rt, "wait2"), Ctl: ctl, Repeat: rapid.IntRange(0, 3).Draw(rt, "storm-len")}}
		add(total-first+1, first*per/lanes+3*p.PauseUs+3500)
	case "saturated":
		if wait < 20 {
			wait = 30
		}
		// the run has to go on for well over 100 ms after the busy indication (see the oracle's grace)
		if p.PauseUs < 1000 {
			p.PauseUs = 1000
		}
		per = p.PauseUs + 100
		need := 260_000/per + 2*lanes
		if need > 400 {
			need = 400
		}
		if total < need {
			total = need
		}
		add(total, 0)
		p.Net = []RNet{{AfterUs: rapid.IntRange(0, 20000).Draw(rt, "busy-at"), Kind: "busy", WaitMs: wait, Ctl: ctl}}
	}
	return p
}

// c13Barge: "after a routing-busy indication has been taken in, at most one further transmission per goroutine that
// was already inside Send may still go out" - with no post-send pause and senders that call Send back to back. Every
// sender is inside Send (or between two Sends) when the indication is taken in, so the allowance is one transmission
// per sender; the serve loop then has to get the send lock, which the senders keep handing to each other. Whether it
// gets it at once depends on the scheduler in a single run (the serve goroutine can be descheduled between taking the
// frame and asking for the lock), so the run is repeated up to 10 times and the SMALLEST number of transmissions
// between intake and silence is judged: a client that hands the lock to the waiting serve loop shows a round within
// the allowance; one whose senders barge past it for as long as the mutex lets them (about a millisecond, hundreds
// of transmissions) never does. Rounds in which the burst was over before the indication arrived say nothing.
func c13Barge(p *RPlan, rec *common.Rec) *common.Fail {
	senders := len(p.Senders)
	allow := senders + 2
	best, rounds := -1, 0
	for r := 0; r < 10; r++ {
		rec.InFlight(p)
		n, ok, hung := bargeRound(senders, len(p.Senders[0]), us(p.Net[0].AfterUs), p.Net[0].WaitMs)
		rec.Landed()
		if hung {
			return common.Failf("send-hung", "busy during a pause-less burst of %d senders: a Send did not return within 5 s", senders)
		}
		if !ok {
			continue // the burst ended before (or right when) the indication was taken in
		}
		rounds++
		if best < 0 || n < best {
			best = n
		}
		if best <= allow {
			break
		}
	}
	rec.Class("scenario-barge")
	rec.Class(fmt.Sprintf("senders=%d", senders))
	if rounds == 0 {
		rec.Inconclusive("busy during a pause-less burst: the burst never outlasted the indication")
		return nil
	}
	rec.Class(fmt.Sprintf("barge: fewest transmissions between intake and silence %d (allowance %d)", best, allow))
	rec.NonTrivial(common.HashJSON(p))
	// the verdict leaves room for a scheduler that is unkind in every round (a loaded machine): twice the allowance and
	// then some; a client whose senders barge shows dozens to hundreds
	if best > 2*senders+8 && rounds >= 5 {
		return common.Failf("busy-overrun", "no post-send pause, %d senders calling Send back to back, busy indication (%d ms) taken in mid-burst: in every one of %d rounds far more than the %d transmissions the rule allows (one per sender that was inside Send, plus two) started between the intake and the silence (fewest: %d); the senders keep taking the send lock past the waiting serve loop",
			senders, p.Net[0].WaitMs, rounds, allow, best)
	}
	return nil
}

func TestC13(t *testing.T) {
	rec := common.NewRec("C13", "real")
	completed := false
	defer func() { rec.Finish(completed) }()
	run := func(p *RPlan) *common.Fail {
		if p.Scenario == "barge" {
			return c13Barge(p, rec)
		}
		rec.InFlight(p)
		res := runRouter(p)
		rec.Landed()
		f, inc := oracleC13(p, res)
		if os.Getenv("VERIF_TRACE") != "" {
			for _, l := range dump(res.Events, 400) {
				fmt.Println(l)
			}
			fmt.Println("inconclusive:", inc)
		}
		if f != nil {
			return f
		}
		if inc != "" {
			rec.Inconclusive(inc)
		}
		rec.Class("scenario-" + p.Scenario)
		rec.Class(fmt.Sprintf("senders=%d", len(p.Senders)))
		contended := len(p.Senders) >= 2
		for _, n := range p.Net {
			if n.Kind == "lost" {
				rec.Class("pacing: routing-lost indications during the burst")
				contended = true
			}
			if n.Kind == "busy" && p.Scenario == "pacing" {
				rec.Class("pacing: busy indications with a wait below the pause during the burst")
				contended = true
			}
		}
		busyTook := false
		afterHandover := 0
		var h int64 = -1
		for _, e := range res.Events {
			if e.K == "note" && e.Note == "hold-observed" {
				busyTook = true
			}
			if e.K == "dlv" && e.Note == "busy" && h < 0 {
				h = e.T
				if p.Scenario == "saturated" {
					busyTook = true
				}
			}
		}
		if p.Scenario == "saturated" && h >= 0 {
			// statistic: transmissions that started after the serve loop took the busy indication and before the silence
			last := int64(-1)
			for _, e := range res.Events {
				if e.K != "out" {
					continue
				}
				if last >= 0 && e.T-last >= 20e6 {
					break
				}
				if e.T >= h {
					afterHandover++
				}
				last = e.T2
			}
			rec.Class(fmt.Sprintf("saturated: %d transmissions between hand-over and silence (senders %d)", afterHandover, len(p.Senders)))
		}
		if contended || busyTook {
			rec.NonTrivial(common.HashJSON(p))
		}
		rec.Sample(p.Scenario, map[string]any{"plan": p, "trace_tail": dump(res.Events, 12)})
		return nil
	}
	common.Drive(t, rec, genPlanC13, run)
	completed = true
}

// ------------------------------------------------------------------------------------------ C17 (router part)

func genPlanC17R(rt *rapid.T) *RPlan {
	p := &RPlan{Retain: 4, DrainUs: 20000}
	p.Group = rapid.IntRange(0, 2).Draw(rt, "group") == 0
	bursts := rapid.IntRange(1, 4).Draw(rt, "bursts")
	tag := 1
	total := 0
	for b := 0; b < bursts; b++ {
		n := rapid.IntRange(2, 64).Draw(rt, "burst-len")
		if rapid.IntRange(0, 2).Draw(rt, "short") > 0 {
			n = rapid.IntRange(2, 8).Draw(rt, "burst-short")
		}
		pause := rapid.IntRange(0, 3000).Draw(rt, "pause")
		for i := 0; i < n; i++ {
			g := RNet{Kind: "ind", Tag: tag}
			if i == 0 {
				g.AfterUs = pause
			} else {
				g.AfterUs = rapid.SampledFrom([]int{0, 0, 0, 0, 1, 30}).Draw(rt, "gap")
			}
			total += g.AfterUs
			tag++
			p.Net = append(p.Net, g)
		}
	}
	switch rapid.IntRange(0, 2).Draw(rt, "consumer") {
	case 0:
		p.Consumer = []RCon{{AfterUs: 10, Kind: "drain"}}
	case 1:
	default:
		k := rapid.IntRange(1, 6).Draw(rt, "reads")
		for i := 0; i < k; i++ {
			p.Consumer = append(p.Consumer, RCon{AfterUs: rapid.IntRange(0, total/k+500).Draw(rt, "think"), Kind: "read",
				N: rapid.IntRange(1, 20).Draw(rt, "n-read"), WithinUs: rapid.SampledFrom([]int{1, 50, 400}).Draw(rt, "within")})
		}
	}
	return p
}

func TestC17Router(t *testing.T) {
	rec := common.NewRec("C17", "router")
	completed := false
	defer func() { rec.Finish(completed) }()
	run := func(p *RPlan) *common.Fail {
		res := runRouter(p)
		if f := oracleC17R(p, res); f != nil {
			return f
		}
		unread, parked := 0, false
		for _, e := range res.Events {
			if e.K == "dlv" && e.Note == "ind" {
				if unread > 0 {
					parked = true
				}
				unread++
			}
			if e.K == "read" {
				unread--
			}
		}
		kind := "router"
		if p.Group {
			kind = "group-router"
		}
		rec.Class(fmt.Sprintf("%s parked=%v", kind, parked))
		if parked {
			rec.NonTrivial(common.HashJSON(p))
		}
		rec.Sample(kind, map[string]any{"plan": p})
		return nil
	}
	common.Drive(t, rec, genPlanC17R, run)
	completed = true
}
