package rtr

import (
	"bytes"
	"encoding/hex"
	"fmt"
	"sync"
	"testing"
	"time"

	"github.com/vapourismo/knx-go/knx"
	"github.com/vapourismo/knx-go/knx/cemi"
	"github.com/vapourismo/knx-go/knx/knxnet"
	"pgregory.net/rapid"
	"verif/harness/common"
)

// gEvent is a group event in plan form.
type gEvent struct {
	Cmd  int    `json:"cmd"`
	Src  int    `json:"src"`
	Dst  int    `json:"dst"`
	Data string `json:"data"` // hex
}

// c12Plan:
//
//	dir out: events sent through the client, frames judged by the reference decoder
//	dir in:  cEMI messages (reference descriptions) arriving at the client, events judged by the reference filter-map
//	dir e2e: events sent through client A, relayed as a gateway does, received by client B
type c12Plan struct {
	Client  string          `json:"client"`            // tunnel | router
	Client2 string          `json:"client2,omitempty"` // e2e: receiving side
	Dir     string          `json:"dir"`
	Events  []gEvent        `json:"events,omitempty"`
	Inbound []*common.RCemi `json:"inbound,omitempty"`
	// AckFail (tunnel client, direction in): the socket refuses the client's k-th acknowledgement (counted from 0) with
	// an error, as a connected UDP socket does after an ICMP error; the gateway, which follows the rules, repeats the
	// request it got no acknowledgement for
	AckFail []int `json:"ack_fail,omitempty"`
}

const sentinelByte = 0x2a

// groupEnd is one group client on a memsock, tunnel or router flavoured.
type groupEnd struct {
	sock   *common.MemSock
	gt     knx.GroupTunnel
	gr     knx.GroupRouter
	tunnel bool
	inSeq  uint8
	// stop-and-wait towards a tunnel client: the outcome of every acknowledgement the client tries to send
	ackRes  chan bool
	ackFail map[int]bool
	nAck    int
}

func newGroupEnd(tunnel bool) (*groupEnd, error) {
	e := &groupEnd{sock: common.NewMemSock(nil), tunnel: tunnel, ackRes: make(chan bool, 1024), ackFail: map[int]bool{}}
	if !tunnel {
		e.gr = knx.VerifNewGroupRouter(e.sock, knx.RouterConfig{RetainCount: 4})
		return e, nil
	}
	e.sock.OnSend = func(f *common.OutFrame) error {
		switch v := f.Svc.(type) {
		case *knxnet.ConnReq:
			e.sock.Inject(&knxnet.ConnRes{Channel: 21, Status: knxnet.NoError, Control: knxnet.HostInfo{Protocol: knxnet.UDP4}})
		case *knxnet.TunnelReq:
			e.sock.Inject(&knxnet.TunnelRes{Channel: v.Channel, SeqNumber: v.SeqNumber, Status: knxnet.NoError})
		case *knxnet.TunnelRes:
			k := e.nAck
			e.nAck++
			if e.ackFail[k] {
				e.ackRes <- false
				return errScripted
			}
			e.ackRes <- true
		}
		return nil
	}
	var err error
	e.gt, err = knx.VerifNewGroupTunnel(e.sock, knx.TunnelConfig{ResendInterval: 2 * time.Second, ResponseTimeout: 20 * time.Second, HeartbeatInterval: time.Hour})
	return e, err
}

func (e *groupEnd) send(ev knx.GroupEvent) error {
	if e.tunnel {
		return e.gt.Send(ev)
	}
	return e.gr.Send(ev)
}

func (e *groupEnd) inbound() <-chan knx.GroupEvent {
	if e.tunnel {
		return e.gt.Inbound()
	}
	return e.gr.Inbound()
}

// deliver hands a cEMI message to the client the way its transport does.
func (e *groupEnd) deliver(m cemi.Message) {
	if e.tunnel {
		// the gateway follows the rules: one request at a time, repeated until it is acknowledged
		for try := 0; try < 6; try++ {
			e.sock.Inject(&knxnet.TunnelReq{Channel: 21, SeqNumber: e.inSeq, Payload: m})
			select {
			case ok := <-e.ackRes:
				if ok {
					e.inSeq++
					return
				}
			case <-time.After(3 * time.Second):
				e.inSeq++
				return
			}
		}
		e.inSeq++
		return
	}
	e.sock.Inject(&knxnet.RoutingInd{Payload: m})
}

func (e *groupEnd) close() {
	if e.tunnel {
		e.gt.Close()
	} else {
		e.gr.Close()
	}
}

// dataFrames returns the frames carrying cEMI that left the socket.
func (e *groupEnd) dataFrames() [][]byte {
	var out [][]byte
	for _, f := range e.sock.Out() {
		switch f.Svc.(type) {
		case *knxnet.TunnelReq:
			// a retransmission (the acknowledgement took longer than the resend interval on a loaded
			// machine) is the same frame again, not another frame
			if len(out) > 0 && bytes.Equal(out[len(out)-1], f.Bytes) {
				continue
			}
			out = append(out, f.Bytes)
		case *knxnet.RoutingInd:
			out = append(out, f.Bytes)
		}
	}
	return out
}

func toLibEvent(g gEvent) knx.GroupEvent {
	d, _ := hex.DecodeString(g.Data)
	if len(d) == 0 {
		d = nil
	}
	return knx.GroupEvent{Command: knx.GroupCommand(g.Cmd), Source: cemi.IndividualAddr(g.Src), Destination: cemi.GroupAddr(g.Dst), Data: d}
}

// wirePayload: what the wire format can carry of an event payload.
func wirePayload(d []byte) []byte {
	if len(d) == 0 {
		return []byte{0}
	}
	out := append([]byte{}, d...)
	out[0] &= 0x3f
	return out
}

// checkOutboundFrame judges one frame emitted for event g.
func checkOutboundFrame(b []byte, g gEvent, tunnel bool) *common.Fail {
	svc, _, _, c, err := common.RefDecodeFrameCemi(b)
	if err != nil {
		return common.Failf("frame-undecodable", "event %+v was emitted as %x, which the reference decoder cannot read: %v", g, b, err)
	}
	wantSvc, wantCode, what := uint16(common.SvcRoutingInd), uint8(common.CodeLDataInd), "routing indication carrying L_Data.ind"
	if tunnel {
		wantSvc, wantCode, what = common.SvcTunnelReq, common.CodeLDataReq, "tunnelling request carrying L_Data.req"
	}
	if svc != wantSvc || c.Code != wantCode || c.LData == nil {
		return common.Failf("frame-kind", "event %+v was emitted as service %#04x / message code %#02x; expected a %s", g, svc, c.Code, what)
	}
	l := c.LData
	d, _ := hex.DecodeString(g.Data)
	switch {
	case l.C2&0x80 == 0:
		return common.Failf("group-flag", "event %+v: destination is not flagged as a group address (control 2 = %#02x) in %x", g, l.C2, b)
	case (l.C2>>4)&7 != 6:
		return common.Failf("hop-count", "event %+v: hop count %d, expected 6 (control 2 = %#02x)", g, (l.C2>>4)&7, l.C2)
	case (l.C1>>2)&3 != 3:
		return common.Failf("priority", "event %+v: priority bits %d, expected 3 (low) (control 1 = %#02x)", g, (l.C1>>2)&3, l.C1)
	case (l.C1&0x80 != 0) != (len(d) <= 15):
		return common.Failf("frame-format", "event %+v with %d payload bytes: standard-frame flag is %v (it must be set exactly for payloads of at most 15 bytes)", g, len(d), l.C1&0x80 != 0)
	case l.TPDU.Control || int(l.TPDU.APCI) != g.Cmd:
		return common.Failf("apci", "event %+v: application code on the wire is %d (control unit: %v)", g, l.TPDU.APCI, l.TPDU.Control)
	case int(l.Src) != g.Src || int(l.Dst) != g.Dst:
		return common.Failf("addresses", "event %+v: wire carries source %#04x destination %#04x", g, l.Src, l.Dst)
	case !bytes.Equal(l.TPDU.Data, wirePayload(d)):
		return common.Failf("payload", "event %+v: wire payload %x, expected %x", g, l.TPDU.Data, wirePayload(d))
	}
	return nil
}

// expectEvent: the reference filter-map for one inbound cEMI description; nil = must not surface.
func expectEvent(c *common.RCemi) *knx.GroupEvent {
	if c.Code != common.CodeLDataInd || c.LData == nil {
		return nil
	}
	l := c.LData
	if l.C2&0x80 == 0 || l.TPDU.Control || l.TPDU.APCI > 2 {
		return nil
	}
	return &knx.GroupEvent{Command: knx.GroupCommand(l.TPDU.APCI), Source: cemi.IndividualAddr(l.Src), Destination: cemi.GroupAddr(l.Dst), Data: append([]byte{}, l.TPDU.Data...)}
}

func sameEvent(a, b knx.GroupEvent) bool {
	return a.Command == b.Command && a.Source == b.Source && a.Destination == b.Destination && bytes.Equal(a.Data, b.Data)
}

var sentinelEvent = knx.GroupEvent{Command: knx.GroupWrite, Source: 0x1234, Destination: 0x4321, Data: []byte{sentinelByte, 0xde, 0xad, 0xbe, 0xef, 0x99}}

func sentinelMsg() cemi.Message {
	return &cemi.LDataInd{LData: cemi.LData{Control1: cemi.Control1StdFrame, Control2: cemi.Control2GroupAddr | cemi.Control2Hops(6), Source: 0x1234, Destination: 0x4321,
		Data: &cemi.AppData{Command: cemi.GroupValueWrite, Data: append([]byte{}, sentinelEvent.Data...)}}}
}

// readUntilSentinel reads events until the sentinel shows up.
func readUntilSentinel(e *groupEnd) (evs []knx.GroupEvent, f *common.Fail) {
	tm := time.NewTimer(5 * time.Second)
	defer tm.Stop()
	for {
		select {
		case ev, open := <-e.inbound():
			if !open {
				return evs, common.Failf("group-inbound-closed", "the group Inbound channel closed while the client was open (after %d events)", len(evs))
			}
			if sameEvent(ev, sentinelEvent) {
				return evs, nil
			}
			evs = append(evs, ev)
		case <-tm.C:
			return evs, common.Failf("group-inbound-stuck", "the sentinel event did not surface within 5 s (%d events read)", len(evs))
		}
	}
}

func c12Run(p c12Plan) *common.Fail {
	a, err := newGroupEnd(p.Client == "tunnel")
	if err != nil {
		return common.Failf("setup", "group %s on memsock: %v", p.Client, err)
	}
	closedA := false
	defer func() {
		if !closedA {
			a.close()
		}
		a.sock.Close()
	}()
	switch p.Dir {
	case "out":
		for i, g := range p.Events {
			before := len(a.dataFrames())
			if err := a.send(toLibEvent(g)); err != nil {
				return common.Failf("send-error", "Send(%+v) returned %v", g, err)
			}
			frames := a.dataFrames()
			if len(frames) != before+1 {
				return common.Failf("frame-count", "Send #%d (%+v) emitted %d frames, exactly one is expected", i, g, len(frames)-before)
			}
			if f := checkOutboundFrame(frames[before], g, a.tunnel); f != nil {
				return f
			}
		}
	case "out-concurrent":
		// several goroutines send different events through one client at the same time: every frame on the wire
		// must still be the frame of exactly one of the events (nothing shared between frames under construction)
		g := len(p.Events)
		if g > 8 {
			g = 8
		}
		if !a.tunnel {
			a.gr.Close()
			a.sock.Close()
			// a router with a post-send pause: the senders queue on its lock after they have built their frames
			a.sock = common.NewMemSock(nil)
			a.gr = knx.VerifNewGroupRouter(a.sock, knx.RouterConfig{RetainCount: 4, PostSendPauseDuration: 500 * time.Microsecond})
		}
		var wg sync.WaitGroup
		errs := make(chan error, len(p.Events))
		for k := 0; k < g; k++ {
			wg.Add(1)
			go func(k int) {
				defer wg.Done()
				for i := k; i < len(p.Events); i += g {
					if err := a.send(toLibEvent(p.Events[i])); err != nil {
						errs <- err
					}
				}
			}(k)
		}
		wg.Wait()
		close(errs)
		for err := range errs {
			return common.Failf("send-error", "concurrent Send returned %v", err)
		}
		frames := a.dataFrames()
		if len(frames) != len(p.Events) {
			return common.Failf("frame-count", "%d events sent by %d goroutines, %d distinct frames on the wire", len(p.Events), g, len(frames))
		}
		used := make([]bool, len(p.Events))
		for _, fb := range frames {
			matched := false
			var last *common.Fail
			for i, ev := range p.Events {
				if used[i] {
					continue
				}
				if f := checkOutboundFrame(fb, ev, a.tunnel); f == nil {
					used[i], matched = true, true
					break
				} else {
					last = f
				}
			}
			if !matched {
				f := common.Failf("frame-of-no-event", "%d goroutines sent %d different events; the frame %x is the frame of none of them (closest mismatch: %s: %s)", g, len(p.Events), fb, last.Kind, last.Detail)
				return f
			}
		}
	case "in":
		for _, k := range p.AckFail {
			a.ackFail[k] = true
		}
		var want []knx.GroupEvent
		for _, c := range p.Inbound {
			if ev := expectEvent(c); ev != nil {
				want = append(want, *ev)
			}
			a.deliver(common.ToLibCemi(c))
		}
		a.deliver(sentinelMsg())
		got, f := readUntilSentinel(a)
		if f != nil {
			return f
		}
		for i := 0; i < len(want) && i < len(got); i++ {
			if !sameEvent(want[i], got[i]) {
				return common.Failf("event-differs", "inbound stream of %d messages: event #%d is %+v, the reference filter-map yields %+v", len(p.Inbound), i, got[i], want[i])
			}
		}
		if len(got) != len(want) {
			extra := ""
			if len(got) > len(want) {
				extra = fmt.Sprintf(" (first surplus event %+v)", got[len(want)])
			}
			return common.Failf("event-count", "inbound stream of %d messages: %d events surfaced, the reference filter-map yields %d%s", len(p.Inbound), len(got), len(want), extra)
		}
		// the group channel closes when the client's does
		a.close()
		closedA = true
		tm := time.NewTimer(5 * time.Second)
		defer tm.Stop()
		for {
			select {
			case _, open := <-a.inbound():
				if !open {
					return nil
				}
			case <-tm.C:
				return common.Failf("group-inbound-not-closed", "the group Inbound channel did not close within 5 s after the %s client was closed", p.Client)
			}
		}
	case "e2e":
		b, err := newGroupEnd(p.Client2 == "tunnel")
		if err != nil {
			return common.Failf("setup", "group %s on memsock: %v", p.Client2, err)
		}
		defer func() { b.close(); b.sock.Close() }()
		for i, g := range p.Events {
			before := len(a.dataFrames())
			if err := a.send(toLibEvent(g)); err != nil {
				return common.Failf("send-error", "Send(%+v) returned %v", g, err)
			}
			frames := a.dataFrames()
			if len(frames) != before+1 {
				return common.Failf("frame-count", "Send #%d emitted %d frames", i, len(frames)-before)
			}
			// the gateway: decode the bytes, turn a request into an indication, pass it on
			var svc knxnet.Service
			if _, err := knxnet.Unpack(frames[before], &svc); err != nil {
				return common.Failf("relay-decode", "the frame emitted for %+v does not decode: %v", g, err)
			}
			var ld cemi.LData
			switch v := svc.(type) {
			case *knxnet.TunnelReq:
				r, ok := v.Payload.(*cemi.LDataReq)
				if !ok {
					return common.Failf("relay-kind", "tunnelling request carries %T", v.Payload)
				}
				ld = r.LData
			case *knxnet.RoutingInd:
				r, ok := v.Payload.(*cemi.LDataInd)
				if !ok {
					return common.Failf("relay-kind", "routing indication carries %T", v.Payload)
				}
				ld = r.LData
			}
			b.deliver(&cemi.LDataInd{LData: ld})
			b.deliver(sentinelMsg())
			got, f := readUntilSentinel(b)
			if f != nil {
				return f
			}
			d, _ := hex.DecodeString(g.Data)
			want := knx.GroupEvent{Command: knx.GroupCommand(g.Cmd), Source: cemi.IndividualAddr(g.Src), Destination: cemi.GroupAddr(g.Dst), Data: wirePayload(d)}
			if len(got) != 1 || !sameEvent(got[0], want) {
				return common.Failf("e2e-differs", "event %+v sent through a group %s arrived at a group %s as %+v; expected exactly %+v", g, p.Client, p.Client2, got, want)
			}
		}
	}
	return nil
}

// ---------------------------------------------------------------------------------- generator

func genGEvent(rt *rapid.T) gEvent {
	n := rapid.SampledFrom([]int{0, 1, 2, 3, 14, 15, 16, 17, 254}).Draw(rt, "len")
	if rapid.IntRange(0, 2).Draw(rt, "len-free") == 0 {
		n = rapid.IntRange(0, 254).Draw(rt, "len-any")
	}
	d := make([]byte, n)
	for i := range d {
		d[i] = rapid.Byte().Draw(rt, "d")
	}
	if n > 0 && rapid.Bool().Draw(rt, "first-edge") {
		d[0] = rapid.SampledFrom([]byte{0, 1, 0x3f, 0x40, 0x7f, 0x80, 0xc0, 0xff}).Draw(rt, "first")
	}
	if n == 6 && d[0]&0x3f == sentinelByte {
		d[0] = 0
	}
	return gEvent{Cmd: rapid.IntRange(0, 2).Draw(rt, "cmd"), Src: int(common.GenU16(rt, "src")), Dst: int(common.GenU16(rt, "dst")), Data: hex.EncodeToString(d)}
}

func genPlanC12(rt *rapid.T) c12Plan {
	p := c12Plan{Client: rapid.SampledFrom([]string{"tunnel", "router"}).Draw(rt, "client"), Dir: rapid.SampledFrom([]string{"out", "in", "in", "e2e", "out-concurrent"}).Draw(rt, "dir")}
	switch p.Dir {
	case "out-concurrent":
		for i := 0; i < rapid.IntRange(2, 16).Draw(rt, "events"); i++ {
			e := genGEvent(rt)
			e.Src = 0x1000 + i // distinct events
			p.Events = append(p.Events, e)
		}
	case "out", "e2e":
		p.Client2 = rapid.SampledFrom([]string{"tunnel", "router"}).Draw(rt, "client2")
		for i := 0; i < rapid.IntRange(1, 12).Draw(rt, "events"); i++ {
			e := genGEvent(rt)
			p.Events = append(p.Events, e)
			if rapid.IntRange(0, 5).Draw(rt, "same-event-again") == 0 {
				for k := 0; k < rapid.IntRange(1, 3).Draw(rt, "same-event-n"); k++ {
					p.Events = append(p.Events, e)
				}
			}
		}
	case "in":
		if p.Client == "tunnel" && rapid.IntRange(0, 2).Draw(rt, "ack-failures") == 0 {
			for i := 0; i < rapid.IntRange(1, 3).Draw(rt, "n-ack-fail"); i++ {
				p.AckFail = append(p.AckFail, rapid.IntRange(0, 30).Draw(rt, "ack-fail-at"))
			}
		}
		for i := 0; i < rapid.IntRange(1, 40).Draw(rt, "messages"); i++ {
			kind := rapid.SampledFrom(common.CemiKinds).Draw(rt, "kind")
			if rapid.IntRange(0, 1).Draw(rt, "favour-ind") == 0 {
				kind = rapid.SampledFrom([]string{"ldata-ind-app", "ldata-ind-app", "ldata-ind-ctl", "ldata-con-app", "ldata-req-app"}).Draw(rt, "kind2")
			}
			c := common.GenCemi(rt, kind)
			if c.LData != nil {
				if rapid.Bool().Draw(rt, "group-dst") {
					c.LData.C2 |= 0x80
				} else if rapid.Bool().Draw(rt, "indiv-dst") {
					c.LData.C2 &^= 0x80
				}
				if !c.LData.TPDU.Control && rapid.IntRange(0, 2).Draw(rt, "group-apci") > 0 {
					c.LData.TPDU.APCI = uint8(rapid.IntRange(0, 2).Draw(rt, "apci"))
				}
				if !c.LData.TPDU.Numbered {
					c.LData.TPDU.Seq = 0
				}
				if !c.LData.TPDU.Control && len(c.LData.TPDU.Data) == 6 && c.LData.TPDU.Data[0] == sentinelByte {
					c.LData.TPDU.Data[0] = 0
				}
			}
			p.Inbound = append(p.Inbound, c)
			// the bus repeats itself (a switch pressed twice, a sensor sending the same value cyclically): the same
			// telegram 2..4 times in a row, sometimes with something that does not surface in between
			if rapid.IntRange(0, 5).Draw(rt, "same-again") == 0 {
				for k := 0; k < rapid.IntRange(1, 3).Draw(rt, "same-n"); k++ {
					if rapid.IntRange(0, 3).Draw(rt, "filler") == 0 {
						p.Inbound = append(p.Inbound, common.GenCemi(rt, rapid.SampledFrom([]string{"ldata-con-app", "ldata-ind-ctl", "ldata-req-app"}).Draw(rt, "filler-kind")))
					}
					p.Inbound = append(p.Inbound, c)
				}
			}
		}
	}
	return p
}

func TestC12(t *testing.T) {
	rec := common.NewRec("C12", "real")
	completed := false
	defer func() { rec.Finish(completed) }()
	if rec.Env.Replay != "" {
		common.ReplayOnly(t, rec, c12Run)
		completed = true
		return
	}
	// enumerated: every payload length 0..254 x both clients (out), every APCI x control/data x address type x L_Data kind (in)
	if rec.Env.Shard == 0 {
		for _, client := range []string{"tunnel", "router"} {
			p := c12Plan{Client: client, Dir: "out"}
			for n := 0; n <= 254; n++ {
				d := bytes.Repeat([]byte{0xff}, n)
				p.Events = append(p.Events, gEvent{Cmd: n % 3, Src: 0x1101 + n, Dst: 0x0800 + n, Data: hex.EncodeToString(d)})
			}
			rec.Eval(255)
			rec.NonTrivialEnum(255)
			if f := common.Guard(func() *common.Fail { return c12Run(p) }); f != nil {
				common.Report(t, rec, f, p)
			}
			q := c12Plan{Client: client, Dir: "in"}
			for _, code := range []uint8{common.CodeLDataReq, common.CodeLDataCon, common.CodeLDataInd} {
				for apci := 0; apci < 16; apci++ {
					for _, ctl := range []bool{false, true} {
						for _, grp := range []uint8{0x80, 0} {
							c := &common.RCemi{Code: code, LData: &common.RLData{C1: 0xbc, C2: 0x60 | grp, Src: 0x1101, Dst: uint16(0x0800 + apci),
								TPDU: common.RTPDU{Control: ctl, APCI: uint8(apci), Data: []byte{uint8(apci), 7}}}}
							if ctl {
								c.LData.TPDU.APCI &= 3
								c.LData.TPDU.Data = nil
							}
							q.Inbound = append(q.Inbound, c)
						}
					}
				}
			}
			rec.Eval(int64(len(q.Inbound)))
			rec.NonTrivialEnum(int64(len(q.Inbound)))
			if f := common.Guard(func() *common.Fail { return c12Run(q) }); f != nil {
				common.Report(t, rec, f, q)
			}
		}
		rec.Exhaustive("every payload length 0..254 through both group clients (outbound); every L_Data kind x APCI 0..15 x control/data unit x group/individual destination through both group clients (inbound)")
	}
	common.Drive(t, rec, func(rt *rapid.T) c12Plan {
		p := genPlanC12(rt)
		rec.Class(fmt.Sprintf("%s-%s", p.Dir, p.Client))
		rec.NonTrivial(common.HashJSON(p))
		rec.Sample(p.Dir+"-"+p.Client, p)
		return p
	}, c12Run)
	completed = true
}
