package rtr

import (
	"sort"
	"sync"
	"sync/atomic"
	"time"

	"github.com/vapourismo/knx-go/knx"
	"github.com/vapourismo/knx-go/knx/knxnet"
	"verif/harness/common"
)

// bargeRound: one round of the barge scenario with as little harness between the senders and the client as possible
// (no trace, no gate: transmissions are stamped into a preallocated array, the intake of the indication into an
// atomic) - the senders have to be as quick at taking the send lock again as an application's loop is.
// It returns the number of transmissions that began after the serve loop had taken the busy indication and before the
// first silence of 30 ms; ok=false if no such silence followed the intake (the burst was over too early).
func bargeRound(senders, perSender int, busyAfter time.Duration, waitMs int) (count int, ok, hung bool) {
	sock := common.NewMemSock(nil)
	total := senders * perSender
	stamps := make([]int64, total+8)
	var n int64
	var intake int64
	sock.OnSend = func(f *common.OutFrame) error {
		if i := atomic.AddInt64(&n, 1) - 1; int(i) < len(stamps) {
			stamps[i] = f.At.UnixNano()
		}
		return nil
	}
	sock.OnDelivered = func(svc knxnet.Service) {
		if _, isBusy := svc.(*knxnet.RoutingBusy); isBusy {
			atomic.StoreInt64(&intake, time.Now().UnixNano())
		}
	}
	r := knx.VerifNewRouter(sock, knx.RouterConfig{RetainCount: 4, PostSendPauseDuration: 0})
	go func() {
		for range r.Inbound() {
		}
	}()
	var wg sync.WaitGroup
	msg := indMsg(7)
	for l := 0; l < senders; l++ {
		wg.Add(1)
		go func() {
			defer wg.Done()
			for i := 0; i < perSender; i++ {
				r.Send(msg)
			}
		}()
	}
	time.Sleep(busyAfter)
	sock.Inject(&knxnet.RoutingBusy{WaitTime: time.Duration(waitMs) * time.Millisecond, Control: 1})
	done := make(chan struct{})
	go func() { wg.Wait(); close(done) }()
	if !common.WaitLive(done, 5*time.Second+time.Duration(waitMs)*time.Millisecond) {
		hung = true
	}
	r.Close()
	sock.Close()
	<-sock.PumpDone()
	if hung {
		return 0, false, true
	}
	in := atomic.LoadInt64(&intake)
	if in == 0 {
		return 0, false, false
	}
	m := int(atomic.LoadInt64(&n))
	if m > len(stamps) {
		m = len(stamps)
	}
	ts := append([]int64{}, stamps[:m]...)
	sort.Slice(ts, func(a, b int) bool { return ts[a] < ts[b] })
	last := in
	for _, t := range ts {
		if t <= in {
			continue
		}
		if t-last >= 30e6 {
			return count, true, false
		}
		count++
		last = t
	}
	return count, false, false
}
