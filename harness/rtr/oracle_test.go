package rtr

import (
	"fmt"
	"sort"

	"verif/harness/common"
)

func failEv(evs []REv, at int, kind, format string, args ...any) *common.Fail {
	f := common.Failf(kind, format, args...)
	lo := at - 40
	if lo < 0 {
		lo = 0
	}
	hi := at + 8
	if hi > len(evs) {
		hi = len(evs)
	}
	f.Extra = map[string]any{"around_event": at, "trace": dump(evs[lo:hi], 0)}
	return f
}

func capOf(p *RPlan) int {
	if p.Retain == 0 {
		return 32
	}
	return p.Retain
}

// oracleC14 is the reference model of the retained window (Appendix A.5) plus the shutdown and
// delivery clauses.
func oracleC14(p *RPlan, res *RResult) *common.Fail {
	evs := res.Events
	if res.RetxDiff != "" {
		return failEv(evs, len(evs)-1, "retransmission-differs", "a retransmission is not the message that was sent: %s", res.RetxDiff)
	}
	if res.ServeStalled > 0 {
		unread := 0
		for _, e := range evs {
			if e.K == "dlv" && e.Note == "ind" {
				unread++
			}
			if e.K == "read" {
				unread--
			}
		}
		return failEv(evs, len(evs)-1, "serve-stalled", "the client stopped taking frames from its socket: %d frames (routing, lost and busy indications among them) were still waiting 5 s after the last one was handed over, with the client open, no Send pending and %d indications unread by the application - lost and busy indications are not acted upon and Close cannot close Inbound",
			res.ServeStalled, unread)
	}
	cp := capOf(p)
	var retained, resendQ []int
	pending := map[int]bool{}
	origSeen := map[int]bool{}
	everSent := map[int]bool{}
	fuzzy := false
	injected := map[int]int{}
	read := map[int]int{}
	closed := false
	drained := false
	push := func(tag int) {
		retained = append(retained, tag)
		if len(retained) > cp {
			retained = retained[len(retained)-cp:]
		}
	}
	for i, e := range evs {
		switch e.K {
		case "send>":
			pending[e.Tag] = true
		case "send<":
			if !origSeen[e.Tag] && e.Err == "" {
				return failEv(evs, i, "send-without-frame", "Send(tag %d) returned nil but no routing indication left the socket", e.Tag)
			}
			delete(pending, e.Tag)
		case "out":
			if e.Tag == noTag {
				return failEv(evs, i, "foreign-frame", "the router client emitted a frame that is not a routing indication: %s", e.Note)
			}
			switch {
			case pending[e.Tag] && !origSeen[e.Tag]:
				origSeen[e.Tag] = true
				if e.Err == "" {
					everSent[e.Tag] = true
					push(e.Tag)
				}
			case len(resendQ) > 0 && resendQ[0] == e.Tag:
				resendQ = resendQ[1:]
				if e.Err == "" {
					push(e.Tag)
				}
			case fuzzy && everSent[e.Tag]:
				// a retransmission after an un-gated lost indication: which messages were retained when
				// the serve loop obtained the lock is not observable; any earlier success is acceptable
			default:
				why := "it was never transmitted successfully before"
				if everSent[e.Tag] {
					why = fmt.Sprintf("it is not what the reference window resends next (expected resend queue %v, retained %v)", resendQ, retained)
				}
				return failEv(evs, i, "unattributable-frame", "routing indication with tag %d left the socket but belongs to no Send in progress and %s", e.Tag, why)
			}
		case "inj":
			switch e.Note {
			case "ind":
				injected[e.Tag]++
			case "lost":
				if e.N > 0 {
					fuzzy = true
				}
			case "lostq":
				if !fuzzy {
					if e.Lane != len(retained) {
						return failEv(evs, i, "retained-length", "at quiescence the client retains %d messages, the reference window holds %d (%v)", e.Lane, len(retained), retained)
					}
					if len(resendQ) > 0 {
						return failEv(evs, i, "resend-incomplete", "the previous lost indication still owes the retransmission of %v", resendQ)
					}
					m := e.N
					if m > len(retained) {
						m = len(retained)
					}
					resendQ = append([]int{}, retained[len(retained)-m:]...)
					retained = retained[:len(retained)-m]
				}
			}
		case "note":
			switch e.Note {
			case "lostq-done":
				if closed {
					resendQ = nil // the client was closed while the retransmission was under way
				}
				if !fuzzy && len(resendQ) > 0 {
					return failEv(evs, i, "resend-incomplete", "after lost indication: %d frames were emitted, still missing the retransmission of %v (in this order)", e.N, resendQ)
				}
			case "application drained Inbound":
				drained = true
			}
		case "read":
			read[e.Tag]++
		case "close":
			closed = true
		}
	}
	if res.MaxRetained > cp {
		return failEv(evs, len(evs)-1, "retain-bound", "the client retained %d messages, RetainCount is %d", res.MaxRetained, cp)
	}
	if res.SendHung {
		return failEv(evs, len(evs)-1, "send-hung", "a Send did not return within 5 s (deadlock): %d sends, %d network events", len(p.Senders), len(p.Net))
	}
	if closed && !res.InboundClosed {
		return failEv(evs, len(evs)-1, "inbound-not-closed", "Inbound() was not closed within 5 s after Close")
	}
	var tags []int
	seen := map[int]bool{}
	for t := range injected {
		if !seen[t] {
			seen[t] = true
			tags = append(tags, t)
		}
	}
	for t := range read {
		if !seen[t] {
			seen[t] = true
			tags = append(tags, t)
		}
	}
	sort.Ints(tags)
	for _, t := range tags {
		switch {
		case read[t] > injected[t]:
			return failEv(evs, len(evs)-1, "delivered-twice", "routing indication %d was received %d time(s) but read %d times from Inbound", t, injected[t], read[t])
		case read[t] < injected[t] && drained && p.CloseUs == 0:
			return failEv(evs, len(evs)-1, "indication-lost", "routing indication %d was received %d time(s) but read %d times although Inbound was drained while the client was open", t, injected[t], read[t])
		}
	}
	return nil
}

// oracleC13: pacing lower bound, busy silence lower bounds, liveness.
// It returns (failure, inconclusive reason).
func oracleC13(p *RPlan, res *RResult) (*common.Fail, string) {
	evs := res.Events
	pause := int64(p.PauseUs) * 1000
	var outs []int
	for i, e := range evs {
		if e.K == "out" {
			outs = append(outs, i)
		}
	}
	for k := 0; k+1 < len(outs); k++ {
		a, b := evs[outs[k]], evs[outs[k+1]]
		if a.Err == "" && b.T-a.T2 < pause {
			return failEv(evs, outs[k+1], "pacing", "transmission of tag %d started %.3f ms after the successful transmission of tag %d completed; the post-send pause is %.3f ms",
				b.Tag, float64(b.T-a.T2)/1e6, a.Tag, float64(pause)/1e6), ""
		}
	}
	if res.SendHung {
		return failEv(evs, len(evs)-1, "send-hung", "a Send did not return within 5 s"), ""
	}
	inconclusive := ""
	for i, e := range evs {
		if e.K != "inj" {
			continue
		}
		wait := int64(e.N) * 1e6
		if wait > 50e6 {
			wait = 50e6
		}
		switch e.Note {
		case "busy-idle":
			held := false
			for _, x := range evs[i:] {
				if x.K == "note" && x.Note == "hold-observed" {
					held = true
					break
				}
				if x.K == "note" && x.Note == "hold-missed" {
					break
				}
			}
			// the serve loop went on to the next frame: it has dealt with the indication, and the senders were held
			// back until then - nothing that is transmitted from here on was "already inside Send"
			handledAt := -1
			for j, x := range evs[i:] {
				if x.K == "note" && x.Note == "busy-handled" {
					handledAt = i + j
					break
				}
				if x.K == "inj" && j > 0 {
					break
				}
			}
			if !held && handledAt < 0 {
				inconclusive = "busy at idle: the lock was never seen held and the serve loop was not seen to move on"
				continue
			}
			for _, oi := range outs {
				if oi > i && (held || oi > handledAt) && evs[oi].T < e.T+wait {
					return failEv(evs, oi, "busy-ignored", "a busy indication announcing %d ms was handed over at %.3f ms while the client was idle and had been dealt with by the serve loop (send lock seen held, or the next frame taken) before any sender was released; "+
						"tag %d was nevertheless transmitted at %.3f ms, %.3f ms into the silence of at least %.3f ms",
						e.N, float64(e.T)/1e6, evs[oi].Tag, float64(evs[oi].T)/1e6, float64(evs[oi].T-e.T)/1e6, float64(wait)/1e6), ""
				}
			}
		case "busy":
			if p.Scenario != "saturated" || wait < pause+10e6 {
				continue
			}
			// delivered at all?
			dl := int64(-1)
			for _, x := range evs[i:] {
				if x.K == "dlv" && x.Note == "busy" {
					dl = x.T
					break
				}
			}
			if dl < 0 {
				inconclusive = "busy under saturation: the serve loop never took the indication"
				continue
			}
			// Between taking the indication from the socket and obtaining the send lock the serve loop can be
			// descheduled; transmissions in that window prove nothing. The silence must have begun within
			// `grace` of the hand-over: only transmissions later than that, with no silence before them, count.
			const grace = int64(100e6)
			found := false
			last := int64(-1)
			after := 0
			for _, oi := range outs {
				o := evs[oi]
				from := last
				if from < e.T {
					from = e.T // no transmission since the hand-over started: the silence may begin there
				}
				if o.T >= e.T && o.T-from >= wait {
					found = true
					break
				}
				if o.T >= dl+grace {
					after++
				}
				last = o.T2
			}
			if !found {
				if after < 2 {
					inconclusive = "busy under saturation: fewer than two transmissions later than 100 ms after the hand-over"
					continue
				}
				return failEv(evs, i, "busy-ignored", "a busy indication announcing %d ms was taken in under saturation, %d transmissions started more than 100 ms later, but no silence of %.3f ms appears in the transmission log after the hand-over",
					e.N, after, float64(wait)/1e6), ""
			}
		}
	}
	return nil, inconclusive
}

// oracleC17R: indications are read in the order in which the client took them from the socket.
func oracleC17R(p *RPlan, res *RResult) *common.Fail {
	var acc, rd []int
	drained := false
	for _, e := range res.Events {
		switch {
		case e.K == "dlv" && e.Note == "ind":
			acc = append(acc, e.Tag)
		case e.K == "read":
			rd = append(rd, e.Tag)
		case e.K == "note" && e.Note == "application drained Inbound":
			drained = true
		}
	}
	n := len(rd)
	if len(acc) < n {
		n = len(acc)
	}
	for i := 0; i < n; i++ {
		if rd[i] != acc[i] {
			f := common.Failf("order", "the application read %v but the indications were received in the order %v (first difference at position %d)", rd, acc, i)
			f.Extra = map[string]any{"trace": dump(res.Events, 80)}
			return f
		}
	}
	if drained && len(rd) != len(acc) {
		return common.Failf("count", "%d indications received, %d read although Inbound was drained while the client was open", len(acc), len(rd))
	}
	return nil
}
