package rtr

import (
	"fmt"
	"testing"

	"pgregory.net/rapid"
	"verif/harness/common"
)

// C14, lost indication racing senders. The gated plans of TestC14 decide "exactly the last min(k, retained)" with an
// exact model, but only at quiescence. Here one routing-lost indication with a count above everything retained
// arrives in the middle of a burst of 2..6 senders, RetainCount is larger than the burst (nothing is trimmed) and no
// transmission fails. The batch is cut the moment the server goroutine holds the send lock, and the lock serialises
// transmission and retention; so whatever the schedule, the retransmissions - all of them belong to this one
// indication - must be the first m original transmissions in their original order, where m lies between the number
// of originals that had left before the indication was injected and the number that had left before the first
// retransmission. A batch that starts later than the first original, skips one, repeats one or is out of order has
// no such m. A batch that is a proper prefix of the shortest admissible one is reported as inconclusive when the run
// may have been cut short (the harness cannot tell a late goroutine from a missing retransmission).

func oracleC14Race(p *RPlan, res *RResult) (*common.Fail, string) {
	evs := res.Events
	pending := map[int]bool{}
	orig := map[int]bool{}
	var originals, batch []int
	injAt, firstResend := -1, -1
	mLo, mHi := 0, 0
	settled := false
	for i, e := range evs {
		switch e.K {
		case "send>":
			pending[e.Tag] = true
		case "send<":
			if e.Err != "" {
				return nil, "a Send failed: " + e.Err
			}
		case "note":
			if e.Note == "settled" {
				settled = true
			}
		case "inj":
			if e.Note == "lost" && injAt < 0 {
				injAt, mLo = i, len(originals)
			}
		case "out":
			if e.Tag == noTag {
				return failEv(evs, i, "foreign-frame", "the router client emitted a frame that is not a routing indication: %s", e.Note), ""
			}
			if pending[e.Tag] && !orig[e.Tag] {
				orig[e.Tag] = true
				originals = append(originals, e.Tag)
				continue
			}
			if !orig[e.Tag] {
				return failEv(evs, i, "unattributable-frame", "routing indication with tag %d left the socket but no Send for it had begun", e.Tag), ""
			}
			if injAt < 0 {
				return failEv(evs, i, "unattributable-frame", "tag %d was transmitted a second time before any lost indication had been injected", e.Tag), ""
			}
			if firstResend < 0 {
				firstResend, mHi = i, len(originals)
			}
			batch = append(batch, e.Tag)
		}
	}
	if injAt < 0 {
		return nil, "no lost indication in the trace"
	}
	if firstResend < 0 {
		mHi = len(originals)
	}
	// the batch must be originals[0:m] for some m in [mLo, mHi]
	for k, t := range batch {
		if k >= mHi || k >= len(originals) || originals[k] != t {
			want := "nothing more (every message retained by then had been repeated)"
			if k < mHi && k < len(originals) {
				want = fmt.Sprintf("tag %d", originals[k])
			}
			return failEv(evs, firstResend, "resend-wrong", "lost indication with count %d while %d..%d messages were retained (RetainCount %d): retransmission #%d is tag %d, the reference window resends %s - original order %v, retransmitted %v",
				p.Net[0].Count, mLo, mHi, capOf(p), k, t, want, originals, batch), ""
		}
	}
	if len(batch) < mLo {
		if !settled {
			return nil, "retransmissions incomplete and the run did not settle"
		}
		return failEv(evs, len(evs)-1, "resend-incomplete", "lost indication with count %d when at least %d messages were retained: only %d were retransmitted (%v of %v) although the client then stayed silent with its send lock free",
			p.Net[0].Count, mLo, len(batch), batch, originals[:mLo]), ""
	}
	return nil, ""
}

func genPlanC14Race(rt *rapid.T) *RPlan {
	p := &RPlan{NoProbe: true}
	p.PauseUs = rapid.SampledFrom([]int{0, 200, 1000, 3000}).Draw(rt, "pause")
	lanes := rapid.IntRange(2, 6).Draw(rt, "senders")
	total := rapid.IntRange(lanes+2, 40).Draw(rt, "sends")
	if p.PauseUs >= 1000 && total > 24 {
		total = 24
	}
	p.Retain = total + rapid.IntRange(1, 8).Draw(rt, "retain-slack")
	p.SettleUs = 60_000 + 4*p.PauseUs
	p.Senders = make([][]RSend, lanes)
	for i := 0; i < total; i++ {
		p.Senders[i%lanes] = append(p.Senders[i%lanes], RSend{AfterUs: rapid.SampledFrom([]int{0, 0, 0, 40, 300}).Draw(rt, "gap"), Tag: i + 1})
	}
	span := total*(p.PauseUs+60)/2 + 200
	p.Net = []RNet{{AfterUs: rapid.IntRange(0, span).Draw(rt, "lost-after"), Kind: "lost", Count: rapid.SampledFrom([]int{total, total + 1, 2 * total, 65535}).Draw(rt, "count")}}
	return p
}

func TestC14Race(t *testing.T) {
	rec := common.NewRec("C14", "race")
	completed := false
	defer func() { rec.Finish(completed) }()
	run := func(p *RPlan) *common.Fail {
		rec.InFlight(p)
		res := runRouter(p)
		rec.Landed()
		f, inc := oracleC14Race(p, res)
		if f != nil {
			return f
		}
		if inc != "" {
			rec.Inconclusive(inc)
			return nil
		}
		// non-trivial: senders transmitted between the injection and the first retransmission
		lo, hi, seenInj := 0, 0, false
		for _, e := range res.Events {
			switch {
			case e.K == "inj" && e.Note == "lost":
				seenInj = true
			case e.K == "out" && !seenInj:
				lo++
				hi++
			case e.K == "out":
				hi++
			}
		}
		rec.Class(fmt.Sprintf("senders=%d pause=%dus", len(p.Senders), p.PauseUs))
		if lo > 0 && hi > lo {
			rec.Class("race: transmissions before and after the lost indication")
			rec.NonTrivial(common.HashJSON(p))
		}
		rec.Sample("lost-race", map[string]any{"plan": p})
		return nil
	}
	common.Drive(t, rec, genPlanC14Race, run)
	completed = true
}
