package sock

import (
	"bufio"
	"bytes"
	"fmt"
	"io"
	"net"
	"os"
	"sync"
	"sync/atomic"
	"testing"
	"time"

	"github.com/vapourismo/knx-go/knx"
	"github.com/vapourismo/knx-go/knx/cemi"
	"github.com/vapourismo/knx-go/knx/knxnet"
	"golang.org/x/net/ipv4"
	"pgregory.net/rapid"
	"verif/harness/common"
)

// C12 through the real constructors and kernel sockets: a group event of any payload length up to 254 bytes sent
// by one client arrives unchanged at another - two GroupRouters on one multicast group, and a GroupTunnel against a
// rule-following loopback gateway that relays the client's own telegrams back to it as indications.

type c12Event struct {
	Cmd  int    `json:"cmd"` // 0 read, 1 response, 2 write
	Hex  string `json:"hex"`
	Dest uint16 `json:"dest"`
}

type c12SockPlan struct {
	Kind   string     `json:"kind"` // router | tunnel | tunnel-duplex | tunnel-tcp
	Events []c12Event `json:"events"`
	// tunnel-tcp: the gateway writes relay #k in two segments cut at 1+Cuts[k%len]%(len-1), PauseUs apart; the last
	// Hold relays are written as one burst
	Cuts    []int `json:"cuts,omitempty"`
	PauseUs int   `json:"pause_us,omitempty"`
	Hold    int   `json:"hold,omitempty"`
	// Reserved: what the gateway writes into the reserved octet of the connection header of its tunnelling requests
	// (a receiver ignores it; the rules of acceptance speak of channel and sequence number only)
	Reserved int `json:"reserved,omitempty"`
	// tunnel: after this many events (> 0) the gateway ends the connection with a disconnect request; the client
	// reconnects, both sides start numbering at 0 again, and the remaining events follow on the new connection
	ReconnAt int `json:"reconn_at,omitempty"`
}

func (e c12Event) event() knx.GroupEvent {
	return knx.GroupEvent{Command: knx.GroupCommand(e.Cmd), Source: cemi.NewIndividualAddr3(1, 1, 9), Destination: cemi.GroupAddr(e.Dest), Data: unhex(e.Hex)}
}

// sameEvent: command, destination and payload (a read carries none; an empty payload is the single octet 0).
func sameEvent(want, got knx.GroupEvent) bool {
	norm := func(b []byte) []byte {
		if len(b) == 0 {
			return []byte{0}
		}
		return b
	}
	if want.Command != got.Command || want.Destination != got.Destination {
		return false
	}
	if want.Command == knx.GroupRead {
		return true
	}
	return bytes.Equal(norm(want.Data), norm(got.Data))
}

// keptEvents: what the application received stays what it was - it keeps every event (as a value, and a private copy of
// its data taken at once) and looks again when the run is over: later datagrams must not have changed it.
type keptEvents struct {
	got   []knx.GroupEvent
	snaps [][]byte
}

func (k *keptEvents) keep(e knx.GroupEvent) {
	k.got = append(k.got, e)
	k.snaps = append(k.snaps, append([]byte{}, e.Data...))
}

func (k *keptEvents) check(what string) *common.Fail {
	for i, e := range k.got {
		if !bytes.Equal(e.Data, k.snaps[i]) {
			return common.Failf("event-changed-later", "%s: event #%d (command %d, destination %v) carried the data %x when it was received; after the later events had arrived it reads %x", what, i, e.Command, e.Destination, k.snaps[i], e.Data)
		}
	}
	return nil
}

func c12SockRun(p c12SockPlan) (*common.Fail, string) {
	var kept keptEvents
	f, inc := c12SockRunInner(p, &kept)
	if f == nil {
		f = kept.check(p.Kind)
	}
	return f, inc
}

// c04RawUDP: a raw tunnel (knx.NewTunnel) over a kernel UDP socket. The gateway tunnels N telegrams stop-and-wait, of
// every cEMI kind the library knows (L_Data, L_Raw, L_Busmon and an unsupported code, by telegram number), with
// distinct bodies. The application reads them as they come, keeps them, and compares ALL of them with what was sent
// when the last one is in: delivered exactly once means the telegram delivered as number k is still telegram k after
// the socket has received k+1, k+2, ...
func c04RawUDP(p c12SockPlan) (*common.Fail, string) {
	pc, err := net.ListenUDP("udp4", &net.UDPAddr{IP: net.IPv4(127, 0, 0, 1)})
	if err != nil {
		return nil, "no loopback"
	}
	defer pc.Close()
	n := len(p.Events)
	mk := func(i int) cemi.Message {
		body := make([]byte, 10+i%9)
		for k := range body {
			body[k] = byte(i*17 + k*5 + 1)
		}
		switch i % 5 {
		case 0:
			return &cemi.LDataInd{LData: confLData(i)}
		case 1:
			b := cemi.LBusmonInd(body)
			return &b
		case 2:
			return &cemi.LRawInd{LRaw: cemi.LRaw(body)}
		case 3:
			return &cemi.LDataCon{LData: confLData(i)}
		}
		return &cemi.LRawCon{LRaw: cemi.LRaw(body)}
	}
	enc := func(m cemi.Message) []byte {
		b := make([]byte, cemi.Size(m))
		cemi.Pack(b, m)
		return b
	}
	acked := make(chan uint8, 64)
	var client atomic.Pointer[net.UDPAddr]
	connected := make(chan struct{})
	go func() {
		buf := make([]byte, 2048)
		for {
			k, from, err := pc.ReadFromUDP(buf)
			if err != nil {
				return
			}
			var s knxnet.Service
			if _, err := knxnet.Unpack(buf[:k], &s); err != nil {
				continue
			}
			switch v := s.(type) {
			case *knxnet.ConnReq:
				client.Store(from)
				pc.WriteToUDP(knxnet.AllocAndPack(&knxnet.ConnRes{Channel: 9, Status: knxnet.NoError, Control: knxnet.HostInfo{Protocol: knxnet.UDP4}}), from)
				select {
				case <-connected:
				default:
					close(connected)
				}
			case *knxnet.ConnStateReq:
				pc.WriteToUDP(knxnet.AllocAndPack(&knxnet.ConnStateRes{Channel: v.Channel, Status: knxnet.NoError}), from)
			case *knxnet.DiscReq:
				pc.WriteToUDP(knxnet.AllocAndPack(&knxnet.DiscRes{Channel: v.Channel, Status: 0}), from)
			case *knxnet.TunnelRes:
				select {
				case acked <- v.SeqNumber:
				default:
				}
			}
		}
	}()
	tun, err := knx.NewTunnel(pc.LocalAddr().String(), knxnet.TunnelLayerBusmon, knx.TunnelConfig{ResendInterval: 200 * time.Millisecond, ResponseTimeout: 3 * time.Second})
	if err != nil {
		return nil, "NewTunnel: " + err.Error()
	}
	defer tun.Close()
	<-connected
	go func() {
		from := client.Load()
		for i := 0; i < n; i++ {
			req := knxnet.AllocAndPack(&knxnet.TunnelReq{Channel: 9, SeqNumber: uint8(i), Payload: mk(i)})
			req[9] = byte(p.Reserved)
			for try := 0; try < 10; try++ {
				pc.WriteToUDP(req, from)
				tm := time.After(300 * time.Millisecond)
			wait:
				for {
					select {
					case sq := <-acked:
						if sq == uint8(i) {
							try = 99
							break wait
						}
					case <-tm:
						break wait
					}
				}
			}
		}
	}()
	var got []cemi.Message
	for len(got) < n {
		select {
		case m, open := <-tun.Inbound():
			if !open {
				return common.Failf("inbound-closed", "raw tunnel over UDP: Inbound() closed after %d of %d telegrams", len(got), n), ""
			}
			got = append(got, m)
			if p.PauseUs > 0 && len(got)%7 == 0 {
				time.Sleep(time.Duration(p.PauseUs) * time.Microsecond) // a reader that falls behind now and then
			}
		case <-time.After(5 * time.Second):
			return common.Failf("event-lost", "raw tunnel over UDP: telegram #%d of %d (kind %T) never surfaced", len(got), n, mk(len(got))), ""
		}
	}
	for i, m := range got {
		want := mk(i)
		if m.MessageCode() != want.MessageCode() || !bytes.Equal(enc(m), enc(want)) {
			return common.Failf("delivered-differs", "raw tunnel over UDP, %d telegrams acknowledged one by one: looked at after all had arrived, delivery #%d is %T %x; telegram #%d was %T %x", n, i, m, enc(m), i, want, enc(want)), ""
		}
	}
	return nil, ""
}

func c12SockRunInner(p c12SockPlan, kept *keptEvents) (*common.Fail, string) {
	switch p.Kind {
	case "raw-udp":
		return c04RawUDP(p)
	case "router":
		probeMulticast()
		if !mcastOK {
			return nil, "multicast unavailable: " + mcastWhy
		}
		k := int(atomic.AddInt32(&confSeq, 1))
		pid := os.Getpid()
		grp := mcastAddr(252, pid, k)
		cfg := knx.RouterConfig{MulticastLoopbackEnabled: true, PostSendPauseDuration: time.Millisecond}
		a, err := knx.NewGroupRouter(grp.String(), cfg)
		if err != nil {
			return nil, "NewGroupRouter: " + err.Error()
		}
		defer a.Close()
		b, err := knx.NewGroupRouter(grp.String(), cfg)
		if err != nil {
			return nil, "NewGroupRouter: " + err.Error()
		}
		defer b.Close()
		go func() { // the sender hears itself: keep its channel drained
			for range a.Inbound() {
			}
		}()
		for i, e := range p.Events {
			want := e.event()
			if err := a.Send(want); err != nil {
				return common.Failf("send-error", "group router: Send of event #%d (%d payload bytes) failed: %v", i, len(want.Data), err), ""
			}
			select {
			case got, open := <-b.Inbound():
				if !open {
					return common.Failf("inbound-closed", "group router: the receiving client's Inbound() closed while event #%d was under way", i), ""
				}
				kept.keep(got)
				if !sameEvent(want, got) {
					return common.Failf("event-differs", "group router to group router: event #%d sent as %+v arrived as %+v", i, want, got), ""
				}
			case <-time.After(3 * time.Second):
				return common.Failf("event-lost", "group router to group router over multicast loopback: event #%d (command %d, %d payload bytes) never arrived at the other client", i, e.Cmd, len(want.Data)), ""
			}
		}
	case "tunnel-tcp":
		// a group tunnel in TCP mode against a loopback TCP gateway that relays every telegram back as an indication -
		// written in two segments with a short pause at a drawn cut (the stream may be cut anywhere), the last few
		// relays held back and written as one burst
		ln, err := net.Listen("tcp4", "127.0.0.1:0")
		if err != nil {
			return nil, "no loopback"
		}
		defer ln.Close()
		gwErr := make(chan string, 1)
		go func() {
			c, err := ln.Accept()
			if err != nil {
				return
			}
			defer c.Close()
			c.(*net.TCPConn).SetNoDelay(true)
			rd := bufio.NewReader(c)
			var held [][]byte
			k := 0
			for {
				hdr := make([]byte, 6)
				if _, err := io.ReadFull(rd, hdr); err != nil {
					return
				}
				total := int(hdr[4])<<8 | int(hdr[5])
				if hdr[0] != 6 || hdr[1] != 0x10 || total < 6 {
					select {
					case gwErr <- fmt.Sprintf("the gateway read a broken frame header % x from the client", hdr):
					default:
					}
					return
				}
				frame := make([]byte, total)
				copy(frame, hdr)
				if _, err := io.ReadFull(rd, frame[6:]); err != nil {
					return
				}
				var sv knxnet.Service
				if _, err := knxnet.Unpack(frame, &sv); err != nil {
					continue
				}
				switch v := sv.(type) {
				case *knxnet.ConnReq:
					c.Write(knxnet.AllocAndPack(&knxnet.ConnRes{Channel: 9, Status: knxnet.NoError, Control: knxnet.HostInfo{Protocol: knxnet.TCP4}}))
				case *knxnet.ConnStateReq:
					c.Write(knxnet.AllocAndPack(&knxnet.ConnStateRes{Channel: v.Channel, Status: knxnet.NoError}))
				case *knxnet.DiscReq:
					c.Write(knxnet.AllocAndPack(&knxnet.DiscRes{Channel: v.Channel, Status: 0}))
				case *knxnet.TunnelReq:
					req, ok := v.Payload.(*cemi.LDataReq)
					if !ok {
						continue
					}
					out := knxnet.AllocAndPack(&knxnet.TunnelReq{Channel: v.Channel, SeqNumber: uint8(k), Payload: &cemi.LDataInd{LData: req.LData}})
					out[9] = byte(p.Reserved)
					k++
					if p.Hold > 0 && k > len(p.Events)-p.Hold {
						held = append(held, out)
						if k == len(p.Events) {
							var all []byte
							for _, h := range held {
								all = append(all, h...)
							}
							c.Write(all)
						}
						continue
					}
					cut := len(out)
					if len(p.Cuts) > 0 {
						cut = 1 + p.Cuts[k%len(p.Cuts)]%(len(out)-1)
					}
					c.Write(out[:cut])
					if cut < len(out) {
						time.Sleep(time.Duration(p.PauseUs) * time.Microsecond)
						c.Write(out[cut:])
					}
				}
			}
		}()
		gt, err := knx.NewGroupTunnel(ln.Addr().String(), knx.TunnelConfig{UseTCP: true, ResendInterval: 300 * time.Millisecond, ResponseTimeout: 3 * time.Second})
		if err != nil {
			return nil, "NewGroupTunnel (TCP): " + err.Error()
		}
		defer gt.Close()
		pending := 0
		recv := func(i int) *common.Fail {
			want := p.Events[i].event()
			select {
			case got, open := <-gt.Inbound():
				if !open {
					return common.Failf("inbound-closed", "group tunnel over TCP: Inbound() closed while event #%d (of %d) was under way - the gateway had neither closed the connection nor sent anything malformed", i, len(p.Events))
				}
				kept.keep(got)
				if !sameEvent(want, got) {
					return common.Failf("event-differs", "group tunnel over TCP -> gateway -> back: event #%d sent as %+v came back as %+v", i, want, got)
				}
			case msg := <-gwErr:
				return common.Failf("frame-garbled", "group tunnel over TCP: %s", msg)
			case <-time.After(3 * time.Second):
				return common.Failf("event-lost", "group tunnel over TCP: event #%d (command %d, %d payload bytes), relayed back by the gateway in segments %v / held back %d, never surfaced", i, p.Events[i].Cmd, len(want.Data), p.Cuts, p.Hold)
			}
			return nil
		}
		for i, e := range p.Events {
			if err := gt.Send(e.event()); err != nil {
				return common.Failf("send-error", "group tunnel over TCP: Send of event #%d failed: %v", i, err), ""
			}
			if p.Hold > 0 && i >= len(p.Events)-p.Hold {
				pending++
				continue
			}
			if f := recv(i); f != nil {
				return f, ""
			}
		}
		for i := len(p.Events) - pending; i < len(p.Events); i++ {
			if f := recv(i); f != nil {
				return f, ""
			}
		}
	case "tunnel-duplex":
		// both directions at once: the gateway tunnels N indications to the client (stop-and-wait, repeating an
		// unacknowledged one) while the application sends its events; the client's acknowledgements and its
		// requests leave through one socket from two goroutines. Every datagram the gateway receives is well-formed,
		// every event arrives once and unchanged, every indication surfaces once and in order.
		pc, err := net.ListenUDP("udp4", &net.UDPAddr{IP: net.IPv4(127, 0, 0, 1)})
		if err != nil {
			return nil, "no loopback"
		}
		defer pc.Close()
		nInd := 3 * len(p.Events)
		if nInd > 200 {
			nInd = 200
		}
		type gwSeen struct {
			garbled string
			events  []knx.GroupEvent
		}
		var mu sync.Mutex
		var seen gwSeen
		acked := make(chan uint8, 64)
		var outstanding atomic.Int32
		var client atomic.Pointer[net.UDPAddr]
		connected := make(chan struct{})
		go func() {
			buf := make([]byte, 2048)
			lastSeq := -1
			var lastReq []byte
			for {
				n, from, err := pc.ReadFromUDP(buf)
				if err != nil {
					return
				}
				if c := client.Load(); c != nil && c.Port != from.Port {
					continue // a stray datagram of another process
				}
				var s knxnet.Service
				if _, err := knxnet.Unpack(buf[:n], &s); err != nil || !framed(buf[:n]) {
					mu.Lock()
					if seen.garbled == "" {
						seen.garbled = fmt.Sprintf("%x (%v)", buf[:n], err)
					}
					mu.Unlock()
					continue
				}
				switch v := s.(type) {
				case *knxnet.ConnReq:
					client.Store(from)
					pc.WriteToUDP(knxnet.AllocAndPack(&knxnet.ConnRes{Channel: 9, Status: knxnet.NoError, Control: knxnet.HostInfo{Protocol: knxnet.UDP4}}), from)
					select {
					case <-connected:
					default:
						close(connected)
					}
				case *knxnet.ConnStateReq:
					pc.WriteToUDP(knxnet.AllocAndPack(&knxnet.ConnStateRes{Channel: v.Channel, Status: knxnet.NoError}), from)
				case *knxnet.DiscReq:
					pc.WriteToUDP(knxnet.AllocAndPack(&knxnet.DiscRes{Channel: v.Channel, Status: 0}), from)
				case *knxnet.TunnelRes:
					// the acknowledgement rules of C04: the connection's channel, status OK, the number of the telegram
					// under way (or, for a repetition that crossed its acknowledgement, of the one before)
					if cur := int(outstanding.Load()); v.Channel != 9 || v.Status != knxnet.NoError || (int(v.SeqNumber) != cur%256 && int(v.SeqNumber) != (cur+255)%256) {
						mu.Lock()
						if seen.garbled == "" {
							seen.garbled = fmt.Sprintf("acknowledgement %+v while telegram #%d (channel 9, sequence number %d) is the one under way", *v, cur, cur%256)
						}
						mu.Unlock()
					}
					select {
					case acked <- v.SeqNumber:
					default:
					}
				case *knxnet.TunnelReq:
					// the acknowledgement leaves when the books are done (deferred to the end of this case): the moment the
					// client has it, its Send returns and the test may look at what the gateway has recorded
					ack := knxnet.AllocAndPack(&knxnet.TunnelRes{Channel: v.Channel, SeqNumber: v.SeqNumber, Status: knxnet.NoError})
					if v.Channel != 9 {
						mu.Lock()
						if seen.garbled == "" {
							seen.garbled = fmt.Sprintf("request on channel %d (the connection's channel is 9): %x", v.Channel, buf[:n])
						}
						mu.Unlock()
					}
					if int(v.SeqNumber) == lastSeq {
						pc.WriteToUDP(ack, from)
						// a repetition: the same request again, octet for octet
						if !bytes.Equal(buf[:n], lastReq) {
							mu.Lock()
							if seen.garbled == "" {
								seen.garbled = fmt.Sprintf("the repetition of request number %d differs from its first transmission: %x, first %x", lastSeq, buf[:n], lastReq)
							}
							mu.Unlock()
						}
						continue
					}
					if lastSeq >= 0 && int(v.SeqNumber) != (lastSeq+1)%256 {
						mu.Lock()
						if seen.garbled == "" {
							seen.garbled = fmt.Sprintf("request number %d follows request number %d (every request before it was acknowledged): %x", v.SeqNumber, lastSeq, buf[:n])
						}
						mu.Unlock()
					}
					lastSeq = int(v.SeqNumber)
					lastReq = append(lastReq[:0], buf[:n]...)
					if req, ok := v.Payload.(*cemi.LDataReq); ok {
						if app, ok := req.Data.(*cemi.AppData); ok {
							mu.Lock()
							seen.events = append(seen.events, knx.GroupEvent{Command: knx.GroupCommand(app.Command), Destination: cemi.GroupAddr(req.Destination), Data: append([]byte{}, app.Data...)})
							mu.Unlock()
						}
					}
					pc.WriteToUDP(ack, from)
				}
			}
		}()
		gt, err := knx.NewGroupTunnel(pc.LocalAddr().String(), knx.TunnelConfig{ResendInterval: 200 * time.Millisecond, ResponseTimeout: 3 * time.Second})
		if err != nil {
			return nil, "NewGroupTunnel: " + err.Error()
		}
		defer gt.Close()
		<-connected
		// gateway -> client
		go func() {
			from := client.Load()
			for i := 0; i < nInd; i++ {
				outstanding.Store(int32(i))
				req := knxnet.AllocAndPack(&knxnet.TunnelReq{Channel: 9, SeqNumber: uint8(i), Payload: &cemi.LDataInd{LData: confLData(i)}})
				req[9] = byte(p.Reserved)
				for try := 0; try < 10; try++ {
					pc.WriteToUDP(req, from)
					tm := time.After(300 * time.Millisecond)
				wait:
					for {
						select {
						case sq := <-acked:
							if sq == uint8(i) {
								try = 99
								break wait
							}
						case <-tm:
							break wait
						}
					}
				}
			}
		}()
		// application: reader and sender at once
		readDone := make(chan *common.Fail, 1)
		go func() {
			for i := 0; i < nInd; i++ {
				select {
				case ev, open := <-gt.Inbound():
					if !open {
						readDone <- common.Failf("inbound-closed", "group tunnel: Inbound() closed after %d of %d indications", i, nInd)
						return
					}
					tag := -1
					if len(ev.Data) == 5 {
						tag = int(ev.Data[1])<<24 | int(ev.Data[2])<<16 | int(ev.Data[3])<<8 | int(ev.Data[4])
					}
					if tag != i {
						readDone <- common.Failf("event-differs", "group tunnel with traffic in both directions: indication #%d surfaced as %+v", i, ev)
						return
					}
				case <-time.After(5 * time.Second):
					readDone <- common.Failf("event-lost", "group tunnel with traffic in both directions: indication #%d of %d never surfaced", i, nInd)
					return
				}
			}
			readDone <- nil
		}()
		for i, e := range p.Events {
			if err := gt.Send(e.event()); err != nil {
				mu.Lock()
				g := seen.garbled
				mu.Unlock()
				return common.Failf("send-error", "group tunnel with traffic in both directions: Send of event #%d failed: %v (first garbled datagram at the gateway: %s)", i, err, g), ""
			}
		}
		if f := <-readDone; f != nil {
			return f, ""
		}
		mu.Lock()
		defer mu.Unlock()
		if seen.garbled != "" {
			return common.Failf("frame-garbled", "group tunnel with traffic in both directions: the gateway received a datagram that is not one well-formed frame: %s", seen.garbled), ""
		}
		if len(seen.events) != len(p.Events) {
			return common.Failf("event-count", "group tunnel with traffic in both directions: %d events sent, the gateway received %d", len(p.Events), len(seen.events)), ""
		}
		for i, e := range p.Events {
			if !sameEvent(e.event(), seen.events[i]) {
				return common.Failf("event-differs", "group tunnel with traffic in both directions: event #%d sent as %+v reached the gateway as %+v", i, e.event(), seen.events[i]), ""
			}
		}
	case "tunnel":
		pc, err := net.ListenUDP("udp4", &net.UDPAddr{IP: net.IPv4(127, 0, 0, 1)})
		if err != nil {
			return nil, "no loopback"
		}
		defer pc.Close()
		var inSeq uint32
		var clientAddr atomic.Pointer[net.UDPAddr]
		connects := make(chan struct{}, 8)
		go func() { // the gateway: acknowledges, and relays every telegram of the client back to it as an indication
			buf := make([]byte, 2048)
			for {
				n, from, err := pc.ReadFromUDP(buf)
				if err != nil {
					return
				}
				var s knxnet.Service
				if _, err := knxnet.Unpack(buf[:n], &s); err != nil {
					continue
				}
				switch v := s.(type) {
				case *knxnet.ConnReq:
					atomic.StoreUint32(&inSeq, 0) // a new connection: the numbering of both directions restarts
					clientAddr.Store(from)
					pc.WriteToUDP(knxnet.AllocAndPack(&knxnet.ConnRes{Channel: 9, Status: knxnet.NoError, Control: knxnet.HostInfo{Protocol: knxnet.UDP4}}), from)
					select {
					case connects <- struct{}{}:
					default:
					}
				case *knxnet.ConnStateReq:
					pc.WriteToUDP(knxnet.AllocAndPack(&knxnet.ConnStateRes{Channel: v.Channel, Status: knxnet.NoError}), from)
				case *knxnet.DiscReq:
					pc.WriteToUDP(knxnet.AllocAndPack(&knxnet.DiscRes{Channel: v.Channel, Status: 0}), from)
				case *knxnet.TunnelReq:
					pc.WriteToUDP(knxnet.AllocAndPack(&knxnet.TunnelRes{Channel: v.Channel, SeqNumber: v.SeqNumber, Status: knxnet.NoError}), from)
					if req, ok := v.Payload.(*cemi.LDataReq); ok {
						ind := &cemi.LDataInd{LData: req.LData}
						seq := atomic.AddUint32(&inSeq, 1) - 1
						relay := knxnet.AllocAndPack(&knxnet.TunnelReq{Channel: v.Channel, SeqNumber: uint8(seq), Payload: ind})
						relay[9] = byte(p.Reserved)
						pc.WriteToUDP(relay, from)
					}
				}
			}
		}()
		gt, err := knx.NewGroupTunnel(pc.LocalAddr().String(), knx.TunnelConfig{ResendInterval: 300 * time.Millisecond, ResponseTimeout: 3 * time.Second})
		if err != nil {
			return nil, "NewGroupTunnel: " + err.Error()
		}
		defer gt.Close()
		<-connects
		for i, e := range p.Events {
			if p.ReconnAt > 0 && i == p.ReconnAt {
				// the gateway ends the connection; the client reconnects on its own
				pc.WriteToUDP(knxnet.AllocAndPack(&knxnet.DiscReq{Channel: 9, Status: 0, Control: knxnet.HostInfo{Protocol: knxnet.UDP4}}), clientAddr.Load())
				select {
				case <-connects:
				case <-time.After(5 * time.Second):
					return nil, "the client did not reconnect within 5 s after the gateway's disconnect request"
				}
			}
			want := e.event()
			if err := gt.Send(want); err != nil {
				return common.Failf("send-error", "group tunnel: Send of event #%d (%d payload bytes) failed: %v", i, len(want.Data), err), ""
			}
			select {
			case got, open := <-gt.Inbound():
				if !open {
					return common.Failf("inbound-closed", "group tunnel: Inbound() closed while event #%d was under way", i), ""
				}
				kept.keep(got)
				if !sameEvent(want, got) {
					return common.Failf("event-differs", "group tunnel -> gateway -> group tunnel: event #%d sent as %+v came back as %+v", i, want, got), ""
				}
			case <-time.After(3 * time.Second):
				return common.Failf("event-lost", "group tunnel over UDP: event #%d (command %d, %d payload bytes), relayed back by the gateway as an indication, never surfaced", i, e.Cmd, len(want.Data)), ""
			}
		}
	}
	return nil, ""
}

func TestC12Sock(t *testing.T) {
	rec := common.NewRec("C12", "sock")
	completed := false
	defer func() { rec.Finish(completed) }()
	run := func(p c12SockPlan) *common.Fail {
		rec.InFlight(p)
		f, inc := c12SockRun(p)
		rec.Landed()
		if inc != "" {
			rec.Inconclusive(inc)
		}
		return f
	}
	probeMulticast()
	if rec.Env.Replay != "" {
		common.ReplayOnly(t, rec, run)
		completed = true
		return
	}
	// every payload length once per kind (sharded): the sizes are the point of this job
	if rec.Env.Shard == 0 {
		for _, kind := range []string{"router", "tunnel"} {
			p := c12SockPlan{Kind: kind}
			for n := 1; n <= 254; n++ {
				b := make([]byte, n)
				for i := range b {
					b[i] = byte(i*29 + n)
				}
				b[0] &= 0x3f
				p.Events = append(p.Events, c12Event{Cmd: 1 + n%2, Hex: fmt.Sprintf("%x", b), Dest: uint16(1 + n)})
			}
			p.Events = append(p.Events, c12Event{Cmd: 0, Dest: 77})
			rec.Eval(int64(len(p.Events)))
			rec.NonTrivialEnum(int64(len(p.Events)))
			if f := run(p); f != nil {
				common.Report(t, rec, f, p)
			}
		}
		rec.Exhaustive("every payload length 1..254 once, router to router over multicast and tunnel to gateway and back over UDP")
	}
	common.Drive(t, rec, func(rt *rapid.T) c12SockPlan {
		p := c12SockPlan{Kind: rapid.SampledFrom([]string{"router", "tunnel", "tunnel-duplex", "tunnel-tcp", "tunnel-tcp"}).Draw(rt, "kind")}
		big := false
		nev := rapid.IntRange(1, 12).Draw(rt, "events")
		if p.Kind == "tunnel-tcp" {
			nev = rapid.IntRange(1, 40).Draw(rt, "events-tcp")
		}
		if p.Kind == "tunnel-duplex" {
			nev = rapid.IntRange(20, 80).Draw(rt, "events-duplex")
		}
		for i := 0; i < nev; i++ {
			e := c12Event{Cmd: rapid.IntRange(0, 2).Draw(rt, "cmd"), Dest: uint16(rapid.IntRange(1, 65535).Draw(rt, "dest"))}
			if e.Cmd != 0 {
				var n int
				switch rapid.IntRange(0, 3).Draw(rt, "size-class") {
				case 0:
					n = rapid.IntRange(1, 16).Draw(rt, "small")
				case 1:
					n = rapid.IntRange(240, 254).Draw(rt, "top")
				default:
					n = rapid.IntRange(1, 254).Draw(rt, "any")
				}
				b := common.GenBytes(rt, "data", n, n)
				b[0] &= 0x3f
				e.Hex = fmt.Sprintf("%x", b)
				big = big || n >= 240
			}
			p.Events = append(p.Events, e)
		}
		if p.Kind == "tunnel-tcp" {
			for i := 0; i < rapid.IntRange(0, 4).Draw(rt, "ncuts"); i++ {
				p.Cuts = append(p.Cuts, rapid.IntRange(0, 300).Draw(rt, "cut"))
			}
			p.PauseUs = rapid.SampledFrom([]int{100, 1000, 3000}).Draw(rt, "seg-pause")
			if len(p.Events) > 3 && rapid.Bool().Draw(rt, "hold") {
				p.Hold = rapid.IntRange(2, len(p.Events)).Draw(rt, "hold-n")
			}
		}
		if p.Kind == "tunnel" && len(p.Events) >= 3 && rapid.Bool().Draw(rt, "reconnect") {
			p.ReconnAt = rapid.IntRange(1, len(p.Events)-1).Draw(rt, "reconnect-at")
		}
		if p.Kind != "router" {
			p.Reserved = rapid.SampledFrom([]int{0, 0, 1, 0x80, 0xff}).Draw(rt, "reserved-octet")
		}
		rec.Class(fmt.Sprintf("%s top-of-range=%v", p.Kind, big))
		rec.NonTrivial(common.HashJSON(p))
		rec.Sample(p.Kind, p)
		return p
	}, run)
	completed = true
}

var _ = ipv4.NewPacketConn

// TestC04Sock: C04's TCP clause through the real constructor and a kernel TCP socket - every request the gateway
// writes on the connection's channel is delivered once and in order, however the stream is cut (the tunnel-tcp mode
// of the C12 socket job: the telegrams the gateway tunnels are its relays of the client's own events).
func TestC04Sock(t *testing.T) {
	rec := common.NewRec("C04", "sock")
	completed := false
	defer func() { rec.Finish(completed) }()
	run := func(p c12SockPlan) *common.Fail {
		rec.InFlight(p)
		f, inc := c12SockRun(p)
		rec.Landed()
		if inc != "" {
			rec.Inconclusive(inc)
		}
		return f
	}
	if rec.Env.Replay != "" {
		common.ReplayOnly(t, rec, run)
		completed = true
		return
	}
	common.Drive(t, rec, func(rt *rapid.T) c12SockPlan {
		p := c12SockPlan{Kind: "tunnel-tcp", Reserved: rapid.SampledFrom([]int{0, 0, 1, 0x80, 0xff}).Draw(rt, "reserved-octet")}
		if rapid.IntRange(0, 3).Draw(rt, "raw-udp") == 0 {
			// a raw tunnel over UDP carrying every kind of cEMI message; what was delivered is looked at when all is in
			p.Kind = "raw-udp"
			p.Events = make([]c12Event, rapid.IntRange(5, 300).Draw(rt, "raw-telegrams"))
			p.PauseUs = rapid.SampledFrom([]int{0, 0, 200, 2000}).Draw(rt, "reader-falls-behind")
			rec.Class("udp raw tunnel: all cEMI kinds, deliveries compared at the end")
			rec.NonTrivial(common.HashJSON(p))
			rec.Sample("raw-udp", p)
			return p
		}
		if rapid.Bool().Draw(rt, "duplex-udp") {
			// UDP, both directions at once through one kernel socket: the acknowledgements of the gateway's telegrams
			// leave while the application's requests and their repetitions do
			p.Kind = "tunnel-duplex"
			for i := 0; i < rapid.IntRange(20, 80).Draw(rt, "events-duplex"); i++ {
				n := rapid.SampledFrom([]int{1, 2, 5, 14, 15, 40, 120, 254}).Draw(rt, "size")
				b := common.GenBytes(rt, "data", n, n)
				b[0] &= 0x3f
				p.Events = append(p.Events, c12Event{Cmd: 2, Hex: fmt.Sprintf("%x", b), Dest: uint16(1 + i)})
			}
			rec.Class("udp tunnel: duplex traffic")
			rec.NonTrivial(common.HashJSON(p))
			rec.Sample("duplex", p)
			return p
		}
		for i := 0; i < rapid.IntRange(1, 60).Draw(rt, "telegrams"); i++ {
			n := rapid.SampledFrom([]int{1, 2, 5, 14, 15, 40, 120, 254}).Draw(rt, "size")
			b := common.GenBytes(rt, "data", n, n)
			b[0] &= 0x3f
			p.Events = append(p.Events, c12Event{Cmd: 2, Hex: fmt.Sprintf("%x", b), Dest: uint16(1 + i)})
		}
		for i := 0; i < rapid.IntRange(0, 4).Draw(rt, "ncuts"); i++ {
			p.Cuts = append(p.Cuts, rapid.IntRange(0, 300).Draw(rt, "cut"))
		}
		p.PauseUs = rapid.SampledFrom([]int{100, 1000, 3000}).Draw(rt, "seg-pause")
		if len(p.Events) > 3 && rapid.Bool().Draw(rt, "hold") {
			p.Hold = rapid.IntRange(2, len(p.Events)).Draw(rt, "hold-n")
		}
		rec.Class(fmt.Sprintf("tcp tunnel: cuts=%d burst=%v", len(p.Cuts), p.Hold > 0))
		if len(p.Cuts) > 0 || p.Hold > 0 {
			rec.NonTrivial(common.HashJSON(p))
		}
		rec.Sample("tcp", p)
		return p
	}, run)
	completed = true
}

// TestC03Sock: the sender's clauses on the wire of a real UDP socket with traffic in both directions (the duplex mode
// of the C12 socket job): every datagram the gateway receives is one well-formed frame, request numbers are
// consecutive (every request is acknowledged before the next), a repetition is identical to the first transmission -
// while the client's acknowledgements and heartbeats leave through the same socket from other goroutines.
func TestC03Sock(t *testing.T) {
	rec := common.NewRec("C03", "sock")
	completed := false
	defer func() { rec.Finish(completed) }()
	run := func(p c12SockPlan) *common.Fail {
		rec.InFlight(p)
		f, inc := c12SockRun(p)
		rec.Landed()
		if inc != "" {
			rec.Inconclusive(inc)
		}
		return f
	}
	if rec.Env.Replay != "" {
		common.ReplayOnly(t, rec, run)
		completed = true
		return
	}
	common.Drive(t, rec, func(rt *rapid.T) c12SockPlan {
		p := c12SockPlan{Kind: "tunnel-duplex"}
		for i := 0; i < rapid.IntRange(40, 300).Draw(rt, "events-duplex"); i++ {
			n := rapid.SampledFrom([]int{1, 2, 5, 14, 15, 40, 120, 254}).Draw(rt, "size")
			b := common.GenBytes(rt, "data", n, n)
			b[0] &= 0x3f
			p.Events = append(p.Events, c12Event{Cmd: 2, Hex: fmt.Sprintf("%x", b), Dest: uint16(1 + i)})
		}
		rec.Class("udp tunnel: duplex traffic")
		rec.NonTrivial(common.HashJSON(p))
		rec.Sample("duplex", p)
		return p
	}, run)
	completed = true
}
