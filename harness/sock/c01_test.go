package sock

import (
	"encoding/binary"
	"encoding/hex"
	"fmt"
	"net"
	"os"
	"testing"
	"time"

	"github.com/vapourismo/knx-go/knx/knxnet"
	"pgregory.net/rapid"
	"verif/harness/common"
)

// c01SockPlan: a sequence of datagrams (udp) or stream items (tcp) for a live receiver.
// Each item is a byte string; whether it is well-formed is decided by decoding it in-process.
// tcp: an item whose 6-byte header is not a valid KNXnet/IP header, or whose announced total length
// differs from the bytes present, breaks the framing; it may only come last.
type c01SockPlan struct {
	Proto string   `json:"proto"`
	Items []string `json:"items"`
	// tcp: the stream is written in segments of these lengths (cycled; empty = one write per item), with a
	// pause between segments, so that a frame can be only partly there when the receiver reads its body
	Cuts    []int `json:"cuts,omitempty"`
	PauseUs int   `json:"pause_us,omitempty"`
	// tcp: behind item QuietAfter (a framed item the decoder rejects) the line stays quiet for QuietMs before the
	// rest of the stream is written: a dropped frame must not leave anything armed that fires later
	QuietAfter int `json:"quiet_after,omitempty"`
	QuietMs    int `json:"quiet_ms,omitempty"`
}

func markerFrame(k int) []byte {
	return knxnet.AllocAndPack(&knxnet.TunnelRes{Channel: uint8(k >> 8), SeqNumber: uint8(k), Status: 0xa5})
}

func isMarker(s knxnet.Service) (int, bool) {
	if r, ok := s.(*knxnet.TunnelRes); ok && r.Status == 0xa5 {
		return int(r.Channel)<<8 | int(r.SeqNumber), true
	}
	return 0, false
}

// wellFormed decodes b in-process from an exact-capacity slice.
func wellFormed(b []byte) (knxnet.Service, bool) {
	exact := make([]byte, len(b))
	copy(exact, b)
	var s knxnet.Service
	ok := false
	func() {
		defer func() { recover() }() // a decoder panic is C01's pure part; here it only means "not delivered"
		if _, err := knxnet.Unpack(exact, &s); err == nil {
			ok = true
		}
	}()
	return s, ok
}

// framingOK reports whether b is a self-consistent TCP unit: valid header and total length == len(b).
func framingOK(b []byte) bool {
	return len(b) >= 6 && b[0] == 6 && b[1] == 0x10 && int(binary.BigEndian.Uint16(b[4:])) == len(b)
}

func c01SockRun(p c01SockPlan) *common.Fail {
	base := receiverGoroutines()
	var f *common.Fail
	if p.Proto == "udp" {
		f = c01UDP(p)
	} else {
		f = c01TCP(p)
	}
	if f == nil && !waitReceiversGone(base) {
		return common.Failf("receiver-stuck", "%s: the receiver goroutine is still alive 2 s after the socket was closed - it is spinning or blocked (items %v)", p.Proto, p.Items)
	}
	return f
}

func c01UDP(p c01SockPlan) *common.Fail {
	pc, err := net.ListenUDP("udp4", &net.UDPAddr{IP: net.IPv4(127, 0, 0, 1)})
	if err != nil {
		return nil
	}
	defer pc.Close()
	sock, err := knxnet.DialTunnelUDP(pc.LocalAddr().String())
	if err != nil {
		return common.Failf("dial", "DialTunnelUDP: %v", err)
	}
	defer sock.Close()
	caddr := sock.LocalAddr().(*net.UDPAddr)
	for i, h := range p.Items {
		b := unhex(h)
		// a datagram beyond the receiver's 1024-octet buffer reaches it cut to 1024 octets: that is what is judged
		seenAs := b
		if len(seenAs) > 1024 {
			seenAs = seenAs[:1024]
		}
		want, good := wellFormed(seenAs)
		if _, m := isMarker(want); good && m {
			continue // would be mistaken for a marker
		}
		pc.WriteToUDP(b, caddr) // an empty item is an empty datagram
		marker := markerFrame(i + 1)
		pc.WriteToUDP(marker, caddr)
		var before []knxnet.Service
		deadline := time.Now().Add(limit)
		resend := time.NewTicker(100 * time.Millisecond)
		seen := false
		for !seen {
			select {
			case s, open := <-sock.Inbound():
				if !open {
					resend.Stop()
					return common.Failf("receiver-dead", "udp: Inbound() closed after item #%d %x (the receiver stopped)", i, b)
				}
				if k, m := isMarker(s); m {
					if k == i+1 {
						seen = true
					}
					continue
				}
				before = append(before, s)
			case <-resend.C:
				if time.Now().After(deadline) {
					resend.Stop()
					return common.Failf("receiver-dead", "udp: a well-formed marker sent (and re-sent for 5 s) after item #%d %x was never delivered: the receiver is dead or spinning", i, b)
				}
				pc.WriteToUDP(marker, caddr)
			}
		}
		resend.Stop()
		switch {
		case good && len(before) == 0:
			return common.Failf("well-formed-dropped", "udp: item #%d %x decodes in-process to %s but was not delivered before the marker that followed it", i, b, common.Show(want))
		case good && (len(before) > 1 || !common.SameValue(before[0], want)):
			return common.Failf("delivered-differs", "udp: item #%d %x decodes in-process to %s; the receiver (re-used 1024-byte buffer) delivered %s", i, b, common.Show(want), common.Show(before[0]))
		case !good && len(before) > 0:
			return common.Failf("malformed-delivered", "udp: item #%d %x is rejected by the decoder in-process but the receiver delivered %s (influence of buffer remnants?)", i, b, common.Show(before[0]))
		}
	}
	return nil
}

func c01TCP(p c01SockPlan) *common.Fail {
	ln, err := net.Listen("tcp4", "127.0.0.1:0")
	if err != nil {
		return nil
	}
	defer ln.Close()
	sock, err := knxnet.DialTunnelTCP(ln.Addr().String())
	if err != nil {
		return common.Failf("dial", "DialTunnelTCP: %v", err)
	}
	defer sock.Close()
	pc, err := ln.Accept()
	if err != nil {
		return nil
	}
	defer pc.Close()
	var want []knxnet.Service
	broken := false
	var stream []byte
	quietAt := -1
	for k, h := range p.Items {
		b := unhex(h)
		if broken {
			break
		}
		if p.QuietMs > 0 && k == p.QuietAfter+1 {
			quietAt = len(stream)
		}
		if !framingOK(b) {
			broken = true
			stream = append(stream, b...)
			break
		}
		if s, ok := wellFormed(b); ok {
			if _, m := isMarker(s); m {
				continue // would be mistaken for the end-of-stream marker
			}
			want = append(want, s)
		}
		stream = append(stream, b...)
	}
	if !broken {
		// terminate the stream with a marker so that "everything before it was processed" is observable
		if p.QuietMs > 0 && quietAt < 0 && p.QuietAfter == len(p.Items)-1 {
			quietAt = len(stream)
		}
		stream = append(stream, markerFrame(1)...)
	}
	if tc, ok := pc.(*net.TCPConn); ok {
		tc.SetNoDelay(true)
	}
	wrote := make(chan struct{})
	go func() {
		defer close(wrote)
		rest := stream
		off := 0
		for k := 0; len(rest) > 0; k++ {
			n := len(rest)
			if len(p.Cuts) > 0 {
				if c := p.Cuts[k%len(p.Cuts)]; c > 0 && c < n {
					n = c
				}
			}
			if off < quietAt && off+n > quietAt {
				n = quietAt - off
			}
			if _, err := pc.Write(rest[:n]); err != nil {
				return
			}
			rest = rest[n:]
			off += n
			if off == quietAt {
				time.Sleep(time.Duration(p.QuietMs) * time.Millisecond)
			}
			if p.PauseUs > 0 && len(rest) > 0 {
				time.Sleep(time.Duration(p.PauseUs) * time.Microsecond)
			}
		}
	}()
	var got []knxnet.Service
	tm := time.NewTimer(limit + time.Duration(p.QuietMs)*time.Millisecond)
	defer tm.Stop()
	closed := false
	peerClosed := false
	if broken {
		// after broken framing the connection may legitimately end; give the receiver a moment, then close our side
		go func() { <-wrote; time.Sleep(30 * time.Millisecond); pc.Close() }()
		peerClosed = true
	}
loop:
	for {
		select {
		case s, open := <-sock.Inbound():
			if !open {
				closed = true
				break loop
			}
			if _, m := isMarker(s); m && !broken {
				pc.Close()
				peerClosed = true
				continue
			}
			got = append(got, s)
		case <-tm.C:
			break loop
		}
	}
	_ = peerClosed
	if !closed {
		return common.Failf("receiver-stuck", "tcp: Inbound() did not close within 5 s after the peer closed the connection (items %v; framing broken: %v) - the receiver is spinning or blocked", p.Items, broken)
	}
	if broken {
		// deliveries must be a prefix-respecting subsequence: exactly the well-formed frames before the break, possibly followed by
		// whatever the desynchronised stream happens to contain (not judged)
		if len(got) < len(want) {
			return common.Failf("well-formed-dropped", "tcp: %d well-formed frames precede the framing error, only %d were delivered", len(want), len(got))
		}
		got = got[:len(want)]
	}
	return compareDelivered(want, got, fmt.Sprintf("tcp stream with malformed bodies (%d items)", len(p.Items)))
}

// mutateFrame derives a malformed (or at least unusual) byte string from a valid frame.
// keepFraming: the result stays a self-consistent TCP unit (header total length is fixed up).
func mutateFrame(rt *rapid.T, b []byte, lens []common.LenField, keepFraming bool) []byte {
	out := append([]byte{}, b...)
	if !keepFraming && rapid.IntRange(0, 7).Draw(rt, "runt") == 0 {
		// a datagram shorter than the header, down to the empty datagram (legal on UDP: the read returns 0 bytes, no error)
		return out[:rapid.SampledFrom([]int{0, 0, 1, 3, 5}).Draw(rt, "runt-len")]
	}
	switch rapid.IntRange(0, 5).Draw(rt, "mut") {
	case 0: // truncate
		if len(out) > 6 {
			out = out[:rapid.IntRange(6, len(out)-1).Draw(rt, "trunc")]
		}
	case 1, 2: // overwrite an embedded length octet
		var cands []common.LenField
		for _, lf := range lens {
			if lf.Off >= 6 && lf.Width == 1 {
				cands = append(cands, lf)
			}
		}
		if len(cands) > 0 {
			lf := cands[rapid.IntRange(0, len(cands)-1).Draw(rt, "lf")]
			out[lf.Off] = rapid.SampledFrom([]byte{0, 1, 2, 3, byte(lf.True - 1), byte(lf.True + 1), 0x7f, 0xff}).Draw(rt, "lv")
		} else if len(out) > 6 {
			out = out[:len(out)-1]
		}
	case 3: // flip a body bit
		if len(out) > 6 {
			i := rapid.IntRange(6, len(out)-1).Draw(rt, "flip-at")
			out[i] ^= 1 << uint(rapid.IntRange(0, 7).Draw(rt, "flip-bit"))
		}
	case 4: // trailing garbage
		out = append(out, common.GenBytes(rt, "garbage", 1, 8)...)
	default: // truncated hard: header only or header + 1
		if len(out) > 7 {
			out = out[:6+rapid.IntRange(0, 1).Draw(rt, "hdr+")]
		}
	}
	if keepFraming && len(out) >= 6 {
		binary.BigEndian.PutUint16(out[4:], uint16(len(out)))
	}
	return out
}

func genPlanC01Sock(rt *rapid.T) c01SockPlan {
	p := c01SockPlan{Proto: rapid.SampledFrom([]string{"udp", "udp", "tcp"}).Draw(rt, "proto")}
	n := rapid.IntRange(1, 40).Draw(rt, "items")
	if rapid.IntRange(0, 2).Draw(rt, "short") > 0 {
		n = rapid.IntRange(1, 8).Draw(rt, "items-short")
	}
	for i := 0; i < n; i++ {
		kind := rapid.SampledFrom(common.AllFrameKinds).Draw(rt, "kind")
		ck := rapid.SampledFrom(common.CemiKinds).Draw(rt, "cemi")
		f := common.GenFrame(rt, kind, ck)
		b, lens := common.RefEncode(f)
		if len(b) > 1024 {
			continue
		}
		if rapid.IntRange(0, 2).Draw(rt, "malform") > 0 {
			b = mutateFrame(rt, b, lens, p.Proto == "tcp")
		}
		p.Items = append(p.Items, hex.EncodeToString(b))
	}
	if p.Proto == "udp" && rapid.IntRange(0, 2).Draw(rt, "buffer-filling") == 0 {
		// datagrams that fill the receiver's buffer exactly, nearly, or overflow it (the kernel cuts them): an
		// unassigned service whose total length says what was sent; whatever follows them arrives as usual
		for k := rapid.IntRange(1, 3).Draw(rt, "n-full"); k > 0; k-- {
			total := rapid.SampledFrom([]int{1024, 1024, 1023, 1022, 1025, 1026, 1500, 2048, 4000}).Draw(rt, "full-total")
			b := make([]byte, total)
			for i := range b {
				b[i] = byte(i*11 + total)
			}
			b[0], b[1], b[2], b[3], b[4], b[5] = 6, 0x10, 0x0f, 0x00, byte(total>>8), byte(total)
			at := rapid.IntRange(0, len(p.Items)).Draw(rt, "full-at")
			p.Items = append(p.Items[:at], append([]string{hex.EncodeToString(b)}, p.Items[at:]...)...)
		}
	}
	if p.Proto == "tcp" && rapid.Bool().Draw(rt, "segmented") {
		for i := 0; i < rapid.IntRange(1, 5).Draw(rt, "ncuts"); i++ {
			p.Cuts = append(p.Cuts, rapid.IntRange(1, 40).Draw(rt, "seg"))
		}
		p.PauseUs = rapid.SampledFrom([]int{0, 30, 300}).Draw(rt, "seg-pause")
		if len(p.Items) > 12 {
			p.PauseUs = rapid.SampledFrom([]int{0, 30}).Draw(rt, "seg-pause-long")
		}
	}
	if p.Proto == "tcp" && rapid.IntRange(0, 2).Draw(rt, "large-units") == 0 {
		// units far beyond any datagram: the header's total length goes up to 65535 on a stream. An unassigned service
		// (delivered as it is) or a tunnelling request whose connection header lies (dropped) - either way the frames
		// behind it arrive
		for k := rapid.IntRange(1, 2).Draw(rt, "n-large"); k > 0; k-- {
			total := rapid.SampledFrom([]int{1025, 2048, 4095, 4096, 4097, 4098, 5000, 8191, 8192, 8193, 16384, 32768, 65534, 65535}).Draw(rt, "large-total")
			b := make([]byte, total)
			for i := range b {
				b[i] = byte(i*7 + total)
			}
			b[0], b[1], b[2], b[3], b[4], b[5] = 6, 0x10, 0x0f, 0x00, byte(total>>8), byte(total)
			if rapid.Bool().Draw(rt, "large-malformed") {
				b[2], b[3], b[6] = 0x04, 0x20, 9 // tunnelling request, connection header length 9
			}
			at := rapid.IntRange(0, len(p.Items)).Draw(rt, "large-at")
			p.Items = append(p.Items[:at], append([]string{hex.EncodeToString(b)}, p.Items[at:]...)...)
		}
		p.PauseUs = 0
		for i := range p.Cuts {
			p.Cuts[i] *= 97
		}
	}
	if p.Proto == "tcp" && rapid.IntRange(0, 2).Draw(rt, "break") == 0 {
		// a last item that breaks the framing: bad header octets or a total length that lies
		var b []byte
		switch rapid.IntRange(0, 5).Draw(rt, "break-kind") {
		case 0:
			b = []byte{6, 0x10, 0x02, 0x08, 0, 0} // total length 0
		case 1:
			b = []byte{6, 0x10, 0x02, 0x08, 0, byte(rapid.IntRange(1, 5).Draw(rt, "tl"))}
		case 2:
			b = []byte{rapid.SampledFrom([]byte{0, 5, 7, 0xff}).Draw(rt, "hl"), 0x10, 0x02, 0x08, 0, 8, 1, 0}
		case 3:
			b = []byte{6, rapid.SampledFrom([]byte{0, 0x11, 0x20, 0xff}).Draw(rt, "ver"), 0x02, 0x08, 0, 8, 1, 0}
		case 4:
			b = []byte{6, 0x10, 0x02, 0x08, 0xff, 0xff, 1, 2, 3} // announces far more than will ever arrive
		default:
			b = []byte{6, 0x10, 0x02} // partial header
		}
		p.Items = append(p.Items, hex.EncodeToString(b))
	}
	if p.Proto == "tcp" && rapid.IntRange(0, 19).Draw(rt, "quiet-line") == 0 {
		// a quiet line behind a dropped frame (seconds: whatever the receiver armed for the frame has time to fire)
		var cands []int
		for k, h := range p.Items {
			b := unhex(h)
			if !framingOK(b) {
				break
			}
			if _, ok := wellFormed(b); !ok {
				cands = append(cands, k)
			}
		}
		if len(cands) > 0 {
			p.QuietAfter = rapid.SampledFrom(cands).Draw(rt, "quiet-after")
			p.QuietMs = 3300
			if os.Getenv("VERIF_TIER") == "thorough" {
				p.QuietMs = rapid.SampledFrom([]int{3300, 5500, 11000}).Draw(rt, "quiet-ms")
			}
		}
	}
	return p
}

func TestC01Sock(t *testing.T) {
	rec := common.NewRec("C01", "sock")
	completed := false
	defer func() { rec.Finish(completed) }()
	if rec.Env.Replay != "" {
		common.InstallLoggerForOddShards(common.ReplayShard(rec.Env.Replay))
	}
	if common.InstallLoggerForOddShards(rec.Env.Shard) {
		rec.Class("log target installed (diagnostic lines executed)")
	}
	if rec.Env.Replay != "" {
		common.ReplayOnly(t, rec, c01SockRun)
		completed = true
		return
	}
	common.Drive(t, rec, func(rt *rapid.T) c01SockPlan {
		p := genPlanC01Sock(rt)
		bad, good, brk := 0, 0, false
		for _, h := range p.Items {
			b := unhex(h)
			if _, ok := wellFormed(b); ok {
				good++
			} else {
				bad++
			}
			if p.Proto == "tcp" && !framingOK(b) {
				brk = true
			}
		}
		rec.Class(fmt.Sprintf("sock-%s", p.Proto))
		if brk {
			rec.Class("sock-tcp-framing-broken")
		}
		if p.QuietMs > 0 {
			rec.Class(fmt.Sprintf("sock-tcp-quiet-line %d ms behind a dropped frame", p.QuietMs))
		}
		if bad > 0 {
			rec.NonTrivial(common.HashJSON(p))
			rec.Class("sock-sequence-with-malformed")
		}
		rec.Sample("sock-"+p.Proto, p)
		return p
	}, func(p c01SockPlan) *common.Fail {
		rec.InFlight(p)
		f := c01SockRun(p)
		rec.Landed()
		return f
	})
	completed = true
}
