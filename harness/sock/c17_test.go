package sock

import (
	"fmt"
	"net"
	"os"
	"sync/atomic"
	"testing"
	"time"

	"github.com/vapourismo/knx-go/knx"
	"github.com/vapourismo/knx-go/knx/cemi"
	"github.com/vapourismo/knx-go/knx/knxnet"
	"golang.org/x/net/ipv4"
	"pgregory.net/rapid"
	"verif/harness/common"
)

// C17 through the real constructors and kernel sockets: the order in which a router client (and the group layer on
// top of it) hands telegrams to the application is the order in which they arrived on the wire, also when the
// client's server goroutine is held up for a while (it waits for the send lock when a second routing-busy indication
// arrives during the inhibit of a first) and a burst piles up in the socket meanwhile.

type c17SockPlan struct {
	Group   bool `json:"group,omitempty"`
	Busy    int  `json:"busy"`    // routing-busy indications sent first (0..3)
	WaitMs  int  `json:"wait_ms"` // their wait time
	Burst   int  `json:"burst"`   // routing indications sent right behind them
	ThinkUs int  `json:"think_us,omitempty"`
}

func c17SockRun(p c17SockPlan) (*common.Fail, string) {
	probeMulticast()
	if !mcastOK {
		return nil, "multicast unavailable: " + mcastWhy
	}
	k := int(atomic.AddInt32(&confSeq, 1))
	grp := mcastAddr(251, os.Getpid(), k)
	pc, err := net.ListenUDP("udp4", grp)
	if err != nil {
		return nil, "peer cannot bind the group address"
	}
	defer pc.Close()
	pp := ipv4.NewPacketConn(pc)
	if err := pp.JoinGroup(nil, grp); err != nil {
		return nil, "peer cannot join the group"
	}
	pp.SetMulticastLoopback(true)
	cfg := knx.RouterConfig{MulticastLoopbackEnabled: true, PostSendPauseDuration: time.Millisecond}
	var r *knx.Router
	var gr knx.GroupRouter
	if p.Group {
		gr, err = knx.NewGroupRouter(grp.String(), cfg)
		r = gr.Router
	} else {
		r, err = knx.NewRouter(grp.String(), cfg)
	}
	if err != nil {
		return nil, "NewRouter: " + err.Error()
	}
	defer r.Close()
	// hand-packed busy indication (the library has no encoder for it): header, structure length 6, state 0, wait, control
	busy := []byte{0x06, 0x10, 0x05, 0x32, 0x00, 0x0c, 0x06, 0x00, byte(p.WaitMs >> 8), byte(p.WaitMs), 0x00, 0x01}
	for i := 0; i < p.Busy; i++ {
		pc.WriteToUDP(busy, grp)
	}
	for i := 0; i < p.Burst; i++ {
		pc.WriteToUDP(knxnet.AllocAndPack(&knxnet.RoutingInd{Payload: &cemi.LDataInd{LData: confLData(i)}}), grp)
	}
	next := 0
	deadline := time.After(5 * time.Second)
	for next < p.Burst {
		var tag int
		if p.Group {
			select {
			case ev, open := <-gr.Inbound():
				if !open {
					return common.Failf("inbound-closed", "group router: Inbound() closed after %d of %d telegrams", next, p.Burst), ""
				}
				tag = -1
				if len(ev.Data) == 5 {
					tag = int(ev.Data[1])<<24 | int(ev.Data[2])<<16 | int(ev.Data[3])<<8 | int(ev.Data[4])
				}
			case <-deadline:
				return nil, fmt.Sprintf("only %d of %d telegrams within 5 s (datagrams lost on the loopback?)", next, p.Burst)
			}
		} else {
			select {
			case m, open := <-r.Inbound():
				if !open {
					return common.Failf("inbound-closed", "router: Inbound() closed after %d of %d telegrams", next, p.Burst), ""
				}
				tag = confTagOf(m)
			case <-deadline:
				return nil, fmt.Sprintf("only %d of %d telegrams within 5 s (datagrams lost on the loopback?)", next, p.Burst)
			}
		}
		if tag != next {
			return common.Failf("order", "router over a real multicast socket (%d busy indications of %d ms, then a burst of %d): position %d of the burst carries telegram %d", p.Busy, p.WaitMs, p.Burst, next, tag), ""
		}
		next++
		if p.ThinkUs > 0 {
			time.Sleep(time.Duration(p.ThinkUs) * time.Microsecond)
		}
	}
	return nil, ""
}

func TestC17Sock(t *testing.T) {
	rec := common.NewRec("C17", "sock")
	completed := false
	defer func() { rec.Finish(completed) }()
	run := func(p c17SockPlan) *common.Fail {
		rec.InFlight(p)
		f, inc := c17SockRun(p)
		rec.Landed()
		if inc != "" {
			rec.Inconclusive(inc)
		}
		return f
	}
	probeMulticast()
	if rec.Env.Replay != "" {
		common.ReplayOnly(t, rec, run)
		completed = true
		return
	}
	common.Drive(t, rec, func(rt *rapid.T) c17SockPlan {
		p := c17SockPlan{Group: rapid.Bool().Draw(rt, "group"), Busy: rapid.IntRange(0, 3).Draw(rt, "busy"), WaitMs: rapid.SampledFrom([]int{5, 20, 45}).Draw(rt, "wait"),
			Burst: rapid.IntRange(2, 80).Draw(rt, "burst"), ThinkUs: rapid.SampledFrom([]int{0, 0, 50, 500}).Draw(rt, "think")}
		rec.Class(fmt.Sprintf("group=%v busy=%d", p.Group, p.Busy))
		if p.Busy >= 2 && p.Burst > 16 {
			rec.Class("server goroutine held up while > 16 telegrams pile up in the socket")
			rec.NonTrivial(common.HashJSON(p))
		}
		rec.Sample("sock", p)
		return p
	}, run)
	completed = true
}
