package sock

import (
	"bytes"
	"encoding/binary"
	"fmt"
	"net"
	"os"
	"sync/atomic"
	"testing"
	"time"

	"github.com/vapourismo/knx-go/knx"
	"github.com/vapourismo/knx-go/knx/cemi"
	"github.com/vapourismo/knx-go/knx/knxnet"
	"golang.org/x/net/ipv4"
	"pgregory.net/rapid"
	"verif/harness/common"
)

// The hook constructors used by the in-memory harnesses duplicate the tail of knx.NewTunnel /
// knx.NewRouter (and the group variants). These conformance cases go through the *real*
// constructors over kernel sockets and replay a short scenario with the same expectations, so that
// a change confined to the real constructors does not go unnoticed.

// confPlan: one conformance scenario.
type confPlan struct {
	Kind   string `json:"kind"` // router | group-router | tunnel | group-tunnel
	N      int    `json:"n"`    // messages sent by the client
	M      int    `json:"m"`    // messages sent to the client
	Retain int    `json:"retain,omitempty"`
	Lost   int    `json:"lost,omitempty"`
	TCP    bool   `json:"tcp,omitempty"`
}

func confTag(tag int) []byte {
	b := []byte{0, 0, 0, 0, 0}
	binary.BigEndian.PutUint32(b[1:], uint32(tag))
	return b
}

func confLData(tag int) cemi.LData {
	return cemi.LData{
		Control1: cemi.Control1StdFrame | cemi.Control1NoRepeat | cemi.Control1NoSysBroadcast | cemi.Control1WantAck | cemi.Control1Prio(cemi.PrioLow),
		Control2: cemi.Control2GroupAddr | cemi.Control2Hops(6),
		Source:   cemi.NewIndividualAddr3(1, 1, 9), Destination: uint16(cemi.NewGroupAddr3(2, 3, 4)),
		Data: &cemi.AppData{Command: cemi.GroupValueWrite, Data: confTag(tag)},
	}
}

func confTagOf(m cemi.Message) int {
	var l *cemi.LData
	switch v := m.(type) {
	case *cemi.LDataInd:
		l = &v.LData
	case *cemi.LDataReq:
		l = &v.LData
	}
	if l != nil {
		if a, ok := l.Data.(*cemi.AppData); ok && len(a.Data) == 5 {
			return int(binary.BigEndian.Uint32(a.Data[1:]))
		}
	}
	return -1
}

var confSeq int32

// mcastAddr: the multicast group and port of one case. Go binds a socket that listens on a multicast address to
// the wildcard address, so the kernel hands it every multicast datagram for that *port*, whatever the group, as long
// as some socket on the host has joined the group. The port therefore has to be unique among the test processes
// running at the same time (it is a function of the process id alone; the processes alive at one time lie within a
// window of pids far narrower than the modulus); the group varies per case and per harness (second octet).
func mcastAddr(second byte, pid, k int) *net.UDPAddr {
	return &net.UDPAddr{IP: net.IPv4(239, second, byte(1+pid%250), byte(1+k%250)), Port: 10000 + pid%22000}
}

func confRouter(p confPlan) (*common.Fail, string) {
	probeMulticast()
	if !mcastOK {
		return nil, "multicast unavailable: " + mcastWhy
	}
	k := int(atomic.AddInt32(&confSeq, 1))
	pid := os.Getpid()
	grp := mcastAddr(254, pid, k)
	// the peer: a member of the group that also talks to it
	pc, err := net.ListenUDP("udp4", grp)
	if err != nil {
		return nil, "peer cannot bind the group address"
	}
	defer pc.Close()
	pp := ipv4.NewPacketConn(pc)
	if err := pp.JoinGroup(nil, grp); err != nil {
		return nil, "peer cannot join the group"
	}
	pp.SetMulticastLoopback(true)
	cfg := knx.RouterConfig{RetainCount: uint(p.Retain), MulticastLoopbackEnabled: true, PostSendPauseDuration: time.Millisecond}
	var r *knx.Router
	var gr knx.GroupRouter
	group := p.Kind == "group-router"
	if group {
		gr, err = knx.NewGroupRouter(grp.String(), cfg)
		r = gr.Router
	} else {
		r, err = knx.NewRouter(grp.String(), cfg)
	}
	if err != nil {
		return nil, "NewRouter: " + err.Error()
	}
	closed := false
	defer func() {
		if !closed {
			r.Close()
		}
	}()
	// frames seen by the peer (its own transmissions are looped back too: filtered by tag range)
	recv := func(d time.Duration) (int, bool) {
		buf := make([]byte, 2048)
		pc.SetReadDeadline(time.Now().Add(d))
		for {
			n, _, err := pc.ReadFromUDP(buf)
			if err != nil {
				return 0, false
			}
			var s knxnet.Service
			if _, err := knxnet.Unpack(buf[:n], &s); err != nil {
				continue
			}
			if ri, ok := s.(*knxnet.RoutingInd); ok {
				if t := confTagOf(ri.Payload); t >= 0 && t < 100000 {
					return t, true
				}
			}
		}
	}
	// client -> group
	for i := 0; i < p.N; i++ {
		var err error
		if group {
			err = gr.Send(knx.GroupEvent{Command: knx.GroupWrite, Source: cemi.NewIndividualAddr3(1, 1, 9), Destination: cemi.NewGroupAddr3(2, 3, 4), Data: confTag(i)})
		} else {
			err = r.Send(&cemi.LDataInd{LData: confLData(i)})
		}
		if err != nil {
			return common.Failf("conformance-send", "%s: Send #%d returned %v", p.Kind, i, err), ""
		}
		t, ok := recv(limit)
		if !ok || t != i {
			return common.Failf("conformance-transmit", "%s (real constructor, multicast): after Send #%d the group saw tag %d (received: %v)", p.Kind, i, t, ok), ""
		}
	}
	// lost indication: the last min(Lost, retained) come again, in order
	if p.Lost > 0 && p.N > 0 {
		cp := p.Retain
		if cp == 0 {
			cp = 32
		}
		ret := p.N
		if ret > cp {
			ret = cp
		}
		want := p.Lost
		if want > ret {
			want = ret
		}
		lostBytes, _ := common.RefEncode(&common.RFrame{Service: common.SvcRoutingLost, Count: uint16(p.Lost)})
		pc.WriteToUDP(lostBytes, grp)
		for j := 0; j < want; j++ {
			t, ok := recv(limit)
			if !ok || t != p.N-want+j {
				return common.Failf("conformance-resend", "%s (real constructor): after lost(%d) with %d retained, retransmission #%d is tag %d (received: %v), expected tag %d", p.Kind, p.Lost, ret, j, t, ok, p.N-want+j), ""
			}
		}
		if t, ok := recv(150 * time.Millisecond); ok {
			return common.Failf("conformance-resend", "%s (real constructor): after lost(%d) an extra frame with tag %d was transmitted", p.Kind, p.Lost, t), ""
		}
	}
	// group -> client
	for i := 0; i < p.M; i++ {
		pc.WriteToUDP(knxnet.AllocAndPack(&knxnet.RoutingInd{Payload: &cemi.LDataInd{LData: confLData(100000 + i)}}), grp)
		tm := time.NewTimer(limit)
		got := -1
		if group {
		skipOwnG:
			for {
				select {
				case e, open := <-gr.Inbound():
					if open && len(e.Data) == 5 {
						got = int(binary.BigEndian.Uint32(e.Data[1:]))
						if got < 100000 {
							continue skipOwnG
						}
					}
				case <-tm.C:
				}
				break
			}
		} else {
		skipOwn:
			for {
				select {
				case m, open := <-r.Inbound():
					if open {
						got = confTagOf(m)
						if got >= 0 && got < 100000 {
							continue skipOwn // with multicast loopback enabled the client hears its own transmissions
						}
					}
				case <-tm.C:
				}
				break
			}
		}
		tm.Stop()
		if got != 100000+i {
			return common.Failf("conformance-receive", "%s (real constructor): indication #%d sent to the group, Inbound yielded tag %d", p.Kind, i, got), ""
		}
	}
	r.Close()
	closed = true
	tm := time.NewTimer(limit)
	defer tm.Stop()
	for {
		var open bool
		if group {
			select {
			case _, open = <-gr.Inbound():
			case <-tm.C:
				return common.Failf("conformance-close", "%s (real constructor): Inbound() did not close within 5 s after Close", p.Kind), ""
			}
		} else {
			select {
			case _, open = <-r.Inbound():
			case <-tm.C:
				return common.Failf("conformance-close", "%s (real constructor): Inbound() did not close within 5 s after Close", p.Kind), ""
			}
		}
		if !open {
			return nil, ""
		}
	}
}

// confTunnel: knx.NewTunnel / NewGroupTunnel against a loopback gateway that follows the rules.
func confTunnel(p confPlan) (*common.Fail, string) {
	pc, err := net.ListenUDP("udp4", &net.UDPAddr{IP: net.IPv4(127, 0, 0, 1)})
	if err != nil {
		return nil, "no loopback"
	}
	defer pc.Close()
	type seen struct {
		svc  knxnet.Service
		from *net.UDPAddr
		raw  []byte
	}
	frames := make(chan seen, 256)
	var client atomic.Pointer[net.UDPAddr]
	go func() {
		buf := make([]byte, 2048)
		for {
			n, from, err := pc.ReadFromUDP(buf)
			if err != nil {
				close(frames)
				return
			}
			var s knxnet.Service
			if _, err := knxnet.Unpack(buf[:n], &s); err != nil {
				continue
			}
			if c := client.Load(); c != nil && c.Port != from.Port {
				continue // a stray datagram of another process
			}
			if _, isConn := s.(*knxnet.ConnReq); !isConn && client.Load() == nil {
				continue
			}
			client.Store(from)
			// the gateway's automatic reactions
			switch v := s.(type) {
			case *knxnet.ConnReq:
				pc.WriteToUDP(knxnet.AllocAndPack(&knxnet.ConnRes{Channel: 77, Status: knxnet.NoError, Control: knxnet.HostInfo{Protocol: knxnet.UDP4}}), from)
			case *knxnet.ConnStateReq:
				pc.WriteToUDP(knxnet.AllocAndPack(&knxnet.ConnStateRes{Channel: v.Channel, Status: knxnet.NoError}), from)
			case *knxnet.TunnelReq:
				pc.WriteToUDP(knxnet.AllocAndPack(&knxnet.TunnelRes{Channel: v.Channel, SeqNumber: v.SeqNumber, Status: knxnet.NoError}), from)
			case *knxnet.DiscReq:
				pc.WriteToUDP(knxnet.AllocAndPack(&knxnet.DiscRes{Channel: v.Channel, Status: 0}), from)
			}
			frames <- seen{s, from, append([]byte{}, buf[:n]...)}
		}
	}()
	cfg := knx.TunnelConfig{ResendInterval: 300 * time.Millisecond, ResponseTimeout: 3 * time.Second, HeartbeatInterval: 60 * time.Millisecond}
	group := p.Kind == "group-tunnel"
	var tun *knx.Tunnel
	var gt knx.GroupTunnel
	if group {
		gt, err = knx.NewGroupTunnel(pc.LocalAddr().String(), cfg)
		tun = gt.Tunnel
	} else {
		tun, err = knx.NewTunnel(pc.LocalAddr().String(), knxnet.TunnelLayerData, cfg)
	}
	if err != nil {
		return common.Failf("conformance-connect", "%s (real constructor): connecting to a rule-following loopback gateway failed: %v", p.Kind, err), ""
	}
	closed := false
	defer func() {
		if !closed {
			tun.Close()
		}
	}()
	next := func(want string, d time.Duration) (seen, bool) {
		tm := time.NewTimer(d)
		defer tm.Stop()
		for {
			select {
			case f, ok := <-frames:
				if !ok {
					return seen{}, false
				}
				if fmt.Sprintf("%T", f.svc) == want {
					return f, true
				}
			case <-tm.C:
				return seen{}, false
			}
		}
	}
	if _, ok := next("*knxnet.ConnReq", limit); !ok {
		return common.Failf("conformance-connect", "%s: the gateway saw no connect request", p.Kind), ""
	}
	// client -> gateway: consecutive numbers from 0 on channel 77
	for i := 0; i < p.N; i++ {
		var err error
		if group {
			err = gt.Send(knx.GroupEvent{Command: knx.GroupWrite, Source: cemi.NewIndividualAddr3(1, 1, 9), Destination: cemi.NewGroupAddr3(2, 3, 4), Data: confTag(i)})
		} else {
			err = tun.Send(&cemi.LDataReq{LData: confLData(i)})
		}
		if err != nil {
			return common.Failf("conformance-send", "%s (real constructor): Send #%d returned %v", p.Kind, i, err), ""
		}
		f, ok := next("*knxnet.TunnelReq", limit)
		if !ok {
			return common.Failf("conformance-send", "%s: Send #%d returned nil but the gateway saw no tunnelling request", p.Kind, i), ""
		}
		r := f.svc.(*knxnet.TunnelReq)
		if r.Channel != 77 || int(r.SeqNumber) != i%256 || confTagOf(r.Payload) != i {
			return common.Failf("conformance-send", "%s (real constructor): request #%d carries channel %d seq %d tag %d", p.Kind, i, r.Channel, r.SeqNumber, confTagOf(r.Payload)), ""
		}
		if !bytes.Equal(f.raw, knxnet.AllocAndPack(r)) {
			return common.Failf("conformance-send", "%s: the datagram is not the canonical encoding of the request", p.Kind), ""
		}
	}
	// gateway -> client
	ca := client.Load()
	for i := 0; i < p.M; i++ {
		pc.WriteToUDP(knxnet.AllocAndPack(&knxnet.TunnelReq{Channel: 77, SeqNumber: uint8(i), Payload: &cemi.LDataInd{LData: confLData(100000 + i)}}), ca)
		tm := time.NewTimer(limit)
		got := -1
		if group {
			select {
			case e, open := <-gt.Inbound():
				if open && len(e.Data) == 5 {
					got = int(binary.BigEndian.Uint32(e.Data[1:]))
				}
			case <-tm.C:
			}
		} else {
			select {
			case m, open := <-tun.Inbound():
				if open {
					got = confTagOf(m)
				}
			case <-tm.C:
			}
		}
		tm.Stop()
		if got != 100000+i {
			return common.Failf("conformance-receive", "%s (real constructor): request #%d from the gateway, Inbound yielded tag %d", p.Kind, i, got), ""
		}
		f, ok := next("*knxnet.TunnelRes", limit)
		if !ok || f.svc.(*knxnet.TunnelRes).SeqNumber != uint8(i) || f.svc.(*knxnet.TunnelRes).Channel != 77 || f.svc.(*knxnet.TunnelRes).Status != 0 {
			return common.Failf("conformance-receive", "%s (real constructor): request #%d was not acknowledged with channel 77, its number and status OK", p.Kind, i), ""
		}
	}
	// heartbeat: with a 60 ms interval a connection-state request for channel 77 must show up
	if f, ok := next("*knxnet.ConnStateReq", limit); !ok || f.svc.(*knxnet.ConnStateReq).Channel != 77 {
		return common.Failf("conformance-heartbeat", "%s (real constructor): no connection-state request for channel 77 within 5 s (heartbeat interval 60 ms)", p.Kind), ""
	}
	tun.Close()
	closed = true
	if f, ok := next("*knxnet.DiscReq", limit); !ok || f.svc.(*knxnet.DiscReq).Channel != 77 {
		return common.Failf("conformance-close", "%s (real constructor): Close did not send a disconnect request for channel 77", p.Kind), ""
	}
	tm := time.NewTimer(limit)
	defer tm.Stop()
	for {
		var open bool
		if group {
			select {
			case _, open = <-gt.Inbound():
			case <-tm.C:
				return common.Failf("conformance-close", "%s (real constructor): the group Inbound() did not close within 5 s after Close", p.Kind), ""
			}
		} else {
			select {
			case _, open = <-tun.Inbound():
			case <-tm.C:
				return common.Failf("conformance-close", "%s (real constructor): Inbound() did not close within 5 s after Close", p.Kind), ""
			}
		}
		if !open {
			return nil, ""
		}
	}
}

func runConformance(t *testing.T, pid, job string, kinds []string) {
	rec := common.NewRec(pid, job)
	completed := false
	defer func() { rec.Finish(completed) }()
	run := func(p confPlan) *common.Fail {
		base := receiverGoroutines()
		var f *common.Fail
		var inc string
		if p.Kind == "router" || p.Kind == "group-router" {
			f, inc = confRouter(p)
		} else {
			f, inc = confTunnel(p)
		}
		if inc != "" {
			rec.Inconclusive(inc)
			rec.Skip("conformance-"+p.Kind, inc)
		}
		if f == nil && !waitReceiversGone(base) {
			return common.Failf("receiver-leak", "%s: socket receiver goroutine alive 2 s after Close", p.Kind)
		}
		return f
	}
	if rec.Env.Replay != "" {
		common.ReplayOnly(t, rec, run)
		completed = true
		return
	}
	common.Drive(t, rec, func(rt *rapid.T) confPlan {
		p := confPlan{Kind: rapid.SampledFrom(kinds).Draw(rt, "kind"), N: rapid.IntRange(0, 12).Draw(rt, "n"), M: rapid.IntRange(0, 6).Draw(rt, "m")}
		if p.Kind == "router" || p.Kind == "group-router" {
			p.Retain = rapid.SampledFrom([]int{0, 1, 2, 5}).Draw(rt, "retain")
			p.Lost = rapid.SampledFrom([]int{0, 1, 2, 3, 7, 65535}).Draw(rt, "lost")
		}
		rec.Class("conformance-" + p.Kind)
		rec.NonTrivial(common.HashJSON(p))
		rec.Sample("conformance-"+p.Kind, p)
		return p
	}, run)
	completed = true
}

func TestConformanceRouter(t *testing.T) {
	runConformance(t, "C14", "conformance", []string{"router", "group-router"})
}

func TestConformanceTunnel(t *testing.T) {
	runConformance(t, "C09", "conformance", []string{"tunnel", "group-tunnel"})
}
