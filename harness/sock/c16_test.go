// Package sock exercises the real kernel sockets of knxnet (and the calls built on them) against
// loopback / multicast peers. Every case uses its own ephemeral ports.
package sock

import (
	"bufio"
	"bytes"
	"encoding/binary"
	"encoding/hex"
	"fmt"
	"github.com/vapourismo/knx-go/knx/cemi"
	"io"
	"net"
	"os"
	"runtime"
	"sort"
	"strings"
	"sync"
	"sync/atomic"
	"testing"
	"time"

	"github.com/vapourismo/knx-go/knx"
	"github.com/vapourismo/knx-go/knx/knxnet"
	"golang.org/x/net/ipv4"
	"pgregory.net/rapid"
	"verif/harness/common"
)

// c16Plan: one socket scenario.
//
//	mode: tcp-recv | udp-recv | tcp-send | udp-send | hpai
type c16Plan struct {
	Mode      string   `json:"mode"`
	Frames    []string `json:"frames"`             // hex of well-formed frames (reference encoder)
	Cuts      []int    `json:"cuts,omitempty"`     // tcp-recv: segment lengths, cycled; 0 = "rest of the stream"
	PauseUs   int      `json:"pause_us,omitempty"` // tcp-recv: pause between segments
	Senders   int      `json:"senders,omitempty"`
	PeerClose bool     `json:"peer_close,omitempty"` // tcp-recv: the peer closes the connection at the end (else the client does)
	TCP       bool     `json:"tcp,omitempty"`        // hpai
	SendLocal bool     `json:"send_local,omitempty"` // hpai
	// *-recv: the reader stays away from Inbound() this long while the frames arrive (a slow consumer)
	ReaderPauseMs int `json:"reader_pause_ms,omitempty"`
	// udp-recv / router-recv: all datagrams are sent in one go (no window of 4): more frames are pending than any
	// small queue inside the receiver holds
	Burst bool `json:"burst,omitempty"`
	// tcp-recv: the peer stalls once for StallMs after it has written StallAt octets of the stream (a slow link in the
	// middle of a frame)
	StallAt int `json:"stall_at,omitempty"`
	StallMs int `json:"stall_ms,omitempty"`
	// tcp-send-stalled: the peer does not read for StallMs while one goroutine Sends Big frames of BigLen octets each
	// (more than the connection buffers: the sender has to wait in the middle of a frame)
	Big    int `json:"big,omitempty"`
	BigLen int `json:"big_len,omitempty"`
}

const limit = 5 * time.Second

func unhex(s string) []byte { b, _ := hex.DecodeString(strings.TrimPrefix(s, "!")); return b }

// receiverGoroutines counts live socket receiver goroutines of the library.
func receiverGoroutines() int {
	buf := make([]byte, 2<<20)
	buf = buf[:runtime.Stack(buf, true)]
	n := 0
	for _, g := range strings.Split(string(buf), "\n\n") {
		if strings.Contains(g, "knxnet.serveUDPSocket") || strings.Contains(g, "knxnet.serveTCPSocket") {
			n++
		}
	}
	return n
}

func waitReceiversGone(base int) bool {
	deadline := time.Now().Add(2 * time.Second)
	for time.Now().Before(deadline) {
		if receiverGoroutines() <= base {
			return true
		}
		time.Sleep(time.Millisecond)
	}
	return false
}

// framed: a valid header whose total length is the length of the unit - the receivers can tell where it ends.
func framed(b []byte) bool {
	return len(b) >= 6 && b[0] == 6 && b[1] == 0x10 && int(b[4])<<8|int(b[5]) == len(b)
}

// decodable reports whether the library decodes the frame in-process.
func decodable(h string) bool {
	if strings.HasPrefix(h, "!") {
		return false
	}
	var s knxnet.Service
	_, err := knxnet.Unpack(unhex(h), &s)
	return err == nil
}

// decodeAll decodes the frames in-process: that is what the socket must deliver. A correctly framed unit whose
// body the decoder rejects is skipped by the receivers - the well-formed frames around it surface all the same.
func decodeAll(frames []string) ([]knxnet.Service, *common.Fail) {
	out := []knxnet.Service{}
	for _, h := range frames {
		if strings.HasPrefix(h, "!") {
			continue // a raw datagram (empty, or shorter than a header) in a datagram plan: nothing to deliver, nothing to end
		}
		var s knxnet.Service
		if _, err := knxnet.Unpack(unhex(h), &s); err != nil {
			if framed(unhex(h)) {
				continue
			}
			return nil, nil // framing broken: outside this property's domain (C01 covers it)
		}
		out = append(out, s)
	}
	return out, nil
}

// collect reads n services from inbound (or until closed / limit).
func collect(inb <-chan knxnet.Service, n int, d time.Duration) (got []knxnet.Service, closed bool) {
	tm := time.NewTimer(d)
	defer tm.Stop()
	for len(got) < n {
		select {
		case s, open := <-inb:
			if !open {
				return got, true
			}
			got = append(got, s)
		case <-tm.C:
			return got, false
		}
	}
	return got, false
}

// expectClosed waits for inbound to close; extra values are returned.
func expectClosed(inb <-chan knxnet.Service, d time.Duration) (extra []knxnet.Service, closed bool) {
	tm := time.NewTimer(d)
	defer tm.Stop()
	for {
		select {
		case s, open := <-inb:
			if !open {
				return extra, true
			}
			extra = append(extra, s)
		case <-tm.C:
			return extra, false
		}
	}
}

func compareDelivered(want, got []knxnet.Service, what string) *common.Fail {
	for i := 0; i < len(want) && i < len(got); i++ {
		if !common.SameValue(want[i], got[i]) {
			return common.Failf("delivered-differs", "%s: frame #%d was delivered as %s, the transmitted frame decodes to %s", what, i, common.Show(got[i]), common.Show(want[i]))
		}
	}
	if len(got) != len(want) {
		return common.Failf("delivered-count", "%s: %d well-formed frames transmitted, %d delivered on Inbound()", what, len(want), len(got))
	}
	return nil
}

func c16Run(p c16Plan) *common.Fail {
	base := receiverGoroutines()
	f := c16RunInner(p)
	if f == nil && !waitReceiversGone(base) {
		return common.Failf("receiver-leak", "the socket's receiver goroutine is still alive 2 s after the socket was closed (mode %s)", p.Mode)
	}
	return f
}

func c16RunInner(p c16Plan) *common.Fail {
	switch p.Mode {
	case "tcp-recv":
		want, _ := decodeAll(p.Frames)
		if want == nil {
			return nil
		}
		ln, err := net.Listen("tcp4", "127.0.0.1:0")
		if err != nil {
			return nil
		}
		defer ln.Close()
		sock, err := knxnet.DialTunnelTCP(ln.Addr().String())
		if err != nil {
			return common.Failf("dial", "DialTunnelTCP: %v", err)
		}
		pc, err := ln.Accept()
		if err != nil {
			sock.Close()
			return nil
		}
		pc.(*net.TCPConn).SetNoDelay(true)
		var stream []byte
		for _, h := range p.Frames {
			stream = append(stream, unhex(h)...)
		}
		writeErr := make(chan error, 1)
		go func() {
			rest := stream
			k := 0
			written, stalled := 0, false
			for len(rest) > 0 {
				n := len(rest)
				if len(p.Cuts) > 0 {
					c := p.Cuts[k%len(p.Cuts)]
					k++
					if c > 0 && c < n {
						n = c
					}
				}
				if p.StallMs > 0 && !stalled && written < p.StallAt && written+n > p.StallAt {
					n = p.StallAt - written
				}
				if _, err := pc.Write(rest[:n]); err != nil {
					writeErr <- err
					return
				}
				rest = rest[n:]
				written += n
				if p.StallMs > 0 && !stalled && written == p.StallAt && len(rest) > 0 {
					stalled = true
					time.Sleep(time.Duration(p.StallMs) * time.Millisecond)
				}
				if p.PauseUs > 0 && len(rest) > 0 {
					time.Sleep(time.Duration(p.PauseUs) * time.Microsecond)
				}
			}
			writeErr <- nil
		}()
		time.Sleep(time.Duration(p.ReaderPauseMs) * time.Millisecond)
		got, closedEarly := collect(sock.Inbound(), len(want), limit+time.Duration(p.StallMs)*time.Millisecond)
		<-writeErr
		if closedEarly {
			pc.Close()
			sock.Close()
			return common.Failf("inbound-closed-early", "tcp: Inbound() closed after %d of %d well-formed frames (cuts %v)", len(got), len(want), p.Cuts)
		}
		if f := compareDelivered(want, got, fmt.Sprintf("tcp stream of %d frames, cuts %v", len(want), p.Cuts)); f != nil {
			pc.Close()
			sock.Close()
			return f
		}
		if p.PeerClose {
			pc.Close()
		} else {
			sock.Close()
		}
		extra, closed := expectClosed(sock.Inbound(), limit)
		pc.Close()
		sock.Close()
		if len(extra) > 0 {
			return common.Failf("delivered-twice", "tcp: %d extra value(s) appeared on Inbound() after all %d frames had been delivered: %s", len(extra), len(want), common.Show(extra[0]))
		}
		if !closed {
			return common.Failf("inbound-not-closed", "tcp: Inbound() did not close within 5 s after %s", map[bool]string{true: "the peer closed the connection", false: "Close"}[p.PeerClose])
		}
	case "udp-recv":
		want, _ := decodeAll(p.Frames)
		if want == nil {
			return nil
		}
		pc, err := net.ListenUDP("udp4", &net.UDPAddr{IP: net.IPv4(127, 0, 0, 1)})
		if err != nil {
			return nil
		}
		defer pc.Close()
		sock, err := knxnet.DialTunnelUDP(pc.LocalAddr().String())
		if err != nil {
			return common.Failf("dial", "DialTunnelUDP: %v", err)
		}
		defer sock.Close()
		caddr := sock.LocalAddr().(*net.UDPAddr)
		// windowed transmission: at most 4 datagrams in flight so that the loopback queue never overflows
		var got []knxnet.Service
		sent := 0
		for sent < len(p.Frames) {
			w := 4
			if p.Burst {
				w = len(p.Frames)
			}
			if sent+w > len(p.Frames) {
				w = len(p.Frames) - sent
			}
			exp := 0
			for k := 0; k < w; k++ {
				pc.WriteToUDP(unhex(p.Frames[sent+k]), caddr)
				if decodable(p.Frames[sent+k]) {
					exp++
				}
			}
			if sent == 0 {
				time.Sleep(time.Duration(p.ReaderPauseMs) * time.Millisecond)
			}
			g, closed := collect(sock.Inbound(), exp, limit)
			got = append(got, g...)
			if closed || len(g) < exp {
				return common.Failf("delivered-count", "udp: after %d datagrams only %d were delivered on Inbound() (closed=%v)", sent+w, len(got), closed)
			}
			sent += w
		}
		if f := compareDelivered(want, got, fmt.Sprintf("udp sequence of %d datagrams", len(want))); f != nil {
			return f
		}
		sock.Close()
		extra, closed := expectClosed(sock.Inbound(), limit)
		if len(extra) > 0 {
			return common.Failf("delivered-twice", "udp: %d extra value(s) on Inbound() after all datagrams had been delivered", len(extra))
		}
		if !closed {
			return common.Failf("inbound-not-closed", "udp: Inbound() did not close within 5 s after Close")
		}
	case "tcp-send", "udp-send":
		want, _ := decodeAll(p.Frames)
		if want == nil {
			return nil
		}
		var vals []knxnet.ServicePackable
		wantBytes := map[string]int{}
		for _, s := range want {
			sp, ok := s.(knxnet.ServicePackable)
			if !ok {
				return nil
			}
			vals = append(vals, sp)
			wantBytes[string(knxnet.AllocAndPack(sp))]++
		}
		var sock *knxnet.TunnelSocket
		var recvFrames func() ([][]byte, *common.Fail)
		if p.Mode == "tcp-send" {
			ln, err := net.Listen("tcp4", "127.0.0.1:0")
			if err != nil {
				return nil
			}
			defer ln.Close()
			sock, err = knxnet.DialTunnelTCP(ln.Addr().String())
			if err != nil {
				return common.Failf("dial", "DialTunnelTCP: %v", err)
			}
			pc, err := ln.Accept()
			if err != nil {
				sock.Close()
				return nil
			}
			defer pc.Close()
			recvFrames = func() ([][]byte, *common.Fail) {
				pc.SetReadDeadline(time.Now().Add(limit))
				var out [][]byte
				for len(out) < len(vals) {
					hdr := make([]byte, 6)
					if _, err := io.ReadFull(pc, hdr); err != nil {
						return out, common.Failf("peer-read", "tcp peer: after %d of %d frames: %v", len(out), len(vals), err)
					}
					total := int(binary.BigEndian.Uint16(hdr[4:]))
					if hdr[0] != 6 || hdr[1] != 0x10 || total < 6 {
						return out, common.Failf("stream-garbled", "tcp peer: the byte stream does not continue with a frame header after %d frames: % x", len(out), hdr)
					}
					body := make([]byte, total-6)
					if _, err := io.ReadFull(pc, body); err != nil {
						return out, common.Failf("peer-read", "tcp peer: frame %d body: %v", len(out), err)
					}
					out = append(out, append(hdr, body...))
				}
				return out, nil
			}
		} else {
			pc, err := net.ListenUDP("udp4", &net.UDPAddr{IP: net.IPv4(127, 0, 0, 1)})
			if err != nil {
				return nil
			}
			defer pc.Close()
			pc.SetReadBuffer(4 << 20)
			sock, err = knxnet.DialTunnelUDP(pc.LocalAddr().String())
			if err != nil {
				return common.Failf("dial", "DialTunnelUDP: %v", err)
			}
			recvFrames = func() ([][]byte, *common.Fail) {
				pc.SetReadDeadline(time.Now().Add(limit))
				var out [][]byte
				buf := make([]byte, 65536)
				for len(out) < len(vals) {
					n, from, err := pc.ReadFromUDP(buf)
					if err != nil {
						return out, common.Failf("peer-read", "udp peer: after %d of %d datagrams: %v", len(out), len(vals), err)
					}
					if la, ok := sock.LocalAddr().(*net.UDPAddr); ok && from.Port != la.Port {
						continue // a stray datagram of another process (ephemeral ports are recycled between parallel shards)
					}
					out = append(out, append([]byte{}, buf[:n]...))
				}
				return out, nil
			}
		}
		defer sock.Close()
		senders := p.Senders
		if senders < 1 {
			senders = 1
		}
		var wg sync.WaitGroup
		errs := make(chan error, len(vals))
		for g := 0; g < senders; g++ {
			wg.Add(1)
			go func(g int) {
				defer wg.Done()
				for i := g; i < len(vals); i += senders {
					if err := sock.Send(vals[i]); err != nil {
						errs <- err
					}
				}
			}(g)
		}
		got, f := recvFrames()
		wg.Wait()
		close(errs)
		for err := range errs {
			return common.Failf("send-error", "%s: Send returned %v", p.Mode, err)
		}
		if f != nil {
			return f
		}
		for i, b := range got {
			if wantBytes[string(b)] == 0 {
				return common.Failf("frame-garbled", "%s with %d concurrent senders: the peer received %x as unit #%d, which is not the encoding of any frame that was sent (or was sent fewer times)", p.Mode, senders, b, i)
			}
			wantBytes[string(b)]--
		}
		if senders == 1 {
			for i, b := range got {
				if !bytes.Equal(b, knxnet.AllocAndPack(vals[i])) {
					return common.Failf("frame-order", "%s: unit #%d received by the peer is not the #%d-th frame sent", p.Mode, i, i)
				}
			}
		}
	case "tcp-send-stalled":
		return c16SendStalled(p)
	case "router-recv", "router-send":
		// the multicast socket (ListenRouterOnInterface, loopback enabled) against a peer that is a member of the same group
		probeMulticast()
		if !mcastOK {
			return nil
		}
		want, _ := decodeAll(p.Frames)
		if want == nil {
			return nil
		}
		k := int(atomic.AddInt32(&confSeq, 1))
		pid := os.Getpid()
		grp := mcastAddr(253, pid, k)
		pc, err := net.ListenUDP("udp4", grp)
		if err != nil {
			return nil
		}
		defer pc.Close()
		pp := ipv4.NewPacketConn(pc)
		if pp.JoinGroup(nil, grp) != nil {
			return nil
		}
		pp.SetMulticastLoopback(true)
		sock, err := knxnet.ListenRouterOnInterface(nil, grp.String(), true)
		if err != nil {
			return nil
		}
		defer sock.Close()
		if p.Mode == "router-recv" {
			var got []knxnet.Service
			sent := 0
			for sent < len(p.Frames) {
				w := 4
				if p.Burst {
					w = len(p.Frames)
				}
				if sent+w > len(p.Frames) {
					w = len(p.Frames) - sent
				}
				exp := 0
				for i := 0; i < w; i++ {
					pc.WriteToUDP(unhex(p.Frames[sent+i]), grp)
					if decodable(p.Frames[sent+i]) {
						exp++
					}
				}
				if sent == 0 {
					time.Sleep(time.Duration(p.ReaderPauseMs) * time.Millisecond)
				}
				g, closed := collect(sock.Inbound(), exp, limit)
				got = append(got, g...)
				if closed || len(g) < exp {
					return common.Failf("delivered-count", "router socket: after %d datagrams to the group only %d were delivered on Inbound() (closed=%v)", sent+w, len(got), closed)
				}
				sent += w
			}
			if f := compareDelivered(want, got, fmt.Sprintf("multicast sequence of %d datagrams", len(want))); f != nil {
				return f
			}
			sock.Close()
			extra, closed := expectClosed(sock.Inbound(), limit)
			if len(extra) > 0 {
				return common.Failf("delivered-twice", "router socket: %d extra value(s) on Inbound() after all datagrams had been delivered", len(extra))
			}
			if !closed {
				return common.Failf("inbound-not-closed", "router socket: Inbound() did not close within 5 s after Close")
			}
			return nil
		}
		// router-send: every Send is one datagram to the group equal to the frame's encoding (the socket
		// hears its own transmissions too: drain them so that its receiver never blocks)
		go func() {
			for range sock.Inbound() {
			}
		}()
		wantBytes := map[string]int{}
		var vals []knxnet.ServicePackable
		for _, sv := range want {
			sp, ok := sv.(knxnet.ServicePackable)
			if !ok {
				return nil
			}
			vals = append(vals, sp)
			wantBytes[string(knxnet.AllocAndPack(sp))]++
		}
		senders := p.Senders
		if senders < 1 {
			senders = 1
		}
		var wg sync.WaitGroup
		for g := 0; g < senders; g++ {
			wg.Add(1)
			go func(g int) {
				defer wg.Done()
				for i := g; i < len(vals); i += senders {
					sock.Send(vals[i])
					if i%4 == 3 {
						time.Sleep(200 * time.Microsecond) // keep the group's receive queues short
					}
				}
			}(g)
		}
		buf := make([]byte, 65536)
		pc.SetReadDeadline(time.Now().Add(limit))
		for n := 0; n < len(vals); n++ {
			m, _, err := pc.ReadFromUDP(buf)
			if err != nil {
				wg.Wait()
				return common.Failf("peer-read", "router socket: the group member received %d of %d datagrams: %v", n, len(vals), err)
			}
			if wantBytes[string(buf[:m])] == 0 {
				wg.Wait()
				return common.Failf("frame-garbled", "router socket with %d concurrent senders: the group received %x, which is not the encoding of any frame sent (or sent fewer times)", senders, buf[:m])
			}
			wantBytes[string(buf[:m])]--
		}
		wg.Wait()
	case "tcp-close-race", "udp-close-race":
		// the peer keeps transmitting while the application calls Close at a drawn moment and drains Inbound:
		// what was delivered must be an in-order, duplicate-free part of what was sent (a prefix on TCP),
		// Inbound must close and the receiver must end
		want, _ := decodeAll(p.Frames)
		if want == nil {
			return nil
		}
		var sock *knxnet.TunnelSocket
		var stop func()
		done := make(chan struct{})
		if p.Mode == "tcp-close-race" {
			ln, err := net.Listen("tcp4", "127.0.0.1:0")
			if err != nil {
				return nil
			}
			defer ln.Close()
			sock, err = knxnet.DialTunnelTCP(ln.Addr().String())
			if err != nil {
				return common.Failf("dial", "DialTunnelTCP: %v", err)
			}
			pc, err := ln.Accept()
			if err != nil {
				sock.Close()
				return nil
			}
			stop = func() { pc.Close() }
			go func() {
				defer close(done)
				for _, h := range p.Frames {
					if _, err := pc.Write(unhex(h)); err != nil {
						return
					}
				}
			}()
		} else {
			pc, err := net.ListenUDP("udp4", &net.UDPAddr{IP: net.IPv4(127, 0, 0, 1)})
			if err != nil {
				return nil
			}
			sock, err = knxnet.DialTunnelUDP(pc.LocalAddr().String())
			if err != nil {
				pc.Close()
				return common.Failf("dial", "DialTunnelUDP: %v", err)
			}
			caddr := sock.LocalAddr().(*net.UDPAddr)
			stop = func() { pc.Close() }
			go func() {
				defer close(done)
				for i, h := range p.Frames {
					pc.WriteToUDP(unhex(h), caddr)
					if i%8 == 7 {
						time.Sleep(20 * time.Microsecond)
					}
				}
			}()
		}
		go func() {
			time.Sleep(time.Duration(p.PauseUs) * time.Microsecond)
			sock.Close()
		}()
		var got []knxnet.Service
		tm := time.NewTimer(limit)
		closed := false
	drain:
		for {
			select {
			case s, open := <-sock.Inbound():
				if !open {
					closed = true
					break drain
				}
				got = append(got, s)
			case <-tm.C:
				break drain
			}
		}
		tm.Stop()
		stop()
		<-done
		sock.Close()
		if !closed {
			return common.Failf("inbound-not-closed", "%s: Inbound() did not close within 5 s after Close was called while frames were arriving", p.Mode)
		}
		j := 0
		for i, g := range got {
			found := false
			for ; j < len(want); j++ {
				if common.SameValue(want[j], g) {
					found = true
					j++
					break
				}
				if p.Mode == "tcp-close-race" {
					break // TCP: no gaps allowed
				}
			}
			if !found {
				return common.Failf("delivered-differs", "%s: delivery #%d (%s) is not the next transmitted frame (or appears twice / out of order); %d frames sent, %d delivered before Close took effect", p.Mode, i, common.Show(g), len(want), len(got))
			}
		}
	case "hpai":
		return c16HPAI(p)
	case "tcp-tunnel-close":
		return c16TunnelClose(p)
	}
	return nil
}

// c16TunnelClose: "after Close the Inbound channel is closed and the receiver goroutine has ended", for the socket
// inside a TCP tunnel: the gateway answers the connect request and writes Senders (2..6) well-formed frames in one
// segment (optionally behind a disconnect response), which nobody reads; then the application closes the tunnel.
// c16SendStalled: "every Send emits exactly one complete well-formed frame (one contiguous run of bytes on TCP)" when
// the peer is slow to read: it stays away for StallMs while the client sends far more than the connection buffers, so
// that a Send has to wait with a part of its frame handed to the kernel already. Whatever Send does about that
// (wait, as the unchanged library does; give up), what the peer finds on the stream afterwards is a sequence of whole
// frames: those of the Sends that reported success, each once, in order - and nothing of a Send that reported failure
// except a whole frame.
func c16SendStalled(p c16Plan) *common.Fail {
	ln, err := net.Listen("tcp4", "127.0.0.1:0")
	if err != nil {
		return nil
	}
	defer ln.Close()
	sock, err := knxnet.DialTunnelTCP(ln.Addr().String())
	if err != nil {
		return common.Failf("dial", "DialTunnelTCP: %v", err)
	}
	defer sock.Close()
	pc, err := ln.Accept()
	if err != nil {
		return nil
	}
	defer pc.Close()
	mk := func(i int) []byte {
		n := p.BigLen - (i % 7)
		b := make([]byte, n)
		b[0], b[1], b[2], b[3] = 6, 0x10, 0x0f, 0x42
		binary.BigEndian.PutUint16(b[4:], uint16(n))
		binary.BigEndian.PutUint32(b[6:], uint32(i))
		for k := 10; k < n; k++ {
			b[k] = byte(k*31 + i*7)
		}
		return b
	}
	okSend := make([]atomic.Bool, p.Big)
	var sendErr atomic.Value
	done := make(chan struct{})
	go func() {
		defer close(done)
		for i := 0; i < p.Big; i++ {
			var sv knxnet.Service
			if _, err := knxnet.Unpack(mk(i), &sv); err != nil {
				return
			}
			sp, ok := sv.(knxnet.ServicePackable)
			if !ok {
				return
			}
			if err := sock.Send(sp); err != nil {
				sendErr.Store(fmt.Sprintf("Send #%d: %v", i, err))
				continue
			}
			okSend[i].Store(true)
		}
		sock.Close()
	}()
	time.Sleep(time.Duration(p.StallMs) * time.Millisecond)
	// strict reader
	rd := bufio.NewReaderSize(pc, 1<<20)
	last := -1
	seen := 0
	for {
		pc.SetReadDeadline(time.Now().Add(limit))
		hdr := make([]byte, 10)
		n, err := io.ReadFull(rd, hdr)
		if err != nil {
			if n == 0 && (err == io.EOF) {
				break
			}
			if ne, ok := err.(net.Error); ok && ne.Timeout() {
				return common.Failf("peer-read", "tcp peer that stayed away for %d ms: nothing more arrives after %d whole frames although the client is still sending or has not closed", p.StallMs, seen)
			}
			return common.Failf("stream-garbled", "tcp peer that stayed away for %d ms while the client sent %d frames of about %d octets: the stream ends with %d octets of a frame header (% x) after %d whole frames: %v (first failing Send: %v)", p.StallMs, p.Big, p.BigLen, n, hdr[:n], seen, err, sendErr.Load())
		}
		total := int(binary.BigEndian.Uint16(hdr[4:]))
		idx := int(binary.BigEndian.Uint32(hdr[6:]))
		if hdr[0] != 6 || hdr[1] != 0x10 || hdr[2] != 0x0f || hdr[3] != 0x42 || idx <= last || idx >= p.Big || total != p.BigLen-(idx%7) {
			return common.Failf("stream-garbled", "tcp peer that stayed away for %d ms while the client sent %d frames of about %d octets: after %d whole frames (the last one #%d) the stream does not continue with the header of a later frame but with % x (first failing Send: %v)", p.StallMs, p.Big, p.BigLen, seen, last, hdr, sendErr.Load())
		}
		body := make([]byte, total-10)
		if n, err := io.ReadFull(rd, body); err != nil {
			return common.Failf("stream-garbled", "tcp peer that stayed away for %d ms: frame #%d (%d octets) is cut off after %d octets: %v (first failing Send: %v)", p.StallMs, idx, total, 10+n, err, sendErr.Load())
		}
		want := mk(idx)
		if !bytes.Equal(body, want[10:]) {
			k := 0
			for k < len(body) && body[k] == want[10+k] {
				k++
			}
			return common.Failf("stream-garbled", "tcp peer that stayed away for %d ms: frame #%d differs from what was sent from octet %d on (% x instead of % x) (first failing Send: %v)", p.StallMs, idx, 10+k, body[k:min(k+12, len(body))], want[10+k:min(10+k+12, len(want))], sendErr.Load())
		}
		for j := last + 1; j < idx; j++ {
			if okSend[j].Load() {
				return common.Failf("frame-lost", "tcp peer that stayed away for %d ms: Send #%d reported success but its frame is not on the stream (frame #%d follows #%d)", p.StallMs, j, idx, last)
			}
		}
		last = idx
		seen++
	}
	select {
	case <-done:
	case <-time.After(limit):
		return common.Failf("send-hung", "tcp-send-stalled: the sender did not finish within 5 s after the peer had read everything")
	}
	for j := last + 1; j < p.Big; j++ {
		if okSend[j].Load() {
			return common.Failf("frame-lost", "tcp peer that stayed away for %d ms: Send #%d reported success but the stream ended after frame #%d", p.StallMs, j, last)
		}
	}
	return nil
}

func c16TunnelClose(p c16Plan) *common.Fail {
	base := receiverGoroutines()
	ln, err := net.Listen("tcp4", "127.0.0.1:0")
	if err != nil {
		return nil
	}
	defer ln.Close()
	go func() {
		c, err := ln.Accept()
		if err != nil {
			return
		}
		defer c.Close()
		buf := make([]byte, 512)
		if _, err := c.Read(buf); err != nil { // the connect request
			return
		}
		c.Write(knxnet.AllocAndPack(&knxnet.ConnRes{Channel: 5, Status: knxnet.NoError, Control: knxnet.HostInfo{Protocol: knxnet.TCP4}}))
		time.Sleep(5 * time.Millisecond)
		var burst []byte
		if p.PeerClose {
			burst = append(burst, knxnet.AllocAndPack(&knxnet.DiscRes{Channel: 5, Status: 0})...)
		}
		for _, h := range p.Frames {
			burst = append(burst, unhex(h)...)
		}
		c.Write(burst)
		c.Read(buf) // stay until the client goes
		time.Sleep(300 * time.Millisecond)
	}()
	tun, err := knx.NewTunnel(ln.Addr().String(), knxnet.TunnelLayerData, knx.TunnelConfig{UseTCP: true, ResendInterval: 200 * time.Millisecond, ResponseTimeout: time.Second, HeartbeatInterval: time.Hour})
	if err != nil {
		return nil
	}
	time.Sleep(time.Duration(20+p.ReaderPauseMs) * time.Millisecond)
	done := make(chan struct{})
	go func() { tun.Close(); close(done) }()
	select {
	case <-done:
	case <-time.After(limit):
		return common.Failf("close-hung", "tcp tunnel: Close did not return within 5 s with %d unread frames in the socket", len(p.Frames))
	}
	if !waitReceiversGone(base) {
		return common.Failf("receiver-leak", "tcp tunnel: the socket's receiver goroutine is still alive 2 s after Tunnel.Close returned; the gateway had written %d frames in one segment that nobody read (disconnect response first: %v)", len(p.Frames), p.PeerClose)
	}
	return nil
}

// c16HPAI: knx.NewTunnel over the real sockets; the connect request's endpoints.
func c16HPAI(p c16Plan) *common.Fail {
	cfg := knx.TunnelConfig{ResendInterval: 200 * time.Millisecond, ResponseTimeout: 2 * time.Second, HeartbeatInterval: time.Hour, UseTCP: p.TCP, SendLocalAddress: p.SendLocal}
	switch p.Senders { // hpai: which of the timing fields the application leaves at zero (the library fills in its defaults)
	case 1:
		cfg.ResendInterval, cfg.ResponseTimeout, cfg.HeartbeatInterval = 0, 0, 0
	case 2:
		cfg.HeartbeatInterval = 0
	case 3:
		cfg.ResendInterval, cfg.ResponseTimeout = 0, 0
	}
	type seen struct {
		req  *knxnet.ConnReq
		from net.Addr
		err  error
	}
	ch := make(chan seen, 1)
	var addr string
	var cleanup func()
	if p.TCP {
		ln, err := net.Listen("tcp4", "127.0.0.1:0")
		if err != nil {
			return nil
		}
		addr = ln.Addr().String()
		cleanup = func() { ln.Close() }
		go func() {
			c, err := ln.Accept()
			if err != nil {
				ch <- seen{err: err}
				return
			}
			defer c.Close()
			c.SetDeadline(time.Now().Add(limit))
			hdr := make([]byte, 6)
			if _, err := io.ReadFull(c, hdr); err != nil {
				ch <- seen{err: err}
				return
			}
			body := make([]byte, int(binary.BigEndian.Uint16(hdr[4:]))-6)
			io.ReadFull(c, body)
			var s knxnet.Service
			knxnet.Unpack(append(hdr, body...), &s)
			req, _ := s.(*knxnet.ConnReq)
			ch <- seen{req: req, from: c.RemoteAddr()}
			c.Write(knxnet.AllocAndPack(&knxnet.ConnRes{Channel: 9, Status: knxnet.NoError, Control: knxnet.HostInfo{Protocol: knxnet.TCP4}}))
			io.Copy(io.Discard, c) // until the client closes
		}()
	} else {
		pc, err := net.ListenUDP("udp4", &net.UDPAddr{IP: net.IPv4(127, 0, 0, 1)})
		if err != nil {
			return nil
		}
		addr = pc.LocalAddr().String()
		cleanup = func() { pc.Close() }
		go func() {
			pc.SetReadDeadline(time.Now().Add(limit))
			buf := make([]byte, 2048)
			n, from, err := pc.ReadFromUDP(buf)
			if err != nil {
				ch <- seen{err: err}
				return
			}
			var s knxnet.Service
			knxnet.Unpack(buf[:n], &s)
			req, _ := s.(*knxnet.ConnReq)
			ch <- seen{req: req, from: from}
			pc.WriteToUDP(knxnet.AllocAndPack(&knxnet.ConnRes{Channel: 9, Status: knxnet.NoError, Control: knxnet.HostInfo{Protocol: knxnet.UDP4}}), from)
		}()
	}
	defer cleanup()
	tun, err := knx.NewTunnel(addr, knxnet.TunnelLayerData, cfg)
	s := <-ch
	if err != nil {
		return common.Failf("newtunnel", "knx.NewTunnel against a loopback gateway failed: %v (peer: %v)", err, s.err)
	}
	defer tun.Close()
	if s.req == nil {
		return common.Failf("connreq-missing", "the first frame the gateway received is not a connect request (%v)", s.err)
	}
	zero := knxnet.HostInfo{Protocol: knxnet.UDP4}
	if p.TCP {
		zero.Protocol = knxnet.TCP4
	}
	want := zero
	if p.SendLocal && !p.TCP {
		u := s.from.(*net.UDPAddr)
		copy(want.Address[:], u.IP.To4())
		want.Port = knxnet.Port(u.Port)
	}
	if s.req.Control != want || s.req.Tunnel != want {
		return common.Failf("hpai", "connect request (tcp=%v, SendLocalAddress=%v) advertises control %+v / data %+v; expected %+v (datagram source %v)", p.TCP, p.SendLocal, s.req.Control, s.req.Tunnel, want, s.from)
	}
	return nil
}

// ---------------------------------------------------------------------------------- generator

func genFrames(rt *rapid.T, n int, maxLen int) []string {
	var out []string
	for len(out) < n {
		kind := rapid.SampledFrom(common.AllFrameKinds).Draw(rt, "kind")
		ck := rapid.SampledFrom(common.CemiKinds).Draw(rt, "cemi")
		f := common.GenFrame(rt, kind, ck)
		if kind == "descrres" {
			f.Extra = common.GenValidDIBs(rt) // blocks whose payload the decoder keeps: it must keep a copy
		}
		b, _ := common.RefEncode(f)
		if len(b) > maxLen || len(b) < 6 {
			continue
		}
		var s knxnet.Service
		if _, err := knxnet.Unpack(b, &s); err != nil {
			continue
		}
		out = append(out, hex.EncodeToString(b))
	}
	return out
}

// atSizeLimit appends well-formed frames of exactly the given total sizes (unknown service, body of size-6 octets):
// the receive buffer of the datagram sockets is 1024 octets, a frame that fills it to the last octet is complete.
func atSizeLimit(rt *rapid.T, frames []string, sizes ...int) []string {
	for _, n := range sizes {
		body := make([]byte, n-6)
		for i := range body {
			body[i] = byte(i*13 + n)
		}
		b, _ := common.RefEncode(&common.RFrame{Service: 0x0533, Raw: body})
		at := rapid.IntRange(0, len(frames)).Draw(rt, "limit-frame-at")
		frames = append(frames[:at], append([]string{hex.EncodeToString(b)}, frames[at:]...)...)
	}
	return frames
}

// withJunk inserts 1..3 units that are correctly framed but whose body the decoder rejects (a structure length that
// is off, a lying embedded length, a truncated body under a consistent header): the receivers skip such a unit.
func withJunk(rt *rapid.T, frames []string, maxLen int) []string {
	for k := rapid.IntRange(1, 3).Draw(rt, "junk-frames"); k > 0; k-- {
		for try := 0; try < 20; try++ {
			kind := rapid.SampledFrom([]string{"tunnelres", "tunnelreq", "connres-ok", "connstateres", "routingind", "descrres", "searchres"}).Draw(rt, "junk-kind")
			b, lens := common.RefEncode(common.GenFrame(rt, kind, rapid.SampledFrom(common.CemiKinds).Draw(rt, "junk-cemi")))
			m := mutateFrame(rt, b, lens, true)
			if len(m) > maxLen || !framed(m) || decodable(hex.EncodeToString(m)) {
				continue
			}
			at := rapid.IntRange(0, len(frames)).Draw(rt, "junk-at")
			frames = append(frames[:at], append([]string{hex.EncodeToString(m)}, frames[at:]...)...)
			break
		}
	}
	return frames
}

func genPlanC16(rt *rapid.T) c16Plan {
	mode := rapid.SampledFrom([]string{"tcp-recv", "tcp-recv", "tcp-recv", "udp-recv", "tcp-send", "udp-send", "hpai", "tcp-close-race", "udp-close-race", "router-recv", "router-send", "tcp-tunnel-close"}).Draw(rt, "mode")
	p := c16Plan{Mode: mode}
	switch mode {
	case "hpai":
		p.TCP, p.SendLocal = rapid.Bool().Draw(rt, "tcp"), rapid.Bool().Draw(rt, "sendlocal")
		p.Senders = rapid.SampledFrom([]int{0, 1, 1, 2, 3}).Draw(rt, "timing-left-at-defaults")
		return p
	case "tcp-tunnel-close":
		for i := 0; i < rapid.IntRange(1, 6).Draw(rt, "unread"); i++ {
			p.Frames = append(p.Frames, hex.EncodeToString(knxnet.AllocAndPack(&knxnet.TunnelReq{Channel: 5, SeqNumber: uint8(i), Payload: &cemi.LDataInd{LData: confLData(i)}})))
		}
		p.PeerClose = rapid.Bool().Draw(rt, "discres-first")
		p.ReaderPauseMs = rapid.SampledFrom([]int{0, 5, 30}).Draw(rt, "close-after")
		return p
	case "tcp-recv":
		n := rapid.IntRange(1, 50).Draw(rt, "frames")
		if rapid.IntRange(0, 2).Draw(rt, "few") > 0 {
			n = rapid.IntRange(1, 6).Draw(rt, "frames-few")
		}
		p.Frames = genFrames(rt, n, 2000)
		if rapid.IntRange(0, 5).Draw(rt, "big") == 0 {
			// a frame far above the UDP buffer size: unknown service with a large body (TCP carries up to 65535 bytes)
			body := make([]byte, rapid.SampledFrom([]int{1019, 1500, 4096, 30000, 65529}).Draw(rt, "big-len"))
			for i := range body {
				body[i] = byte(i * 7)
			}
			b, _ := common.RefEncode(&common.RFrame{Service: 0x0533, Raw: body})
			p.Frames = append(p.Frames, hex.EncodeToString(b))
		}
		switch rapid.IntRange(0, 4).Draw(rt, "cutstyle") {
		case 0: // one cut at a chosen position (the caller enumerates every position for short streams)
			total := 0
			for _, f := range p.Frames {
				total += len(f) / 2
			}
			p.Cuts = []int{rapid.IntRange(1, total).Draw(rt, "cut"), 0}
		case 1: // dribble
			p.Cuts = []int{1}
		case 2: // small irregular segments
			for i := 0; i < rapid.IntRange(1, 6).Draw(rt, "ncuts"); i++ {
				p.Cuts = append(p.Cuts, rapid.IntRange(1, 13).Draw(rt, "seg"))
			}
		case 3: // coalesced: everything at once
			p.Cuts = nil
		default:
			for i := 0; i < rapid.IntRange(1, 5).Draw(rt, "ncuts2"); i++ {
				p.Cuts = append(p.Cuts, rapid.IntRange(1, 700).Draw(rt, "seg2"))
			}
		}
		p.PauseUs = rapid.SampledFrom([]int{0, 0, 20, 200}).Draw(rt, "pause")
		if len(p.Cuts) == 1 && p.Cuts[0] == 1 {
			p.PauseUs = rapid.SampledFrom([]int{0, 0, 10}).Draw(rt, "pause-dribble")
		}
		for _, f := range p.Frames {
			if len(f)/2 > 2000 {
				p.PauseUs = 0 // tens of thousands of segments: pauses would exceed every limit
			}
		}
		p.PeerClose = rapid.Bool().Draw(rt, "peer-close")
		if rapid.IntRange(0, 3).Draw(rt, "junk") == 0 {
			p.Frames = withJunk(rt, p.Frames, 2000)
		}
		if rapid.IntRange(0, 3).Draw(rt, "large-frame") == 0 {
			// a frame of an unassigned service with 4..64 kB: a stream has no datagram limit, only the 16-bit total length
			total := rapid.SampledFrom([]int{4095, 4096, 4097, 5000, 8192, 8193, 16384, 32768, 65534, 65535}).Draw(rt, "large-total")
			b := make([]byte, total)
			for i := range b {
				b[i] = byte(i*13 + total)
			}
			b[0], b[1], b[2], b[3], b[4], b[5] = 6, 0x10, 0x0f, 0x42, byte(total>>8), byte(total)
			at := rapid.IntRange(0, len(p.Frames)).Draw(rt, "large-at")
			p.Frames = append(p.Frames[:at], append([]string{hex.EncodeToString(b)}, p.Frames[at:]...)...)
			p.PauseUs = 0
			for i := range p.Cuts {
				if p.Cuts[i] > 0 {
					p.Cuts[i] *= 97
				}
			}
		}
		if rapid.IntRange(0, 9).Draw(rt, "slow-reader") == 0 {
			p.ReaderPauseMs = rapid.SampledFrom([]int{5, 60, 250}).Draw(rt, "reader-pause")
		}
	case "udp-recv", "router-recv":
		if rapid.IntRange(0, 3).Draw(rt, "burst") == 0 {
			// 17..64 small distinct frames in one go while the reader is away for a moment
			n := rapid.IntRange(17, 64).Draw(rt, "burst-frames")
			for i := 0; i < n; i++ {
				var f knxnet.ServicePackable = &knxnet.TunnelRes{Channel: uint8(i >> 8), SeqNumber: uint8(i), Status: knxnet.ErrCode(i % 3)}
				if i%5 == 0 {
					f = &knxnet.ConnStateRes{Channel: uint8(i), Status: knxnet.ErrCode(i % 2)}
				}
				p.Frames = append(p.Frames, hex.EncodeToString(knxnet.AllocAndPack(f)))
			}
			p.Burst = true
			p.ReaderPauseMs = rapid.SampledFrom([]int{0, 20, 80}).Draw(rt, "burst-reader-pause")
			return p
		}
		p.Frames = genFrames(rt, rapid.IntRange(1, 40).Draw(rt, "frames"), 1024)
		if rapid.IntRange(0, 2).Draw(rt, "size-limit") == 0 {
			p.Frames = atSizeLimit(rt, p.Frames, rapid.SampledFrom([]int{1024, 1024, 1023, 1000}).Draw(rt, "limit-size"))
		}
		if rapid.IntRange(0, 3).Draw(rt, "junk") == 0 {
			p.Frames = withJunk(rt, p.Frames, 1024)
		}
		if rapid.IntRange(0, 2).Draw(rt, "runts") == 0 {
			// datagrams that are no frame at all: empty, or shorter than a header (anybody in the group can send them)
			for k := rapid.IntRange(1, 3).Draw(rt, "runt-n"); k > 0; k-- {
				at := rapid.IntRange(0, len(p.Frames)-1).Draw(rt, "runt-at")
				r := rapid.SampledFrom([]string{"!", "!", "!06", "!0610", "!06100420", "!0610042000"}).Draw(rt, "runt")
				p.Frames = append(p.Frames[:at], append([]string{r}, p.Frames[at:]...)...)
			}
		}
		if rapid.IntRange(0, 9).Draw(rt, "slow-reader") == 0 {
			p.ReaderPauseMs = rapid.SampledFrom([]int{5, 60, 250}).Draw(rt, "reader-pause")
		}
	case "router-send":
		p.Frames = genFrames(rt, rapid.IntRange(1, 24).Draw(rt, "frames"), 1024)
		p.Senders = rapid.IntRange(1, 6).Draw(rt, "senders")
	case "tcp-close-race", "udp-close-race":
		// a few distinct frames repeated with a running tunnelling sequence number so that every frame is unique
		n := rapid.IntRange(20, 300).Draw(rt, "race-frames")
		for i := 0; i < n; i++ {
			p.Frames = append(p.Frames, hex.EncodeToString(knxnet.AllocAndPack(&knxnet.TunnelRes{Channel: uint8(i >> 8), SeqNumber: uint8(i), Status: knxnet.ErrCode(i % 3)})))
		}
		p.PauseUs = rapid.IntRange(0, 3000).Draw(rt, "close-after")
	default:
		p.Frames = genFrames(rt, rapid.IntRange(1, 40).Draw(rt, "frames"), 1024)
		if mode == "tcp-send" && rapid.IntRange(0, 1).Draw(rt, "large-frame") == 0 {
			// frame sizes up to the largest encodable frame: the 16-bit total length ends at 65535 (header included)
			total := rapid.SampledFrom([]int{4096, 8193, 32768, 65000, 65528, 65529, 65530, 65531, 65532, 65533, 65534, 65535}).Draw(rt, "large-total")
			b := make([]byte, total)
			for i := range b {
				b[i] = byte(i*13 + total)
			}
			b[0], b[1], b[2], b[3], b[4], b[5] = 6, 0x10, 0x0f, 0x42, byte(total>>8), byte(total)
			at := rapid.IntRange(0, len(p.Frames)).Draw(rt, "large-at")
			p.Frames = append(p.Frames[:at], append([]string{hex.EncodeToString(b)}, p.Frames[at:]...)...)
		}
		p.Senders = rapid.IntRange(1, 8).Draw(rt, "senders")
	}
	return p
}

func TestC16(t *testing.T) {
	rec := common.NewRec("C16", "sock")
	completed := false
	defer func() { rec.Finish(completed) }()
	if rec.Env.Replay != "" {
		common.ReplayOnly(t, rec, c16Run)
		completed = true
		return
	}
	// exhaustive single-cut sweep of a short fixed stream (every cut position)
	if rec.Env.Shard == 0 {
		frames := []string{
			hex.EncodeToString(knxnet.AllocAndPack(&knxnet.ConnStateRes{Channel: 7, Status: 0})),
			hex.EncodeToString(knxnet.AllocAndPack(&knxnet.TunnelRes{Channel: 7, SeqNumber: 3, Status: 0})),
			hex.EncodeToString(knxnet.AllocAndPack(&knxnet.ConnRes{Channel: 7, Status: 0, Control: knxnet.HostInfo{Protocol: knxnet.UDP4}})),
			hex.EncodeToString(knxnet.AllocAndPack(&knxnet.DiscRes{Channel: 7, Status: 0})),
		}
		total := 0
		for _, f := range frames {
			total += len(f) / 2
		}
		for cut := 1; cut < total; cut++ {
			p := c16Plan{Mode: "tcp-recv", Frames: frames, Cuts: []int{cut, 0}, PauseUs: 300, PeerClose: cut%2 == 0}
			rec.Eval(1)
			rec.NonTrivialEnum(1)
			if f := common.Guard(func() *common.Fail { return c16Run(p) }); f != nil {
				common.Report(t, rec, f, p)
			}
		}
		rec.Exhaustive(fmt.Sprintf("every single cut position (1..%d) of a fixed 4-frame TCP stream", total-1))
	}
	common.Drive(t, rec, func(rt *rapid.T) c16Plan {
		p := genPlanC16(rt)
		cls := p.Mode
		if p.Mode == "tcp-recv" {
			switch {
			case len(p.Cuts) == 0:
				cls += " coalesced"
			case len(p.Cuts) == 1 && p.Cuts[0] == 1:
				cls += " 1-byte dribble"
			case len(p.Cuts) == 2 && p.Cuts[1] == 0:
				cls += " single cut"
			default:
				cls += " irregular segments"
			}
			if len(p.Frames) >= 2 && len(p.Cuts) > 0 {
				rec.NonTrivial(common.HashJSON(p))
			}
		} else if p.Senders >= 2 || p.Mode == "udp-recv" || p.Mode == "hpai" || strings.HasSuffix(p.Mode, "close-race") || p.Mode == "tcp-tunnel-close" || strings.HasPrefix(p.Mode, "router-") {
			rec.NonTrivial(common.HashJSON(p))
		}
		rec.Class(cls)
		rec.Sample(cls, p)
		return p
	}, c16Run)
	_ = sort.Ints
	completed = true
}

// TestC16Slow: a consumer that stays away from Inbound() for seconds while frames arrive still gets every frame, once
// and in order (the receivers hand over with a blocking send; nothing may be discarded on the reader's behalf).
func TestC16Slow(t *testing.T) {
	rec := common.NewRec("C16", "slow-reader")
	completed := false
	defer func() { rec.Finish(completed) }()
	if rec.Env.Replay != "" {
		common.ReplayOnly(t, rec, c16Run)
		completed = true
		return
	}
	pauses := []int{1100, 1700, 2600}
	if rec.Env.Thorough() {
		pauses = []int{1100, 1700, 2600, 5500, 11000}
	}
	common.Drive(t, rec, func(rt *rapid.T) c16Plan {
		p := c16Plan{Mode: rapid.SampledFrom([]string{"tcp-recv", "tcp-recv", "udp-recv", "router-recv", "tcp-send-stalled"}).Draw(rt, "mode")}
		if p.Mode == "tcp-send-stalled" {
			p.StallMs = rapid.SampledFrom(pauses).Draw(rt, "peer-away")
			p.Big = rapid.IntRange(150, 260).Draw(rt, "big-frames")
			p.BigLen = rapid.IntRange(50000, 65000).Draw(rt, "big-len")
			rec.Class(fmt.Sprintf("tcp-send: peer away %d ms while 7..17 MB are sent", p.StallMs))
			rec.NonTrivial(common.HashJSON(p))
			rec.Sample("send-stalled", p)
			return p
		}
		p.Frames = genFrames(rt, rapid.IntRange(2, 12).Draw(rt, "frames"), 600)
		p.ReaderPauseMs = rapid.SampledFrom(pauses).Draw(rt, "reader-pause")
		if p.Mode == "tcp-recv" {
			p.PeerClose = rapid.Bool().Draw(rt, "peer-close")
			if rapid.Bool().Draw(rt, "cut") {
				p.Cuts = []int{rapid.IntRange(1, 40).Draw(rt, "seg")}
				p.PauseUs = 50
			}
			if rapid.IntRange(0, 2).Draw(rt, "slow-peer") > 0 {
				// the link stalls in the middle of a frame instead of the reader staying away: mostly behind the header
				// of a frame (the receiver has peeked the header and waits for the rest), sometimes anywhere
				j := rapid.IntRange(0, len(p.Frames)-1).Draw(rt, "stall-frame")
				off := 0
				for _, f := range p.Frames[:j] {
					off += len(f) / 2
				}
				n := len(p.Frames[j]) / 2
				switch {
				case n > 7 && rapid.IntRange(0, 3).Draw(rt, "stall-where") > 0:
					p.StallAt = off + rapid.IntRange(6, n-1).Draw(rt, "stall-in-body")
				default:
					p.StallAt = off + rapid.IntRange(1, n-1).Draw(rt, "stall-anywhere")
				}
				p.StallMs, p.ReaderPauseMs = p.ReaderPauseMs, 0
			}
		}
		if p.StallMs > 0 {
			rec.Class(fmt.Sprintf("%s peer stalls %d ms inside the stream", p.Mode, p.StallMs))
		} else {
			rec.Class(fmt.Sprintf("%s reader away %d ms", p.Mode, p.ReaderPauseMs))
		}
		rec.NonTrivial(common.HashJSON(p))
		rec.Sample("slow-reader", p)
		return p
	}, c16Run)
	completed = true
}

// TestC15Sock: the last clause of C15 - what a socket hands to the network for a Send is the encoder's output and
// nothing else: every datagram (every run of bytes on TCP) the peer receives is byte for byte the reference encoding
// of a frame that was sent, whose header total length is its length - for 1..8 goroutines sending through one socket.
func TestC15Sock(t *testing.T) {
	rec := common.NewRec("C15", "sock")
	completed := false
	defer func() { rec.Finish(completed) }()
	if rec.Env.Replay != "" {
		common.ReplayOnly(t, rec, c16Run)
		completed = true
		return
	}
	common.Drive(t, rec, func(rt *rapid.T) c16Plan {
		p := c16Plan{Mode: rapid.SampledFrom([]string{"udp-send", "udp-send", "tcp-send", "tcp-send", "router-send"}).Draw(rt, "mode")}
		// frames of very different sizes next to each other: a short frame written over a long one (or the other way
		// round) in a shared buffer shows
		n := rapid.IntRange(2, 40).Draw(rt, "frames")
		p.Frames = genFrames(rt, n, 1024)
		if p.Mode == "tcp-send" && rapid.IntRange(0, 2).Draw(rt, "large-frame") == 0 {
			// frame sizes up to the largest encodable frame: the 16-bit total length ends at 65535 (header included)
			total := rapid.SampledFrom([]int{4096, 8193, 32768, 65000, 65528, 65529, 65530, 65531, 65532, 65533, 65534, 65535}).Draw(rt, "large-total")
			b := make([]byte, total)
			for i := range b {
				b[i] = byte(i*13 + total)
			}
			b[0], b[1], b[2], b[3], b[4], b[5] = 6, 0x10, 0x0f, 0x42, byte(total>>8), byte(total)
			at := rapid.IntRange(0, len(p.Frames)).Draw(rt, "large-at")
			p.Frames = append(p.Frames[:at], append([]string{hex.EncodeToString(b)}, p.Frames[at:]...)...)
			rec.Class(fmt.Sprintf("tcp-send large frame of %d octets", total))
		}
		p.Senders = rapid.IntRange(1, 8).Draw(rt, "senders")
		if p.Mode == "router-send" && p.Senders > 6 {
			p.Senders = 6
		}
		rec.Class(fmt.Sprintf("%s senders=%d", p.Mode, p.Senders))
		if p.Senders >= 2 {
			rec.NonTrivial(common.HashJSON(p))
		}
		rec.Sample(p.Mode, p)
		return p
	}, c16Run)
	completed = true
}
