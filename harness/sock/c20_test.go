package sock

import (
	"context"
	"encoding/hex"
	"fmt"
	"net"
	"os"
	"strings"
	"sync"
	"sync/atomic"
	"syscall"
	"testing"
	"time"

	"github.com/vapourismo/knx-go/knx"
	"github.com/vapourismo/knx-go/knx/knxnet"
	"golang.org/x/net/ipv4"
	"pgregory.net/rapid"
	"verif/harness/common"
)

// c20Step: what a responder sends, AtUs after the call started (describe: after the request arrived).
//
//	kind: match (a description / search response) | other (well-formed frame of another service) |
//	      malformed | foreign (describe only: a description response from another address)
type c20Step struct {
	AtUs int    `json:"at_us"`
	Kind string `json:"kind"`
	Hex  string `json:"hex"`
	From int    `json:"from,omitempty"` // discover: responder index
}

// c20Plan: one describe or discover call.
type c20Plan struct {
	Call       string    `json:"call"` // describe | discover | describe-nolistener
	TimeoutUs  int       `json:"timeout_us"`
	Steps      []c20Step `json:"steps"`
	Responders int       `json:"responders,omitempty"`
	Repeat     int       `json:"repeat,omitempty"` // the same call again (fresh sockets each time): for schedule-dependent outcomes
	// SamePort (discover): responder 0 answers from the discovery port itself (a gateway on this host, bound to the
	// KNXnet/IP port with address reuse), so its responses carry a local source address and the port the call listens on
	SamePort bool `json:"same_port,omitempty"`
}

var c20Seq int32

var snifferMissing atomic.Bool

func fdCount() int {
	d, err := os.ReadDir("/proc/self/fd")
	if err != nil {
		return -1
	}
	return len(d)
}

func waitFds(base int) bool {
	deadline := time.Now().Add(2 * time.Second)
	for time.Now().Before(deadline) {
		if n := fdCount(); n < 0 || n <= base {
			return true
		}
		time.Sleep(time.Millisecond)
	}
	return false
}

// schedOK runs a control sleep of d beside the call; it reports false when the scheduler itself
// overshot badly (then upper time bounds are not judged).
type control struct {
	over atomic.Int64
	done chan struct{}
}

func startControl(d time.Duration) *control {
	c := &control{done: make(chan struct{})}
	go func() {
		t0 := time.Now()
		time.Sleep(d)
		c.over.Store(int64(time.Since(t0) - d))
		close(c.done)
	}()
	return c
}

const c20Slack = time.Second

func c20Run(p c20Plan) (f *common.Fail, inconclusive string) {
	for k := 0; k <= p.Repeat; k++ {
		if f, inconclusive = c20RunOnce(p); f != nil {
			// "a response sent well before the deadline is missing from the result" rests on the receiver goroutine being
			// scheduled in time - under heavy load it is not always, and the one-shot control sleep does not always
			// notice. A logic error reproduces; a scheduling artefact does not: the verdict stands only if the same
			// script fails the same way two more times.
			if f.Kind == "match-missed" {
				for again := 0; again < 2; again++ {
					if f2, _ := c20RunOnce(p); f2 == nil || f2.Kind != "match-missed" {
						return f2, "match-missed once, not reproduced (scheduling)"
					}
				}
			}
			return
		}
	}
	return
}

func c20RunOnce(p c20Plan) (f *common.Fail, inconclusive string) {
	baseRecv := receiverGoroutines()
	baseFd := fdCount()
	timeout := time.Duration(p.TimeoutUs) * time.Microsecond
	margin := timeout / 2
	if margin < 50*time.Millisecond {
		margin = 50 * time.Millisecond
	}
	switch p.Call {
	case "describe", "describe-nolistener":
		f, inconclusive = c20Describe(p, timeout, margin)
	case "discover":
		f, inconclusive = c20Discover(p, timeout, margin)
	case "discover-port0":
		// a call that fails (or finds nothing) after its socket was opened: a discovery address with port 0. Whatever it
		// returns, it returns in time and releases the socket - the checks below
		probeMulticast()
		if !mcastOK {
			return nil, "no multicast"
		}
		k := int(atomic.AddInt32(&confSeq, 1))
		t0 := time.Now()
		func() {
			defer func() {
				if r := recover(); r != nil {
					f = common.Failf("panic", "Discover on a port-0 address panics: %v", r)
				}
			}()
			knx.Discover(fmt.Sprintf("239.254.%d.%d:0", 1+os.Getpid()%250, 1+k%250), timeout)
		}()
		if el := time.Since(t0); f == nil && el > timeout+time.Second {
			f = common.Failf("returned-late", "Discover on a port-0 address returned after %v, the timeout is %v", el, timeout)
		}
	}
	if f != nil {
		return
	}
	if !waitReceiversGone(baseRecv) {
		return common.Failf("receiver-leak", "%s: the socket's receiver goroutine is still alive 2 s after the call returned", p.Call), ""
	}
	if !waitFds(baseFd) {
		return common.Failf("socket-leak", "%s: %d file descriptors open before the call, %d two seconds after it returned", p.Call, baseFd, fdCount()), ""
	}
	return
}

func c20Describe(p c20Plan, timeout, margin time.Duration) (*common.Fail, string) {
	pc, err := net.ListenUDP("udp4", &net.UDPAddr{IP: net.IPv4(127, 0, 0, 1)})
	if err != nil {
		return nil, "no loopback"
	}
	addr := pc.LocalAddr().String()
	foreign, _ := net.ListenUDP("udp4", &net.UDPAddr{IP: net.IPv4(127, 0, 0, 1)})
	defer func() {
		pc.Close()
		if foreign != nil {
			foreign.Close()
		}
	}()
	if p.Call == "describe-nolistener" {
		pc.Close() // nobody listens: the request is answered by an ICMP error, the receiver dies
	}
	type reqSeen struct {
		n    int
		req  *knxnet.DescriptionReq
		from *net.UDPAddr
		at   time.Time
	}
	var mu sync.Mutex
	var seen reqSeen
	sentAt := map[int]time.Time{}
	var wg sync.WaitGroup
	if p.Call == "describe" {
		wg.Add(1)
		go func() {
			defer wg.Done()
			buf := make([]byte, 2048)
			for {
				pc.SetReadDeadline(time.Now().Add(timeout + 3*time.Second))
				n, from, err := pc.ReadFromUDP(buf)
				if err != nil {
					return
				}
				var s knxnet.Service
				knxnet.Unpack(buf[:n], &s)
				req, isReq := s.(*knxnet.DescriptionReq)
				if !isReq {
					// not a request: ephemeral ports are recycled between the parallel shards, so a stray frame of
					// another process's (finished) case can land here - it says nothing about the call under test
					continue
				}
				mu.Lock()
				seen.n++
				first := seen.n == 1
				if first {
					seen.req = req
					seen.from, seen.at = from, time.Now()
				}
				mu.Unlock()
				if !first {
					continue
				}
				// play the script relative to the arrival of the request
				wg.Add(1)
				go func() {
					defer wg.Done()
					t0 := time.Now()
					for i, st := range p.Steps {
						if d := time.Duration(st.AtUs)*time.Microsecond - time.Since(t0); d > 0 {
							time.Sleep(d)
						}
						mu.Lock()
						sentAt[i] = time.Now()
						mu.Unlock()
						if st.Kind == "foreign" && foreign != nil {
							foreign.WriteToUDP(unhex(st.Hex), from)
						} else {
							pc.WriteToUDP(unhex(st.Hex), from)
						}
					}
				}()
			}
		}()
	}
	ctl := startControl(timeout)
	t0 := time.Now()
	res, err := knx.DescribeTunnel(addr, timeout)
	elapsed := time.Since(t0)
	<-ctl.done
	time.Sleep(20 * time.Millisecond) // late duplicates of the request would show up now
	pc.Close()
	wg.Wait()
	if err != nil {
		return common.Failf("describe-error", "DescribeTunnel returned the error %v", err), ""
	}
	mu.Lock()
	defer mu.Unlock()
	if p.Call == "describe" {
		if seen.n != 1 {
			return common.Failf("request-count", "DescribeTunnel sent %d request datagrams, exactly one is expected", seen.n), ""
		}
		if seen.req == nil {
			return common.Failf("request-kind", "the datagram the server received is not a description request"), ""
		}
		want := knxnet.HostInfo{Protocol: knxnet.UDP4, Port: knxnet.Port(seen.from.Port)}
		copy(want.Address[:], seen.from.IP.To4())
		if seen.req.HostInfo != want {
			return common.Failf("request-hpai", "the description request advertises %+v as reply address; the datagram came from %v", seen.req.HostInfo, seen.from), ""
		}
	}
	// which response should have been returned?
	firstMatch := -1
	for i, st := range p.Steps {
		if st.Kind == "match" {
			if _, sent := sentAt[i]; sent || p.Call == "describe" {
				firstMatch = i
				break
			}
		}
	}
	stalled := time.Duration(ctl.over.Load()) > c20Slack/4
	if res == nil {
		if elapsed < timeout {
			return common.Failf("returned-early", "DescribeTunnel returned no result after %v, before its timeout %v had elapsed", elapsed, timeout), ""
		}
		if firstMatch >= 0 {
			if at, sent := sentAt[firstMatch]; sent && at.Sub(t0) < timeout-margin {
				if time.Duration(ctl.over.Load()) > margin/4 {
					return nil, "scheduler stall during the call (control sleep overshot)"
				}
				return common.Failf("match-missed", "a description response was sent %v after the call started (timeout %v, margin %v) but DescribeTunnel returned no result", at.Sub(t0), timeout, margin), ""
			}
		}
	} else {
		if firstMatch < 0 {
			return common.Failf("result-invented", "DescribeTunnel returned %s although the queried server sent no description response", common.Show(res)), ""
		}
		var wantSvc knxnet.Service
		knxnet.Unpack(unhex(p.Steps[firstMatch].Hex), &wantSvc)
		if !common.SameValue(wantSvc, res) {
			return common.Failf("result-wrong", "DescribeTunnel returned %s; the first description response the queried server sent decodes to %s", common.Show(res), common.Show(wantSvc)), ""
		}
		if at, sent := sentAt[firstMatch]; sent && at.Sub(t0) > timeout+c20Slack {
			if stalled {
				return nil, "scheduler stall during the call (control sleep overshot)"
			}
			return common.Failf("result-late", "DescribeTunnel returned a response that was sent %v after the call started; its timeout is %v", at.Sub(t0), timeout), ""
		}
	}
	if elapsed > timeout+c20Slack {
		if stalled {
			return nil, "scheduler stall during the call (control sleep overshot)"
		}
		return common.Failf("returned-late", "DescribeTunnel returned after %v; its timeout is %v (slack %v, a control sleep beside it overshot by only %v)", elapsed, timeout, c20Slack, time.Duration(ctl.over.Load())), ""
	}
	return nil, ""
}

// sniffer counts the search requests that leave this host for group:port, seen through an
// AF_PACKET/ETH_P_ALL socket (needs CAP_NET_RAW; when it cannot be opened the sub-oracle is skipped).
type sniffer struct {
	fd      int
	count   atomic.Int32
	markers atomic.Int32
	done    chan struct{}
	grp     *net.UDPAddr
}

func htons(v uint16) uint16 { return v<<8 | v>>8 }

func startSniffer(grp *net.UDPAddr) *sniffer {
	fd, err := syscall.Socket(syscall.AF_PACKET, syscall.SOCK_DGRAM, int(htons(syscall.ETH_P_ALL)))
	if err != nil {
		return nil
	}
	tv := syscall.Timeval{Sec: 0, Usec: 20000}
	syscall.SetsockoptTimeval(fd, syscall.SOL_SOCKET, syscall.SO_RCVTIMEO, &tv)
	syscall.SetsockoptInt(fd, syscall.SOL_SOCKET, syscall.SO_RCVBUF, 8<<20)
	sn := &sniffer{fd: fd, done: make(chan struct{}), grp: grp}
	stop := make(chan struct{})
	sn.done = stop
	go func() {
		buf := make([]byte, 65536)
		for {
			select {
			case <-stop:
				syscall.Close(fd)
				return
			default:
			}
			n, from, err := syscall.Recvfrom(fd, buf, 0)
			if err != nil || n < 28 {
				continue
			}
			if ll, ok := from.(*syscall.SockaddrLinklayer); ok && ll.Pkttype != 4 { // PACKET_OUTGOING only
				continue
			}
			ip := buf[:n]
			if ip[0]>>4 != 4 || ip[9] != 17 {
				continue
			}
			ihl := int(ip[0]&15) * 4
			if n < ihl+8 || !net.IP(ip[16:20]).Equal(grp.IP.To4()) {
				continue
			}
			udp := ip[ihl:]
			// Discover's socket is bound to the group's port, so its datagrams carry that port as source as well;
			// the responders of this harness (which may send search requests as noise) use ephemeral ports
			if int(udp[2])<<8|int(udp[3]) != grp.Port || int(udp[0])<<8|int(udp[1]) != grp.Port {
				continue
			}
			var svc knxnet.Service
			if _, err := knxnet.Unpack(udp[8:n-ihl], &svc); err == nil {
				if r, ok := svc.(*knxnet.SearchReq); ok {
					if r.HostInfo.Port == 1 {
						sn.markers.Add(1) // the harness's own marker (see stop)
					} else {
						sn.count.Add(1)
					}
				}
			}
		}
	}()
	return sn
}

// stop returns the number of search requests seen, or -1 when the sniffer cannot be trusted: after the
// call under test has returned (its port is free again) the harness sends a marker request from the same
// port; a sniffer that does not see the marker may have missed the real request too.
func (sn *sniffer) stop() int {
	if c, err := net.ListenUDP("udp4", sn.grp); err == nil {
		c.WriteToUDP(knxnet.AllocAndPack(&knxnet.SearchReq{HostInfo: knxnet.HostInfo{Protocol: knxnet.UDP4, Port: 1}}), sn.grp)
		c.Close()
	}
	time.Sleep(30 * time.Millisecond)
	close(sn.done)
	if sn.markers.Load() == 0 {
		return -1
	}
	return int(sn.count.Load())
}

// mcastProbe is done once: can we join a group and reach it from a local sender?
var (
	mcastOnce sync.Once
	mcastOK   bool
	mcastWhy  string
)

func probeMulticast() {
	mcastOnce.Do(func() {
		grp := &net.UDPAddr{IP: net.IPv4(239, 255, 77, 77), Port: 47001 + os.Getpid()%1000}
		c, err := net.ListenUDP("udp4", grp)
		if err != nil {
			mcastWhy = "bind to a multicast address: " + err.Error()
			return
		}
		defer c.Close()
		pc := ipv4.NewPacketConn(c)
		if err := pc.JoinGroup(nil, grp); err != nil {
			mcastWhy = "join group: " + err.Error()
			return
		}
		s, err := net.DialUDP("udp4", nil, grp)
		if err != nil {
			mcastWhy = "dial group: " + err.Error()
			return
		}
		defer s.Close()
		ipv4.NewPacketConn(s).SetMulticastLoopback(true)
		s.Write([]byte("probe"))
		c.SetReadDeadline(time.Now().Add(500 * time.Millisecond))
		buf := make([]byte, 16)
		if _, _, err := c.ReadFromUDP(buf); err != nil {
			mcastWhy = "a local sender does not reach a local member of the group: " + err.Error()
			return
		}
		mcastOK = true
	})
}

func c20Discover(p c20Plan, timeout, margin time.Duration) (*common.Fail, string) {
	probeMulticast()
	if !mcastOK {
		return nil, "multicast unavailable: " + mcastWhy
	}
	k := int(atomic.AddInt32(&c20Seq, 1))
	shard := os.Getpid()
	grp := mcastAddr(255, shard, k)
	n := p.Responders
	if n < 1 {
		n = 1
	}
	var peers []*net.UDPConn
	var samePort *net.UDPConn
	if p.SamePort {
		lc := net.ListenConfig{Control: func(network, address string, c syscall.RawConn) error {
			var serr error
			c.Control(func(fd uintptr) { serr = syscall.SetsockoptInt(int(fd), syscall.SOL_SOCKET, syscall.SO_REUSEADDR, 1) })
			return serr
		}}
		if pcn, err := lc.ListenPacket(context.Background(), "udp4", fmt.Sprintf("0.0.0.0:%d", grp.Port)); err == nil {
			samePort = pcn.(*net.UDPConn)
			ipv4.NewPacketConn(samePort).SetMulticastLoopback(true)
			defer samePort.Close()
		}
	}
	for i := 0; i < n; i++ {
		s, err := net.DialUDP("udp4", nil, grp)
		if err != nil {
			return nil, "cannot create responder socket"
		}
		ipv4.NewPacketConn(s).SetMulticastLoopback(true)
		peers = append(peers, s)
	}
	defer func() {
		for _, s := range peers {
			s.Close()
		}
	}()
	sentAt := make([]time.Time, len(p.Steps))
	var wg sync.WaitGroup
	sn := startSniffer(grp)
	ctl := startControl(timeout)
	t0 := time.Now()
	wg.Add(1)
	go func() {
		defer wg.Done()
		for i, st := range p.Steps {
			if d := time.Duration(st.AtUs)*time.Microsecond - time.Since(t0); d > 0 {
				time.Sleep(d)
			}
			sentAt[i] = time.Now()
			b := unhex(st.Hex)
			// responder 0 may sit on the discovery port itself (anything but search requests: the sniffer attributes
			// those to the call by their source port)
			if samePort != nil && (st.From%n == 0 || st.From%2 == 1) && !(len(b) >= 4 && b[2] == 0x02 && b[3] == 0x01) {
				samePort.WriteToUDP(b, grp)
				continue
			}
			peers[st.From%n].Write(b)
		}
	}()
	res, err := knx.Discover(grp.String(), timeout)
	elapsed := time.Since(t0)
	<-ctl.done
	wg.Wait()
	nReq := -1
	if sn != nil {
		nReq = sn.stop()
	}
	if err != nil {
		return nil, "Discover could not open its socket: " + err.Error()
	}
	if nReq >= 0 && nReq != 1 {
		return common.Failf("request-count", "Discover sent %d search requests to %v (seen leaving the host through a packet socket); exactly one is expected", nReq, grp), ""
	}
	if nReq < 0 {
		snifferMissing.Store(true)
	}
	if elapsed < timeout {
		return common.Failf("returned-early", "Discover returned after %v, before its timeout %v had elapsed", elapsed, timeout), ""
	}
	// results must be a duplicate-free subsequence, in send order, of the search responses sent
	type m struct {
		val knxnet.Service
		at  time.Duration
	}
	var matches []m
	for i, st := range p.Steps {
		if st.Kind == "match" {
			var s knxnet.Service
			knxnet.Unpack(unhex(st.Hex), &s)
			matches = append(matches, m{s, sentAt[i].Sub(t0)})
		}
	}
	j := 0
	used := make([]bool, len(matches))
	for ri, r := range res {
		found := false
		for ; j < len(matches); j++ {
			if common.SameValue(matches[j].val, r) {
				used[j] = true
				found = true
				j++
				break
			}
		}
		if !found {
			return common.Failf("result-not-sent", "Discover result #%d (%s) is not one of the search responses sent, or appears out of order / twice (sent %d responses, got %d results)", ri, common.Show(r), len(matches), len(res)), ""
		}
	}
	for i, mt := range matches {
		// responses sent before Discover had a chance to open its socket and join the group are a don't-care
		if !used[i] && mt.at < timeout-margin && mt.at > 30*time.Millisecond {
			if time.Duration(ctl.over.Load()) > margin/4 {
				return nil, "scheduler stall during the call (control sleep overshot)"
			}
			return common.Failf("match-missed", "search response #%d was sent %v after the call started (timeout %v, margin %v) but is not among the %d results", i, mt.at, timeout, margin, len(res)), ""
		}
		if used[i] && mt.at > timeout+c20Slack && time.Duration(ctl.over.Load()) <= c20Slack/4 {
			return common.Failf("result-late", "search response #%d was sent %v after the call started, beyond the timeout %v, yet it is among the results", i, mt.at, timeout), ""
		}
	}
	if elapsed > timeout+c20Slack {
		if time.Duration(ctl.over.Load()) > c20Slack/4 {
			return nil, "scheduler stall during the call (control sleep overshot)"
		}
		return common.Failf("returned-late", "Discover returned after %v; its timeout is %v", elapsed, timeout), ""
	}
	return nil, ""
}

// ---------------------------------------------------------------------------------- generator

func genMatch(rt *rapid.T, call string) string {
	kind := "descrres"
	if call == "discover" {
		kind = "searchres"
	}
	for {
		f := common.GenFrame(rt, kind, "ldata-ind-app")
		if kind == "descrres" {
			f.Extra = common.GenValidDIBs(rt)
			if rapid.IntRange(0, 3).Draw(rt, "large-blocks") == 0 {
				// a description response whose blocks sum to 256 octets and more (manufacturer data, address lists): the
				// structure lengths are one octet each, their sum is not
				for i := 0; i < rapid.IntRange(1, 3).Draw(rt, "n-large"); i++ {
					body := make([]byte, rapid.SampledFrom([]int{126, 190, 192, 200, 250, 253}).Draw(rt, "large-len"))
					for j := range body {
						body[j] = byte(j*11 + i)
					}
					f.Extra = append(f.Extra, common.RDIB{Len: uint8(2 + len(body)), Type: rapid.SampledFrom([]uint8{0xfe, 5, 6}).Draw(rt, "large-type"), Body: body})
				}
				// by construction a description response: the same frame without the large blocks is one
				f0 := *f
				f0.Extra = nil
				b0, _ := common.RefEncode(&f0)
				b, _ := common.RefEncode(f)
				if _, err := decodeWithin(b0, 3*time.Second); err == nil && len(b) <= 1024 {
					return hex.EncodeToString(b)
				}
				continue
			}
		}
		if kind == "searchres" && rapid.IntRange(0, 2).Draw(rt, "extended") == 0 {
			// a search response with further well-formed description blocks behind the mandatory two. Whether it *is* a
			// search response is not asked of the library's decoder (the oracle must not move with the code under
			// test): it is one if the same response without the extra blocks is
			b0, _ := common.RefEncode(f)
			f.Extra = common.GenValidDIBs(rt)
			b, _ := common.RefEncode(f)
			if _, err := decodeWithin(b0, 3*time.Second); err == nil && len(b) <= 1024 {
				return hex.EncodeToString(b)
			}
			continue
		}
		if kind == "descrres" && rapid.IntRange(0, 4).Draw(rt, "partial") == 0 {
			// a description response that lacks the device-information block, the service-families block or both (only
			// further blocks, or nothing at all behind the header): service 0x0204 and a sequence of well-formed blocks
			// make it a description response - by construction, it is the complete one with blocks cut out
			f.Extra = common.GenValidDIBs(rt)
			b, _ := common.RefEncode(f)
			if len(b) < 6+54+2 || b[6] != 54 {
				continue
			}
			famLen := int(b[60])
			dropDev, dropFam := rapid.Bool().Draw(rt, "drop-dev"), rapid.Bool().Draw(rt, "drop-fam")
			if !dropDev && !dropFam {
				dropDev = true
			}
			out := append([]byte{}, b[:6]...)
			if !dropDev {
				out = append(out, b[6:60]...)
			}
			if !dropFam {
				out = append(out, b[60:60+famLen]...)
			}
			out = append(out, b[60+famLen:]...)
			out[4], out[5] = byte(len(out)>>8), byte(len(out))
			if _, err := decodeWithin(b, 3*time.Second); err == nil {
				return hex.EncodeToString(out)
			}
			continue
		}
		if f.Dev != nil && rapid.IntRange(0, 3).Draw(rt, "full-name") == 0 {
			// a device name that fills all 30 octets of its field (no terminator fits): the response is one if the
			// same response with the name cut to 29 characters is
			b0, _ := common.RefEncode(f)
			name := append([]byte{}, f.Dev.Name...)
			for len(name) < 30 {
				name = append(name, byte(rapid.IntRange(0x21, 0xff).Draw(rt, "name-octet")))
			}
			f.Dev.Name = name
			b, _ := common.RefEncode(f)
			if _, err := decodeWithin(b0, 3*time.Second); err == nil && len(b) <= 1024 {
				return hex.EncodeToString(b)
			}
			continue
		}
		b, _ := common.RefEncode(f)
		// a response the decoder spins on is kept: the call has to cope with it (and is watched)
		if _, err := decodeWithin(b, 3*time.Second); (err == nil || strings.Contains(err.Error(), "did not return")) && len(b) <= 1024 {
			return hex.EncodeToString(b)
		}
	}
}

func genPlanC20(rt *rapid.T) c20Plan {
	p := c20Plan{Call: rapid.SampledFrom([]string{"describe", "describe", "describe", "describe", "discover", "discover", "discover", "discover", "describe-nolistener", "describe-nolistener", "discover-port0"}).Draw(rt, "call")}
	p.TimeoutUs = rapid.SampledFrom([]int{1000, 5000, 20000, 60000, 150000, 300000, 500000}).Draw(rt, "timeout")
	if p.Call == "describe-nolistener" || p.Call == "discover-port0" {
		return p
	}
	other := "searchres"
	if p.Call == "discover" {
		other = "descrres"
		p.Responders = rapid.IntRange(1, 20).Draw(rt, "responders")
		p.SamePort = rapid.IntRange(0, 2).Draw(rt, "same-port-responder") == 0
	}
	if p.TimeoutUs <= 150000 && rapid.IntRange(0, 7).Draw(rt, "chatter") == 0 {
		// a peer that keeps talking: frames of another service every timeout/2 for well over timeout + slack,
		// optionally a matching response in the middle of it (far beyond the deadline)
		k := rapid.SampledFrom([]string{other, "connstateres", "tunnelreq"}).Draw(rt, "chatter-kind")
		gap := p.TimeoutUs / 2
		if gap < 20000 {
			gap = 20000
		}
		late := rapid.Bool().Draw(rt, "chatter-late-match")
		for t := 0; t < p.TimeoutUs+1_600_000; t += gap {
			b, _ := common.RefEncode(common.GenFrame(rt, k, "ldata-ind-app"))
			if len(b) > 1024 {
				continue
			}
			p.Steps = append(p.Steps, c20Step{AtUs: t, Kind: "other", Hex: hex.EncodeToString(b), From: 0})
			if late && t > p.TimeoutUs+1_200_000 {
				p.Steps = append(p.Steps, c20Step{AtUs: t + 1, Kind: "match", Hex: genMatch(rt, p.Call), From: 0})
				late = false
			}
		}
		return p
	}
	if p.Call == "describe" && rapid.IntRange(0, 3).Draw(rt, "burst-behind-match") == 0 {
		// the server answers and repeats long answers back to back: frames are still arriving (being read and
		// decoded by the receiver) at the very moment the call takes its result and releases the socket
		at := rapid.IntRange(0, p.TimeoutUs/2).Draw(rt, "burst-at")
		for i := 0; i < rapid.IntRange(3, 8).Draw(rt, "burst-len"); i++ {
			f := common.GenFrame(rt, "descrres", "ldata-ind-app")
			for k := 0; k < 170; k++ {
				f.Extra = append(f.Extra, common.RDIB{Len: 4, Type: 0xfe, Body: []byte{byte(k), byte(i)}})
			}
			b, _ := common.RefEncode(f)
			if _, err := decodeWithin(b, 3*time.Second); err != nil || len(b) > 1024 {
				continue
			}
			p.Steps = append(p.Steps, c20Step{AtUs: at, Kind: "match", Hex: hex.EncodeToString(b)})
		}
		p.Repeat = 7
		if p.TimeoutUs > 60000 {
			p.TimeoutUs = 60000
		}
		return p
	}
	n := rapid.IntRange(0, 12).Draw(rt, "steps")
	t := 0
	for i := 0; i < n; i++ {
		switch rapid.IntRange(0, 3).Draw(rt, "when") {
		case 0:
			t += rapid.IntRange(0, 300).Draw(rt, "gap-small")
		case 1:
			t += rapid.IntRange(0, p.TimeoutUs/4+1).Draw(rt, "gap")
		case 2:
			t = rapid.IntRange(t, t+p.TimeoutUs).Draw(rt, "jump")
		default:
			t += 50
		}
		st := c20Step{AtUs: t, From: rapid.IntRange(0, 19).Draw(rt, "from")}
		switch rapid.IntRange(0, 9).Draw(rt, "kind") {
		case 0, 1, 2, 3:
			st.Kind, st.Hex = "match", genMatch(rt, p.Call)
		case 4, 5:
			st.Kind = "other"
			k := rapid.SampledFrom([]string{other, "connres-ok", "tunnelreq", "routingind", "searchreq", "descrreq", "connstateres", "unknown"}).Draw(rt, "other-kind")
			b, _ := common.RefEncode(common.GenFrame(rt, k, rapid.SampledFrom(common.CemiKinds).Draw(rt, "cemi")))
			if len(b) > 1024 {
				b = b[:1024]
			}
			if rapid.IntRange(0, 2).Draw(rt, "response-body-under-another-service") == 0 {
				// the body of a matching response under a neighbouring service identifier (the extended variants 0x020b /
				// 0x020c of the second protocol version, unassigned ones): another service, by construction
				b = unhex(genMatch(rt, p.Call))
				id := rapid.SampledFrom([]int{0x020b, 0x020c, 0x020d, 0x0200, 0x0206, 0x0207, 0x0208, 0x0302, 0x0a02}).Draw(rt, "neighbour-service")
				if len(b) >= 6 {
					b[2], b[3] = byte(id>>8), byte(id)
				}
			}
			st.Hex = hex.EncodeToString(b)
		case 6, 7:
			st.Kind = "malformed"
			f := common.GenFrame(rt, map[bool]string{true: "searchres", false: "descrres"}[p.Call == "discover"], "ldata-ind-app")
			b, lens := common.RefEncode(f)
			st.Hex = hex.EncodeToString(mutateFrame(rt, b, lens, false))
			if rapid.IntRange(0, 3).Draw(rt, "runt") == 0 {
				// a datagram shorter than a header, down to the empty one
				if n := 2 * rapid.SampledFrom([]int{0, 0, 1, 5}).Draw(rt, "runt-len"); n < len(st.Hex) {
					st.Hex = st.Hex[:n]
				}
			}
			// (the generator classifies the datagram by decoding it; a decoder that spins on it must not stall the
			// generator - the call under test will show the problem, under the watchdog)
			if s, err := decodeWithin(unhex(st.Hex), 3*time.Second); err == nil {
				if (p.Call == "discover" && s.Service() == knxnet.SearchResService) || (p.Call != "discover" && s.Service() == knxnet.DescrResService) {
					st.Kind = "match" // the mutation left a decodable response: it counts as a response
				} else {
					st.Kind = "other"
				}
			}
		default:
			if p.Call == "describe" {
				st.Kind, st.Hex = "foreign", genMatch(rt, p.Call)
			} else {
				st.Kind, st.Hex = "match", genMatch(rt, p.Call)
			}
		}
		p.Steps = append(p.Steps, st)
	}
	if p.Call == "discover" && p.SamePort {
		// the gateway on this host answers from the discovery port well inside the call (a response in the first 30 ms
		// or close to the deadline is not judged)
		if p.TimeoutUs < 150000 {
			p.TimeoutUs = 150000
		}
		at := rapid.IntRange(40000, 70000).Draw(rt, "same-port-at")
		st := c20Step{AtUs: at, Kind: "match", Hex: genMatch(rt, p.Call), From: 0}
		k := 0
		for k < len(p.Steps) && p.Steps[k].AtUs <= at {
			k++
		}
		p.Steps = append(p.Steps[:k], append([]c20Step{st}, p.Steps[k:]...)...)
	}
	return p
}

// decodeWithin decodes in a goroutine and gives up after d (the goroutine is left behind if the decoder spins).
func decodeWithin(b []byte, d time.Duration) (knxnet.Service, error) {
	type out struct {
		s   knxnet.Service
		err error
	}
	ch := make(chan out, 1)
	go func() {
		defer func() {
			if r := recover(); r != nil {
				ch <- out{nil, fmt.Errorf("panic: %v", r)}
			}
		}()
		var s knxnet.Service
		_, err := knxnet.Unpack(b, &s)
		ch <- out{s, err}
	}()
	select {
	case o := <-ch:
		return o.s, o.err
	case <-time.After(d):
		return nil, fmt.Errorf("the decoder did not return within %v", d)
	}
}

func TestC20(t *testing.T) {
	rec := common.NewRec("C20", "sock")
	completed := false
	defer func() { rec.Finish(completed) }()
	wd := common.NewWatchdog(rec, 60*time.Second)
	run := func(p c20Plan) *common.Fail {
		rec.InFlight(p)
		wd.Enter("the describe/discover call (timeout "+(time.Duration(p.TimeoutUs)*time.Microsecond).String()+")", p)
		f, inc := c20Run(p)
		wd.Leave()
		rec.Landed()
		if inc != "" {
			rec.Inconclusive(inc)
			if p.Call == "discover" && !mcastOK {
				rec.Skip("discover", mcastWhy)
			}
		}
		if snifferMissing.Load() {
			rec.Skip("discover-request-count", "no packet socket (CAP_NET_RAW): the number of search requests is not observed")
		}
		return f
	}
	// warm-up: the runtime's network poller and the multicast probe open descriptors once
	if w, err := net.ListenUDP("udp4", &net.UDPAddr{IP: net.IPv4(127, 0, 0, 1)}); err == nil {
		w.Close()
	}
	probeMulticast()
	if rec.Env.Replay != "" {
		common.ReplayOnly(t, rec, run)
		completed = true
		return
	}
	common.Drive(t, rec, func(rt *rapid.T) c20Plan {
		p := genPlanC20(rt)
		nm, odd := 0, false
		firstMatch := -1
		for i, s := range p.Steps {
			if s.Kind == "match" {
				nm++
				if firstMatch < 0 {
					firstMatch = i
				}
			} else {
				if firstMatch < 0 {
					odd = true
				}
			}
		}
		late := firstMatch >= 0 && p.Steps[firstMatch].AtUs > p.TimeoutUs/2
		rec.Class(fmt.Sprintf("%s matches=%s", p.Call, map[bool]string{true: ">0", false: "0"}[nm > 0]))
		if (odd && nm > 0) || late || nm == 0 {
			rec.NonTrivial(common.HashJSON(p))
		}
		rec.Sample(p.Call, p)
		return p
	}, run)
	completed = true
}
