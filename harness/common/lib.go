package common

import (
	"encoding/json"
	"fmt"
	"github.com/vapourismo/knx-go/knx/util"
	"net"
	"os"
	"reflect"
	"sync/atomic"
	"time"

	"github.com/vapourismo/knx-go/knx/cemi"
	"github.com/vapourismo/knx-go/knx/knxnet"
)

// Latin1ToString turns Latin-1 bytes into the Go (UTF-8) string with the same code points.
func Latin1ToString(b []byte) string {
	r := make([]rune, len(b))
	for i, c := range b {
		r[i] = rune(c)
	}
	return string(r)
}

func cp(b []byte) []byte {
	if len(b) == 0 {
		return nil
	}
	return append([]byte{}, b...)
}

func toHostInfo(h RHPAI) knxnet.HostInfo {
	return knxnet.HostInfo{Protocol: knxnet.Protocol(h.Proto), Address: knxnet.Address(h.IP), Port: knxnet.Port(h.Port)}
}

// ToLibTPDU builds the library's transport unit.
func ToLibTPDU(t RTPDU) cemi.TransportUnit {
	if t.Control {
		return &cemi.ControlData{Numbered: t.Numbered, SeqNumber: t.Seq, Command: t.APCI}
	}
	return &cemi.AppData{Numbered: t.Numbered, SeqNumber: t.Seq, Command: cemi.APCI(t.APCI), Data: append([]byte{}, t.Data...)}
}

// ToLibCemi builds the library's cEMI message value for c.
func ToLibCemi(c *RCemi) cemi.Message {
	if c.LData != nil {
		l := cemi.LData{
			Info: cemi.Info(cp(c.LData.Info)), Control1: cemi.ControlField1(c.LData.C1), Control2: cemi.ControlField2(c.LData.C2),
			Source: cemi.IndividualAddr(c.LData.Src), Destination: c.LData.Dst, Data: ToLibTPDU(c.LData.TPDU),
		}
		switch c.Code {
		case CodeLDataReq:
			return &cemi.LDataReq{LData: l}
		case CodeLDataCon:
			return &cemi.LDataCon{LData: l}
		case CodeLDataInd:
			return &cemi.LDataInd{LData: l}
		}
	}
	switch c.Code {
	case CodeLRawReq:
		return &cemi.LRawReq{LRaw: cemi.LRaw(cp(c.Raw))}
	case CodeLRawCon:
		return &cemi.LRawCon{LRaw: cemi.LRaw(cp(c.Raw))}
	case CodeLRawInd:
		return &cemi.LRawInd{LRaw: cemi.LRaw(cp(c.Raw))}
	case CodeLBusmonInd:
		v := cemi.LBusmonInd(cp(c.Raw))
		return &v
	}
	return &cemi.UnsupportedMessage{Code: cemi.MessageCode(c.Code), Data: cp(c.Raw)}
}

func toDevInfo(d *RDevInfo) knxnet.DeviceInformationBlock {
	return knxnet.DeviceInformationBlock{
		Type: knxnet.DescriptionType(d.Type), Medium: knxnet.KNXMedium(d.Medium), Status: knxnet.DeviceStatus(d.Status),
		Source: cemi.IndividualAddr(d.Source), ProjectIdentifier: knxnet.ProjectInstallationIdentifier(d.Project),
		SerialNumber: knxnet.DeviceSerialNumber(d.Serial), RoutingMulticastAddress: knxnet.Address(d.Mcast),
		HardwareAddr: net.HardwareAddr(append([]byte{}, d.MAC[:]...)), FriendlyName: Latin1ToString(d.Name),
	}
}

func toFamilies(f *RFamilies) knxnet.SupportedServicesDIB {
	s := knxnet.SupportedServicesDIB{Type: knxnet.DescriptionType(f.Type)}
	for _, x := range f.Families {
		s.Families = append(s.Families, knxnet.ServiceFamily{Type: knxnet.ServiceFamilyType(x[0]), Version: x[1]})
	}
	return s
}

// ToLib builds the library value that corresponds to f. Unknown services cannot be constructed
// from outside the package (unexported id) and yield nil.
func ToLib(f *RFrame) knxnet.Service {
	switch f.Service {
	case SvcSearchReq:
		return &knxnet.SearchReq{HostInfo: toHostInfo(f.Control)}
	case SvcDescrReq:
		return &knxnet.DescriptionReq{HostInfo: toHostInfo(f.Control)}
	case SvcSearchRes:
		return &knxnet.SearchRes{Control: toHostInfo(f.Control), DescriptionB: knxnet.DescriptionBlock{DeviceHardware: toDevInfo(f.Dev), SupportedServices: toFamilies(f.Fam)}}
	case SvcDescrRes:
		r := &knxnet.DescriptionRes{DeviceHardware: toDevInfo(f.Dev), SupportedServices: toFamilies(f.Fam)}
		// the blocks the decoder keeps without interpreting them: the four kept types, with data, well-formed
		for _, x := range f.Extra {
			if KeptDIB(x) {
				r.UnknownBlocks = append(r.UnknownBlocks, knxnet.UnknownDescriptionBlock{Type: knxnet.DescriptionType(x.Type), Data: append([]byte{}, x.Body...)})
			}
		}
		return r
	case SvcConnReq:
		return &knxnet.ConnReq{Control: toHostInfo(f.Control), Tunnel: toHostInfo(f.Tunnel), Layer: knxnet.TunnelLayer(f.Layer)}
	case SvcConnRes:
		r := &knxnet.ConnRes{Channel: f.Channel, Status: knxnet.ErrCode(f.Status)}
		if f.Status == 0 {
			r.Control = toHostInfo(f.Control)
		}
		return r
	case SvcConnStateReq:
		return &knxnet.ConnStateReq{Channel: f.Channel, Status: knxnet.ErrCode(f.Status), Control: toHostInfo(f.Control)}
	case SvcConnStateRes:
		return &knxnet.ConnStateRes{Channel: f.Channel, Status: knxnet.ErrCode(f.Status)}
	case SvcDiscReq:
		return &knxnet.DiscReq{Channel: f.Channel, Status: f.Status, Control: toHostInfo(f.Control)}
	case SvcDiscRes:
		return &knxnet.DiscRes{Channel: f.Channel, Status: f.Status}
	case SvcTunnelReq:
		return &knxnet.TunnelReq{Channel: f.Channel, SeqNumber: f.Seq, Payload: ToLibCemi(f.Cemi)}
	case SvcTunnelRes:
		return &knxnet.TunnelRes{Channel: f.Channel, SeqNumber: f.Seq, Status: knxnet.ErrCode(f.Status)}
	case SvcRoutingInd:
		return &knxnet.RoutingInd{Payload: ToLibCemi(f.Cemi)}
	case SvcRoutingLost:
		return &knxnet.RoutingLost{Status: knxnet.DeviceState(f.DevState), Count: f.Count}
	case SvcRoutingBusy:
		return &knxnet.RoutingBusy{Status: knxnet.DeviceState(f.DevState), WaitTime: time.Duration(f.Wait) * time.Millisecond, Control: f.BusyCtl}
	}
	return nil
}

// Canon turns any value into a tree of maps/slices/scalars in which nil and empty slices are
// identified and pointers/interfaces are followed; the dynamic type name is kept so that
// values of different message types never compare equal.
func Canon(v any) any { return canon(reflect.ValueOf(v)) }

func canon(v reflect.Value) any {
	if !v.IsValid() {
		return nil
	}
	switch v.Kind() {
	case reflect.Interface:
		if v.IsNil() {
			return nil
		}
		return canon(v.Elem())
	case reflect.Ptr:
		if v.IsNil() {
			return nil
		}
		return canon(v.Elem())
	case reflect.Struct:
		m := map[string]any{"@type": v.Type().String()}
		for i := 0; i < v.NumField(); i++ {
			m[v.Type().Field(i).Name] = canon(v.Field(i))
		}
		return m
	case reflect.Slice:
		if v.Len() == 0 {
			return nil
		}
		if v.Type().Elem().Kind() == reflect.Uint8 {
			b := make([]byte, v.Len())
			for i := range b {
				b[i] = byte(v.Index(i).Uint())
			}
			return fmt.Sprintf("%s:%x", v.Type().String(), b)
		}
		out := make([]any, v.Len())
		for i := range out {
			out[i] = canon(v.Index(i))
		}
		return out
	case reflect.Array:
		out := make([]any, v.Len())
		for i := range out {
			out[i] = canon(v.Index(i))
		}
		return out
	case reflect.Bool:
		return v.Bool()
	case reflect.Int, reflect.Int8, reflect.Int16, reflect.Int32, reflect.Int64:
		return v.Int()
	case reflect.Uint, reflect.Uint8, reflect.Uint16, reflect.Uint32, reflect.Uint64:
		return v.Uint()
	case reflect.String:
		return v.String()
	case reflect.Float32, reflect.Float64:
		return v.Float()
	}
	return fmt.Sprintf("%v", v)
}

// SameValue compares two library values field by field (nil and empty slices identified).
func SameValue(a, b any) bool {
	return reflect.TypeOf(a) == reflect.TypeOf(b) && reflect.DeepEqual(Canon(a), Canon(b))
}

// Show renders a value for messages.
func Show(v any) string { return fmt.Sprintf("%v", Canon(v)) }

// Scribble overwrites everything reachable from v through pointers, interfaces, structs and slices with other values
// (integers complemented, booleans negated, bytes of slices complemented, strings replaced). A decoded value
// belongs to the caller: scribbling over it must not change what the decoder yields next time.
func Scribble(v any) { scribble(reflect.ValueOf(v), 0) }

func scribble(v reflect.Value, depth int) {
	if !v.IsValid() || depth > 12 {
		return
	}
	switch v.Kind() {
	case reflect.Ptr:
		if !v.IsNil() {
			scribble(v.Elem(), depth+1)
		}
	case reflect.Interface:
		if !v.IsNil() {
			scribble(v.Elem(), depth+1) // reaches the pointee when the interface holds a pointer
		}
	case reflect.Struct:
		for i := 0; i < v.NumField(); i++ {
			scribble(v.Field(i), depth+1)
		}
	case reflect.Slice, reflect.Array:
		for i := 0; i < v.Len(); i++ {
			scribble(v.Index(i), depth+1)
		}
	case reflect.Bool:
		if v.CanSet() {
			v.SetBool(!v.Bool())
		}
	case reflect.Int, reflect.Int8, reflect.Int16, reflect.Int32, reflect.Int64:
		if v.CanSet() {
			v.SetInt(^v.Int())
		}
	case reflect.Uint, reflect.Uint8, reflect.Uint16, reflect.Uint32, reflect.Uint64:
		if v.CanSet() {
			v.SetUint(^v.Uint() & (1<<uint(v.Type().Bits()) - 1))
		}
	case reflect.String:
		if v.CanSet() {
			v.SetString("scribbled")
		}
	}
}

// KeptDIB: a further description block that the decoder of a description response keeps (type 3, 4, 5 or 0xFE, at
// least one data octet, length octet true); every other well-formed block is skipped.
func KeptDIB(x RDIB) bool {
	return (x.Type == 3 || x.Type == 4 || x.Type == 5 || x.Type == 0xfe) && len(x.Body) > 0 && int(x.Len) == 2+len(x.Body)
}

// QuietLogger is a log target that formats every message and throws it away: with a target installed the library's
// diagnostic lines are executed (their arguments evaluated, their owner's type looked up), without one they are not.
type QuietLogger struct{ Lines int64 }

func (q *QuietLogger) Printf(format string, args ...interface{}) {
	_ = fmt.Sprintf(format, args...)
	atomic.AddInt64(&q.Lines, 1)
}

// InstallLoggerForOddShards installs a QuietLogger as the library's log target in every second shard of a job (the
// process environment is part of "any input": an application that has diagnostics switched on decodes the same bytes).
func InstallLoggerForOddShards(shard int) bool {
	if shard%2 == 1 {
		util.Logger = &QuietLogger{}
		return true
	}
	return false
}

// ReplayShard returns the shard recorded in a replay file (0 if unreadable): jobs whose shards differ in their process
// environment restore that environment before replaying.
func ReplayShard(path string) int {
	b, err := os.ReadFile(path)
	if err != nil {
		return 0
	}
	var r struct {
		Shard int `json:"shard"`
	}
	if json.Unmarshal(b, &r) != nil {
		return 0
	}
	return r.Shard
}

// WaitLive waits for done for up to limit of *healthy* time: the wait is cut into 50 ms slices, and a slice that took
// far longer than that (the process, or the whole machine, stood still - a snapshot, an oversubscribed host) does not
// count, because whatever done is waiting for stood still as well and all timers that expired meanwhile fire at once
// when the world goes on. A liveness verdict is only given after limit of time in which this goroutine itself was
// being scheduled normally.
func WaitLive(done <-chan struct{}, limit time.Duration) bool {
	const slice = 50 * time.Millisecond
	healthy := time.Duration(0)
	for healthy < limit {
		t0 := time.Now()
		tm := time.NewTimer(slice)
		select {
		case <-done:
			tm.Stop()
			return true
		case <-tm.C:
		}
		if d := time.Since(t0); d < 4*slice {
			healthy += d
		}
	}
	select {
	case <-done:
		return true
	default:
		return false
	}
}
