package common

import (
	"pgregory.net/rapid"
)

// Generators for RFrame values over the ranges quantified in C02 (full 8/16-bit ranges of channel,
// sequence number, status, addresses and both control fields; APCI 0..15; numbered flag and
// sequence 0..15; application payloads of 1..254 bytes with first byte < 64; additional info of
// 0..255 bytes; 0..20 service families; names of 0..29 Latin-1 characters without NUL).

var edgeU8 = []uint8{0, 1, 2, 3, 4, 6, 8, 0x0f, 0x10, 0x3f, 0x40, 0x7f, 0x80, 0xbf, 0xc0, 0xfe, 0xff}

// GenU8 draws a byte with a bias towards boundary values.
func GenU8(rt *rapid.T, label string) uint8 {
	if rapid.IntRange(0, 3).Draw(rt, label+"?") == 0 {
		return rapid.SampledFrom(edgeU8).Draw(rt, label)
	}
	return rapid.Uint8().Draw(rt, label)
}

// GenU16 draws a 16-bit value with a bias towards boundary values.
func GenU16(rt *rapid.T, label string) uint16 {
	switch rapid.IntRange(0, 5).Draw(rt, label+"?") {
	case 0:
		return rapid.SampledFrom([]uint16{0, 1, 0xff, 0x100, 0x7fff, 0x8000, 0xfffe, 0xffff, 0x1101, 0x0801}).Draw(rt, label)
	default:
		return rapid.Uint16().Draw(rt, label)
	}
}

// GenBytes draws a byte string whose length is in [lo,hi], biased to the ends of the range.
func GenBytes(rt *rapid.T, label string, lo, hi int) []byte {
	var n int
	switch rapid.IntRange(0, 9).Draw(rt, label+"-len?") {
	case 0:
		n = lo
	case 1:
		n = hi
	case 2:
		n = lo + rapid.IntRange(0, min(3, hi-lo)).Draw(rt, label+"-lenlo")
	case 3:
		n = hi - rapid.IntRange(0, min(3, hi-lo)).Draw(rt, label+"-lenhi")
	case 4, 5:
		n = rapid.IntRange(lo, hi).Draw(rt, label+"-len")
	default:
		n = rapid.IntRange(lo, min(hi, lo+20)).Draw(rt, label+"-lensmall")
	}
	b := make([]byte, n)
	mode := rapid.IntRange(0, 3).Draw(rt, label+"-fill")
	for i := range b {
		switch mode {
		case 0:
			b[i] = byte(i + 1)
		case 1:
			b[i] = 0xff
		default:
			b[i] = rapid.Uint8().Draw(rt, label+"-b")
		}
	}
	return b
}

// GenHPAI draws a host info block (any protocol octet, address, port).
func GenHPAI(rt *rapid.T, label string) RHPAI {
	h := RHPAI{Proto: rapid.SampledFrom([]uint8{1, 2, 1, 2, 0, 3, 0xff}).Draw(rt, label+"-proto"), Port: GenU16(rt, label+"-port")}
	for i := range h.IP {
		h.IP[i] = GenU8(rt, label+"-ip")
	}
	return h
}

// GenTPDU draws a transport unit; kind 0 = application data, 1 = control.
func GenTPDU(rt *rapid.T, control bool) RTPDU {
	t := RTPDU{Control: control, Numbered: rapid.Bool().Draw(rt, "numbered")}
	if t.Numbered {
		t.Seq = uint8(rapid.IntRange(0, 15).Draw(rt, "tseq"))
	}
	if control {
		t.APCI = uint8(rapid.IntRange(0, 3).Draw(rt, "ctlcmd"))
		return t
	}
	t.APCI = uint8(rapid.IntRange(0, 15).Draw(rt, "apci"))
	t.Data = GenBytes(rt, "appdata", 1, 254)
	t.Data[0] &= 0x3f
	return t
}

// GenLData draws an L_Data body.
func GenLData(rt *rapid.T, control bool) *RLData {
	return &RLData{
		Info: GenBytes(rt, "info", 0, 255),
		C1:   GenU8(rt, "c1"), C2: GenU8(rt, "c2"),
		Src: GenU16(rt, "src"), Dst: GenU16(rt, "dst"),
		TPDU: GenTPDU(rt, control),
	}
}

// CemiKinds enumerates the cEMI message kinds of the C02 product:
// L_Data req/con/ind x (app, control), L_Raw req/con/ind, L_Busmon, unsupported.
var CemiKinds = []string{"ldata-req-app", "ldata-req-ctl", "ldata-con-app", "ldata-con-ctl", "ldata-ind-app", "ldata-ind-ctl",
	"lraw-req", "lraw-con", "lraw-ind", "lbusmon", "unsupported"}

// GenCemi draws a cEMI message of the given kind.
func GenCemi(rt *rapid.T, kind string) *RCemi {
	switch kind {
	case "ldata-req-app":
		return &RCemi{Code: CodeLDataReq, LData: GenLData(rt, false)}
	case "ldata-req-ctl":
		return &RCemi{Code: CodeLDataReq, LData: GenLData(rt, true)}
	case "ldata-con-app":
		return &RCemi{Code: CodeLDataCon, LData: GenLData(rt, false)}
	case "ldata-con-ctl":
		return &RCemi{Code: CodeLDataCon, LData: GenLData(rt, true)}
	case "ldata-ind-app":
		return &RCemi{Code: CodeLDataInd, LData: GenLData(rt, false)}
	case "ldata-ind-ctl":
		return &RCemi{Code: CodeLDataInd, LData: GenLData(rt, true)}
	case "lraw-req":
		return &RCemi{Code: CodeLRawReq, Raw: GenBytes(rt, "raw", 0, 300)}
	case "lraw-con":
		return &RCemi{Code: CodeLRawCon, Raw: GenBytes(rt, "raw", 0, 300)}
	case "lraw-ind":
		return &RCemi{Code: CodeLRawInd, Raw: GenBytes(rt, "raw", 0, 300)}
	case "lbusmon":
		return &RCemi{Code: CodeLBusmonInd, Raw: GenBytes(rt, "raw", 0, 300)}
	}
	// unsupported: any code that is not one of the seven known ones
	code := GenU8(rt, "ucode")
	for _, k := range AllCemiCodes {
		if code == k {
			code = 0x13 // L_Poll_Data.req: a real cEMI code the library does not implement
		}
	}
	return &RCemi{Code: code, Raw: GenBytes(rt, "raw", 0, 300)}
}

// GenName draws 0..29 Latin-1 characters without NUL.
func GenName(rt *rapid.T) []byte {
	b := GenBytes(rt, "name", 0, 29)
	for i := range b {
		if b[i] == 0 {
			b[i] = 'x'
		}
	}
	return b
}

// GenDevInfo draws a device-information block.
func GenDevInfo(rt *rapid.T) *RDevInfo {
	d := &RDevInfo{Type: 1, Medium: GenU8(rt, "medium"), Status: GenU8(rt, "dstatus"), Source: GenU16(rt, "dsrc"), Project: GenU16(rt, "proj"), Name: GenName(rt)}
	copy(d.Serial[:], GenBytes(rt, "serial", 6, 6))
	copy(d.Mcast[:], GenBytes(rt, "mcast", 4, 4))
	copy(d.MAC[:], GenBytes(rt, "mac", 6, 6))
	switch rapid.IntRange(0, 9).Draw(rt, "mac-special") {
	case 0: // a device without an Ethernet interface of its own reports zeros
		d.MAC = [6]byte{}
	case 1:
		d.MAC = [6]byte{0xff, 0xff, 0xff, 0xff, 0xff, 0xff}
	}
	return d
}

// GenFamilies draws 0..20 service families.
func GenFamilies(rt *rapid.T) *RFamilies {
	f := &RFamilies{Type: 2}
	n := rapid.SampledFrom([]int{0, 1, 2, 3, 5, 8, 19, 20}).Draw(rt, "nfam")
	for i := 0; i < n; i++ {
		f.Families = append(f.Families, [2]uint8{GenU8(rt, "fam"), GenU8(rt, "ver")})
	}
	return f
}

// ServiceKinds enumerates the encodable service shapes of the C02 product.
var ServiceKinds = []string{"connreq", "connres-ok", "connres-err", "connstatereq", "connstateres", "discreq", "discres",
	"tunnelreq", "tunnelres", "routingind", "searchreq", "searchres", "descrreq", "descrres"}

// CarriesCemi tells whether the service shape embeds a cEMI message.
func CarriesCemi(kind string) bool { return kind == "tunnelreq" || kind == "routingind" }

// GenFrame draws a frame of the given service shape (cemiKind is used by tunnelreq/routingind).
func GenFrame(rt *rapid.T, kind, cemiKind string) *RFrame {
	f := &RFrame{}
	switch kind {
	case "connreq":
		f.Service = SvcConnReq
		f.Control, f.Tunnel = GenHPAI(rt, "ctl"), GenHPAI(rt, "tun")
		f.Layer = rapid.SampledFrom([]uint8{2, 4, 0x80, 0, 0xff, 3}).Draw(rt, "layer")
	case "connres-ok":
		f.Service = SvcConnRes
		f.Channel, f.Status, f.Control = GenU8(rt, "chan"), 0, GenHPAI(rt, "ctl")
	case "connres-err":
		f.Service = SvcConnRes
		f.Channel, f.Status = GenU8(rt, "chan"), uint8(rapid.IntRange(1, 255).Draw(rt, "status"))
	case "connstatereq":
		f.Service = SvcConnStateReq
		f.Channel, f.Status, f.Control = GenU8(rt, "chan"), GenU8(rt, "status"), GenHPAI(rt, "ctl")
	case "connstateres":
		f.Service = SvcConnStateRes
		f.Channel, f.Status = GenU8(rt, "chan"), GenU8(rt, "status")
	case "discreq":
		f.Service = SvcDiscReq
		f.Channel, f.Status, f.Control = GenU8(rt, "chan"), GenU8(rt, "status"), GenHPAI(rt, "ctl")
	case "discres":
		f.Service = SvcDiscRes
		f.Channel, f.Status = GenU8(rt, "chan"), GenU8(rt, "status")
	case "tunnelreq":
		f.Service = SvcTunnelReq
		f.Channel, f.Seq, f.Cemi = GenU8(rt, "chan"), GenU8(rt, "seq"), GenCemi(rt, cemiKind)
	case "tunnelres":
		f.Service = SvcTunnelRes
		f.Channel, f.Seq, f.Status = GenU8(rt, "chan"), GenU8(rt, "seq"), GenU8(rt, "status")
	case "routingind":
		f.Service = SvcRoutingInd
		f.Cemi = GenCemi(rt, cemiKind)
	case "searchreq":
		f.Service = SvcSearchReq
		f.Control = GenHPAI(rt, "ctl")
	case "descrreq":
		f.Service = SvcDescrReq
		f.Control = GenHPAI(rt, "ctl")
	case "searchres":
		f.Service = SvcSearchRes
		f.Control, f.Dev, f.Fam = GenHPAI(rt, "ctl"), GenDevInfo(rt), GenFamilies(rt)
	case "descrres":
		f.Service = SvcDescrRes
		f.Dev, f.Fam = GenDevInfo(rt), GenFamilies(rt)
	case "routinglost":
		f.Service = SvcRoutingLost
		f.DevState, f.Count = GenU8(rt, "devstate"), GenU16(rt, "count")
	case "routingbusy":
		f.Service = SvcRoutingBusy
		f.DevState, f.Wait, f.BusyCtl = GenU8(rt, "devstate"), GenU16(rt, "wait"), GenU16(rt, "busyctl")
	case "unknown":
		f.Service = rapid.SampledFrom([]uint16{0x0000, 0x0200, 0x020b, 0x0310, 0x0422, 0x0533, 0xffff}).Draw(rt, "usvc")
		f.Raw = GenBytes(rt, "ubody", 0, 64)
	}
	return f
}

// AllFrameKinds adds the decode-only services and an unknown service to ServiceKinds.
var AllFrameKinds = append(append([]string{}, ServiceKinds...), "routinglost", "routingbusy", "unknown")

// GenValidDIBs draws 0..3 well-formed additional description blocks of the types the library keeps
// as "unknown blocks" (IP config, current IP config, KNX addresses, manufacturer data) and of types
// it skips.
func GenValidDIBs(rt *rapid.T) []RDIB {
	var out []RDIB
	for i := 0; i < rapid.IntRange(0, 3).Draw(rt, "n-dibs"); i++ {
		body := GenBytes(rt, "dib-body", 0, 40)
		out = append(out, RDIB{Len: uint8(2 + len(body)), Type: rapid.SampledFrom([]uint8{3, 4, 5, 0xfe, 0xfe, 6, 0x7f}).Draw(rt, "dib-type"), Body: body})
	}
	return out
}
