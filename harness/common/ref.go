package common

// Independent reference codec for KNXnet/IP frames and cEMI messages.
//
// Written from the KNXnet/IP core/tunnelling/routing layouts and the cEMI L_Data layout as
// restated in properties C02/C11 - it shares no code with /repo. A frame is described by the
// plain-data RFrame; RefEncode turns it into bytes and reports where every embedded length
// octet lives (used by the C01 length-octet sweeps); RefDecodeLData reads an L_Data body.

import (
	"encoding/binary"
	"fmt"
)

// Service identifiers (KNXnet/IP).
const (
	SvcSearchReq    = 0x0201
	SvcSearchRes    = 0x0202
	SvcDescrReq     = 0x0203
	SvcDescrRes     = 0x0204
	SvcConnReq      = 0x0205
	SvcConnRes      = 0x0206
	SvcConnStateReq = 0x0207
	SvcConnStateRes = 0x0208
	SvcDiscReq      = 0x0209
	SvcDiscRes      = 0x020a
	SvcTunnelReq    = 0x0420
	SvcTunnelRes    = 0x0421
	SvcRoutingInd   = 0x0530
	SvcRoutingLost  = 0x0531
	SvcRoutingBusy  = 0x0532
)

// AllServices lists the 15 service identifiers the library knows.
var AllServices = []uint16{SvcSearchReq, SvcSearchRes, SvcDescrReq, SvcDescrRes, SvcConnReq, SvcConnRes,
	SvcConnStateReq, SvcConnStateRes, SvcDiscReq, SvcDiscRes, SvcTunnelReq, SvcTunnelRes, SvcRoutingInd,
	SvcRoutingLost, SvcRoutingBusy}

// cEMI message codes.
const (
	CodeLRawReq    = 0x10
	CodeLDataReq   = 0x11
	CodeLDataInd   = 0x29
	CodeLBusmonInd = 0x2B
	CodeLRawInd    = 0x2D
	CodeLDataCon   = 0x2E
	CodeLRawCon    = 0x2F
)

// AllCemiCodes lists the 7 message codes the library knows.
var AllCemiCodes = []uint8{CodeLRawReq, CodeLDataReq, CodeLDataInd, CodeLBusmonInd, CodeLRawInd, CodeLDataCon, CodeLRawCon}

// RHPAI is a host protocol address information block.
type RHPAI struct {
	Proto uint8   `json:"proto"`
	IP    [4]byte `json:"ip"`
	Port  uint16  `json:"port"`
}

// RTPDU is a transport unit. For a control unit APCI holds the 2-bit control command.
// For a data unit Data[0] is the 6-bit short data octet, Data[1:] the remaining octets.
type RTPDU struct {
	Control  bool   `json:"control"`
	Numbered bool   `json:"numbered"`
	Seq      uint8  `json:"seq"`
	APCI     uint8  `json:"apci"`
	Data     []byte `json:"data,omitempty"`
}

// RLData is the body of L_Data.req/con/ind.
type RLData struct {
	Info []byte `json:"info,omitempty"`
	C1   uint8  `json:"c1"`
	C2   uint8  `json:"c2"`
	Src  uint16 `json:"src"`
	Dst  uint16 `json:"dst"`
	TPDU RTPDU  `json:"tpdu"`
}

// RCemi is a cEMI message: an L_Data body, or raw bytes for L_Raw/L_Busmon/unsupported codes.
type RCemi struct {
	Code  uint8   `json:"code"`
	LData *RLData `json:"ldata,omitempty"`
	Raw   []byte  `json:"raw,omitempty"`
}

// IsLData tells whether code is one of the three L_Data codes.
func IsLData(code uint8) bool {
	return code == CodeLDataReq || code == CodeLDataInd || code == CodeLDataCon
}

// RDevInfo is the device-information DIB.
type RDevInfo struct {
	Type    uint8   `json:"type"`
	Medium  uint8   `json:"medium"`
	Status  uint8   `json:"status"`
	Source  uint16  `json:"source"`
	Project uint16  `json:"project"`
	Serial  [6]byte `json:"serial"`
	Mcast   [4]byte `json:"mcast"`
	MAC     [6]byte `json:"mac"`
	Name    []byte  `json:"name"` // Latin-1 bytes, no NUL, at most 29 for the round-trip domain
}

// RFamilies is the supported-service-families DIB.
type RFamilies struct {
	Type     uint8      `json:"type"`
	Families [][2]uint8 `json:"families,omitempty"`
}

// RDIB is an additional description block (only used for decoder robustness, never for round trips).
type RDIB struct {
	Len  uint8  `json:"len"` // the length octet as written (may disagree with the bytes present)
	Type uint8  `json:"type"`
	Body []byte `json:"body,omitempty"`
}

// RFrame describes one KNXnet/IP frame.
type RFrame struct {
	Service uint16 `json:"service"`

	Channel uint8 `json:"channel,omitempty"`
	Seq     uint8 `json:"seq,omitempty"`
	Status  uint8 `json:"status,omitempty"`
	Layer   uint8 `json:"layer,omitempty"`

	Control RHPAI `json:"control"`
	Tunnel  RHPAI `json:"tunnel"`

	Cemi *RCemi `json:"cemi,omitempty"`

	Dev   *RDevInfo  `json:"dev,omitempty"`
	Fam   *RFamilies `json:"fam,omitempty"`
	Extra []RDIB     `json:"extra,omitempty"`

	DevState uint8  `json:"devstate,omitempty"`
	Count    uint16 `json:"count,omitempty"`
	Wait     uint16 `json:"wait,omitempty"`
	BusyCtl  uint16 `json:"busyctl,omitempty"`

	Raw []byte `json:"raw,omitempty"` // body of an unknown service
}

// LenField locates an embedded length octet inside an encoded frame.
type LenField struct {
	Name  string `json:"name"`
	Off   int    `json:"off"`
	Width int    `json:"width"`
	True  int    `json:"true"`
}

type enc struct {
	b    []byte
	lens []LenField
}

func (e *enc) u8(v uint8)   { e.b = append(e.b, v) }
func (e *enc) u16(v uint16) { e.b = append(e.b, byte(v>>8), byte(v)) }
func (e *enc) raw(v []byte) { e.b = append(e.b, v...) }
func (e *enc) lenOctet(name string, v int) {
	e.lens = append(e.lens, LenField{Name: name, Off: len(e.b), Width: 1, True: v})
	e.b = append(e.b, byte(v))
}

func (e *enc) hpai(h RHPAI) {
	e.lenOctet("hpai", 8)
	e.u8(h.Proto)
	e.raw(h.IP[:])
	e.u16(h.Port)
}

// EncodeTPDU writes length octet + TPCI/APCI octets of a transport unit.
func (e *enc) tpdu(t RTPDU) {
	if t.Control {
		e.lenOctet("tpdu", 0)
		b := byte(0x80) | (t.APCI & 3)
		if t.Numbered {
			b |= 0x40 | (t.Seq&15)<<2
		}
		e.u8(b)
		return
	}
	data := t.Data
	if len(data) == 0 {
		data = []byte{0}
	}
	e.lenOctet("tpdu", len(data))
	b := (t.APCI >> 2) & 3
	if t.Numbered {
		b |= 0x40 | (t.Seq&15)<<2
	}
	e.u8(b)
	e.u8((t.APCI&3)<<6 | data[0]&0x3f)
	e.raw(data[1:])
}

func (e *enc) cemi(c *RCemi) {
	e.u8(c.Code)
	if c.LData != nil {
		l := c.LData
		e.lenOctet("addinfo", len(l.Info))
		e.raw(l.Info)
		e.u8(l.C1)
		e.u8(l.C2)
		e.u16(l.Src)
		e.u16(l.Dst)
		e.tpdu(l.TPDU)
		return
	}
	e.raw(c.Raw)
}

func (e *enc) devinfo(d *RDevInfo) {
	e.lenOctet("dib-devinfo", 54)
	e.u8(d.Type)
	e.u8(d.Medium)
	e.u8(d.Status)
	e.u16(d.Source)
	e.u16(d.Project)
	e.raw(d.Serial[:])
	e.raw(d.Mcast[:])
	e.raw(d.MAC[:])
	name := make([]byte, 30)
	copy(name, d.Name)
	e.raw(name)
}

func (e *enc) families(f *RFamilies) {
	e.lenOctet("dib-families", 2+2*len(f.Families))
	e.u8(f.Type)
	for _, x := range f.Families {
		e.u8(x[0])
		e.u8(x[1])
	}
}

// RefEncodeCemi encodes a bare cEMI message.
func RefEncodeCemi(c *RCemi) ([]byte, []LenField) {
	e := &enc{}
	e.cemi(c)
	return e.b, e.lens
}

// RefEncode encodes a whole frame and returns the embedded length fields.
func RefEncode(f *RFrame) ([]byte, []LenField) {
	e := &enc{}
	e.lenOctet("header", 6)
	e.u8(0x10)
	e.u16(f.Service)
	e.lens = append(e.lens, LenField{Name: "total", Off: 4, Width: 2})
	e.u16(0)
	switch f.Service {
	case SvcSearchReq, SvcDescrReq:
		e.hpai(f.Control)
	case SvcSearchRes:
		e.hpai(f.Control)
		e.devinfo(f.Dev)
		e.families(f.Fam)
		for _, x := range f.Extra { // further description blocks behind the two mandatory ones (extended search responses)
			e.lenOctet("dib-extra", int(x.Len))
			e.u8(x.Type)
			e.raw(x.Body)
		}
	case SvcDescrRes:
		e.devinfo(f.Dev)
		e.families(f.Fam)
		for _, x := range f.Extra {
			e.lenOctet("dib-extra", int(x.Len))
			e.u8(x.Type)
			e.raw(x.Body)
		}
	case SvcConnReq:
		e.hpai(f.Control)
		e.hpai(f.Tunnel)
		e.lenOctet("cri", 4)
		e.u8(4)
		e.u8(f.Layer)
		e.u8(0)
	case SvcConnRes:
		e.u8(f.Channel)
		e.u8(f.Status)
		if f.Status == 0 {
			e.hpai(f.Control)
			e.lenOctet("crd", 4)
			e.u8(4)
			e.u8(0)
			e.u8(0)
		}
	case SvcConnStateReq, SvcDiscReq:
		e.u8(f.Channel)
		e.u8(f.Status)
		e.hpai(f.Control)
	case SvcConnStateRes, SvcDiscRes:
		e.u8(f.Channel)
		e.u8(f.Status)
	case SvcTunnelReq:
		e.lenOctet("tunnelhdr", 4)
		e.u8(f.Channel)
		e.u8(f.Seq)
		e.u8(0)
		e.cemi(f.Cemi)
	case SvcTunnelRes:
		e.lenOctet("tunnelhdr", 4)
		e.u8(f.Channel)
		e.u8(f.Seq)
		e.u8(f.Status)
	case SvcRoutingInd:
		e.cemi(f.Cemi)
	case SvcRoutingLost:
		e.lenOctet("losthdr", 4)
		e.u8(f.DevState)
		e.u16(f.Count)
	case SvcRoutingBusy:
		e.lenOctet("busyhdr", 6)
		e.u8(f.DevState)
		e.u16(f.Wait)
		e.u16(f.BusyCtl)
	default:
		e.raw(f.Raw)
	}
	binary.BigEndian.PutUint16(e.b[4:], uint16(len(e.b)))
	for i := range e.lens {
		if e.lens[i].Name == "total" {
			e.lens[i].True = len(e.b)
		}
	}
	return e.b, e.lens
}

// RefDecodeLData decodes the body (after the message code) of an L_Data message.
// It requires the layout to be exact: the TPDU length octet must describe the bytes present.
func RefDecodeLData(body []byte) (*RLData, error) {
	if len(body) < 1 {
		return nil, fmt.Errorf("no info length")
	}
	il := int(body[0])
	if len(body) < 1+il+6+2 {
		return nil, fmt.Errorf("short L_Data: %d bytes, info length %d", len(body), il)
	}
	l := &RLData{}
	if il > 0 {
		l.Info = append([]byte{}, body[1:1+il]...)
	}
	p := body[1+il:]
	l.C1, l.C2 = p[0], p[1]
	l.Src = uint16(p[2])<<8 | uint16(p[3])
	l.Dst = uint16(p[4])<<8 | uint16(p[5])
	t := p[6:]
	ln := int(t[0])
	tp := t[1]
	l.TPDU.Numbered = tp&0x40 != 0
	l.TPDU.Seq = (tp >> 2) & 15
	if tp&0x80 != 0 {
		l.TPDU.Control = true
		l.TPDU.APCI = tp & 3
		if ln != 0 || len(t) != 2 {
			return nil, fmt.Errorf("control unit with length %d and %d bytes", ln, len(t))
		}
		return l, nil
	}
	if ln < 1 || len(t) != 2+ln {
		return nil, fmt.Errorf("data unit length octet %d but %d bytes follow the TPCI octet", ln, len(t)-2)
	}
	l.TPDU.APCI = (tp&3)<<2 | t[2]>>6
	l.TPDU.Data = append([]byte{}, t[2:2+ln]...)
	l.TPDU.Data[0] &= 0x3f
	return l, nil
}

// RefDecodeCemi decodes a bare cEMI message produced with exact lengths.
func RefDecodeCemi(b []byte) (*RCemi, error) {
	if len(b) < 1 {
		return nil, fmt.Errorf("empty cEMI")
	}
	c := &RCemi{Code: b[0]}
	if IsLData(b[0]) {
		l, err := RefDecodeLData(b[1:])
		if err != nil {
			return nil, err
		}
		c.LData = l
		return c, nil
	}
	if len(b) > 1 {
		c.Raw = append([]byte{}, b[1:]...)
	}
	return c, nil
}

// RefDecodeFrameCemi extracts the cEMI message from a tunnelling request or routing indication.
func RefDecodeFrameCemi(b []byte) (svc uint16, channel, seq uint8, c *RCemi, err error) {
	if len(b) < 6 || b[0] != 6 || b[1] != 0x10 {
		return 0, 0, 0, nil, fmt.Errorf("bad header")
	}
	svc = uint16(b[2])<<8 | uint16(b[3])
	total := int(b[4])<<8 | int(b[5])
	if total != len(b) {
		return svc, 0, 0, nil, fmt.Errorf("total length %d but %d bytes", total, len(b))
	}
	body := b[6:]
	switch svc {
	case SvcTunnelReq:
		if len(body) < 4 || body[0] != 4 || body[3] != 0 {
			return svc, 0, 0, nil, fmt.Errorf("bad tunnelling header % x", body)
		}
		channel, seq = body[1], body[2]
		c, err = RefDecodeCemi(body[4:])
	case SvcRoutingInd:
		c, err = RefDecodeCemi(body)
	default:
		err = fmt.Errorf("service %#04x carries no cEMI", svc)
	}
	return
}
