package common

import (
	"flag"
	"fmt"
	"runtime/debug"
	"strconv"
	"testing"

	"pgregory.net/rapid"
)

// Fail describes why a case violates the property. nil means the property held.
type Fail struct {
	Kind   string // short machine-readable class, used as part of the replay file name
	Detail string // human-readable explanation with the concrete values
	Extra  any    // observed history etc., stored in the replay record
	Known  string // id of the known finding whose signature this failure matches ("" = fresh)
}

// Failf builds a Fail.
func Failf(kind, format string, args ...any) *Fail {
	return &Fail{Kind: kind, Detail: fmt.Sprintf(format, args...)}
}

// Guard runs f and converts a panic into a Fail of kind "panic".
func Guard(f func() *Fail) (res *Fail) {
	defer func() {
		if p := recover(); p != nil {
			res = &Fail{Kind: "panic", Detail: fmt.Sprintf("panic: %v", p), Extra: string(debug.Stack())}
		}
	}()
	return f()
}

// RapidChecks returns the value of -rapid.checks.
func RapidChecks() int {
	if f := flag.Lookup("rapid.checks"); f != nil {
		if n, err := strconv.Atoi(f.Value.String()); err == nil {
			return n
		}
	}
	return 100
}

// Drive runs a plan-based property.
//
//	gen  draws a plan (all random choices) from rapid,
//	run  executes the plan against the library and applies the oracle.
//
// In replay mode (VERIF_REPLAY) gen is not used: the plan is read from the record.
// A failure that matches a listed known finding is counted and the search continues.
func Drive[P any](t *testing.T, rec *Rec, gen func(*rapid.T) P, run func(P) *Fail) {
	t.Helper()
	if rec.Env.Replay != "" {
		ReplayOnly(t, rec, run)
		return
	}
	// rapid.Check ends with FailNow (runtime.Goexit) whenever the test is marked failed - also when only
	// the race detector marked it - so "the generated run finished without a violation of ours" is
	// recorded here, in a deferred call, for Finish.
	failed := false
	defer func() {
		if !failed {
			rec.mu.Lock()
			rec.driveOK = true
			rec.mu.Unlock()
		}
	}()
	rapid.Check(t, func(rt *rapid.T) {
		plan := gen(rt)
		rec.Eval(1)
		f := Guard(func() *Fail { return run(plan) })
		if f == nil {
			return
		}
		if f.Known != "" && rec.IsKnown(f.Known) {
			rec.KnownHit(f.Known)
			return
		}
		failed = true
		p := rec.Violation("rapid", f.Kind, f.Detail, plan, f.Extra)
		rt.Fatalf("%s: %s (record %s)", f.Kind, f.Detail, p)
	})
}

// ReplayOnly re-executes the plan stored in the replay file named by VERIF_REPLAY, without rapid.
func ReplayOnly[P any](t *testing.T, rec *Rec, run func(P) *Fail) {
	t.Helper()
	var plan P
	if _, err := LoadReplay(rec.Env.Replay, &plan); err != nil {
		t.Fatalf("cannot load replay %s: %v", rec.Env.Replay, err)
	}
	rec.Eval(1)
	f := Guard(func() *Fail { return run(plan) })
	if f != nil && f.Known != "" && rec.IsKnown(f.Known) {
		rec.KnownHit(f.Known)
		fmt.Printf("KNOWN-FINDING: property=%s %s (replayed case matches)\n", rec.Env.ID, f.Known)
		return
	}
	if f != nil {
		p := rec.Violation("replay-"+f.Kind, f.Kind, f.Detail, plan, f.Extra)
		fmt.Printf("VIOLATION property=%s replay=%s\n", rec.Env.ID, rec.Env.Replay)
		t.Errorf("replayed case violates %s: %s: %s (record %s)", rec.Env.ID, f.Kind, f.Detail, p)
	}
}

// Report handles a failure found by an enumerating (non-rapid) loop: known findings are
// counted, fresh ones are written (first record per kind is kept) and fail the test.
// It returns true when the caller should stop enumerating this kind.
func Report(t *testing.T, rec *Rec, f *Fail, plan any) bool {
	if f == nil {
		return false
	}
	if f.Known != "" && rec.IsKnown(f.Known) {
		rec.KnownHit(f.Known)
		return false
	}
	rec.mu.Lock()
	n := rec.violKinds["enum-"+f.Kind]
	rec.mu.Unlock()
	if n == 0 {
		p := rec.Violation("enum-"+f.Kind, f.Kind, f.Detail, plan, f.Extra)
		t.Errorf("%s: %s (record %s)", f.Kind, f.Detail, p)
	} else {
		rec.mu.Lock()
		rec.violKinds["enum-"+f.Kind]++
		rec.mu.Unlock()
	}
	return n > 50
}

// RapidSeed derives the per-shard rapid seed from VERIF_SEED (never 0).
func (e Env) RapidSeed() uint64 {
	return 1 + uint64((e.Seed*1000003+int64(e.Shard))%((1<<31)-2))
}
