package common

import (
	"fmt"
	"os"
	"runtime"
	"sync/atomic"
	"time"
)

// Watchdog detects a synchronous library call that never returns (a spinning decoder cannot be
// cancelled in Go): the case in flight becomes a violation record of kind "hang" and the process
// exits with status 3. The hot path costs two atomic stores per case.
type Watchdog struct {
	rec     *Rec
	seq     atomic.Uint64
	cur     atomic.Pointer[watched]
	limit   time.Duration
	started atomic.Bool
}

type watched struct {
	seq   uint64
	since time.Time
	plan  any
	what  string
}

// NewWatchdog starts the watchdog goroutine.
func NewWatchdog(rec *Rec, limit time.Duration) *Watchdog {
	w := &Watchdog{rec: rec, limit: limit}
	go w.loop()
	return w
}

// Enter marks plan as in flight.
func (w *Watchdog) Enter(what string, plan any) {
	w.cur.Store(&watched{seq: w.seq.Add(1), since: time.Now(), plan: plan, what: what})
}

// Leave marks the call as returned.
func (w *Watchdog) Leave() { w.cur.Store(nil) }

func (w *Watchdog) loop() {
	for {
		time.Sleep(w.limit / 4)
		c := w.cur.Load()
		if c == nil || time.Since(c.since) < w.limit {
			continue
		}
		// still the same call?
		time.Sleep(w.limit / 4)
		if c2 := w.cur.Load(); c2 == nil || c2.seq != c.seq {
			continue
		}
		buf := make([]byte, 1<<16)
		buf = buf[:runtime.Stack(buf, true)]
		p := w.rec.Violation("hang", "hang", fmt.Sprintf("%s did not return within %v", c.what, w.limit), c.plan, string(buf))
		fmt.Printf("VIOLATION property=%s replay=%s (hang)\n", w.rec.Env.ID, p)
		w.rec.Finish(false)
		os.Exit(3)
	}
}
