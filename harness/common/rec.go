// Package common holds what every check shares: the evidence recorder, the
// violation/replay writer, the known-findings reader, the independent reference
// codec, the generators and the in-memory socket.
package common

import (
	"encoding/binary"
	"encoding/json"
	"fmt"
	"hash/fnv"
	"os"
	"path/filepath"
	"sort"
	"strconv"
	"sync"
	"time"
)

// Env is the contract between the driver (/verif/check) and a test process.
type Env struct {
	ID        string // property id
	Job       string // job name inside the property (e.g. "pure", "bubble", "real")
	Tier      string // quick | thorough
	Seed      int64  // VERIF_SEED
	Shard     int
	Shards    int
	OutDir    string // where result-<job>-<shard>.json goes
	ReplayDir string // where violation records go
	Replay    string // when set: re-run exactly this record, no generation
	KnownFile string
	Scale     float64 // multiplier for case counts (driver sets from tier)
}

func getenvInt(k string, d int64) int64 {
	v := os.Getenv(k)
	if v == "" {
		return d
	}
	n, err := strconv.ParseInt(v, 10, 64)
	if err != nil {
		return d
	}
	return n
}

// LoadEnv reads the VERIF_* variables; defaults make `go test` usable by hand.
func LoadEnv(id, job string) Env {
	e := Env{
		ID:        id,
		Job:       job,
		Tier:      os.Getenv("VERIF_TIER"),
		Seed:      getenvInt("VERIF_SEED", 1),
		Shard:     int(getenvInt("VERIF_SHARD", 0)),
		Shards:    int(getenvInt("VERIF_SHARDS", 1)),
		OutDir:    os.Getenv("VERIF_OUT"),
		ReplayDir: os.Getenv("VERIF_REPLAY_DIR"),
		Replay:    os.Getenv("VERIF_REPLAY"),
		KnownFile: os.Getenv("VERIF_KNOWN"),
	}
	if e.Tier == "" {
		e.Tier = "quick"
	}
	if e.Shards < 1 {
		e.Shards = 1
	}
	if e.OutDir == "" {
		e.OutDir = filepath.Join(os.TempDir(), "verif-out", id)
	}
	if e.ReplayDir == "" {
		e.ReplayDir = filepath.Join(os.TempDir(), "verif-replays", id)
	}
	if e.KnownFile == "" {
		e.KnownFile = "/verif/known_findings.json"
	}
	e.Scale = 1
	if v := os.Getenv("VERIF_SCALE"); v != "" {
		if f, err := strconv.ParseFloat(v, 64); err == nil && f > 0 {
			e.Scale = f
		}
	}
	return e
}

// Thorough reports whether the thorough tier was requested.
func (e Env) Thorough() bool { return e.Tier == "thorough" }

// N scales a quick-tier count to the requested tier (scale set by the driver).
func (e Env) N(quick int) int {
	n := int(float64(quick) * e.Scale)
	if n < 1 {
		n = 1
	}
	return n
}

// Mine tells an enumerating (non-rapid) loop whether index i belongs to this shard.
func (e Env) Mine(i int) bool { return i%e.Shards == e.Shard }

// KnownFinding is one entry of /verif/known_findings.json.
type KnownFinding struct {
	Property string `json:"property"`
	ID       string `json:"id"`
	Status   string `json:"status"` // known | fixed
	What     string `json:"what"`
	Commit   string `json:"commit,omitempty"`
}

// ViolationRecord is what a replay file contains.
type ViolationRecord struct {
	Property string          `json:"property"`
	Job      string          `json:"job"`
	Kind     string          `json:"kind"`
	Detail   string          `json:"detail"`
	Seed     int64           `json:"seed"`
	Shard    int             `json:"shard"`
	Plan     json.RawMessage `json:"plan"`
	Extra    any             `json:"extra,omitempty"`
}

// Rec accumulates the evidence of one test process.
type Rec struct {
	Env Env

	mu            sync.Mutex
	start         time.Time
	evaluations   int64
	seen          map[uint64]struct{}
	seenOverflow  bool
	enumDistinct  int64
	classes       map[string]int64
	samples       map[string]any
	sampleOrder   []string
	excludedKnown map[string]int64
	inconclusive  map[string]int64
	skipped       map[string]string
	exhaustive    []string
	violations    []string
	violKinds     map[string]int
	known         map[string]bool
	notes         []string
	driveOK       bool // set by Drive: rapid ran all its cases and none violated the property
}

const maxSeen = 4 << 20

// NewRec creates the recorder for property id / job.
func NewRec(id, job string) *Rec {
	r := &Rec{
		Env:           LoadEnv(id, job),
		start:         time.Now(),
		seen:          map[uint64]struct{}{},
		classes:       map[string]int64{},
		samples:       map[string]any{},
		excludedKnown: map[string]int64{},
		inconclusive:  map[string]int64{},
		skipped:       map[string]string{},
		violKinds:     map[string]int{},
		known:         map[string]bool{},
	}
	if b, err := os.ReadFile(r.Env.KnownFile); err == nil {
		var kf struct {
			Findings []KnownFinding `json:"findings"`
		}
		if json.Unmarshal(b, &kf) == nil {
			for _, f := range kf.Findings {
				if f.Property == id && f.Status == "known" {
					r.known[f.ID] = true
				}
			}
		}
	}
	return r
}

// IsKnown reports whether finding id is listed with status "known".
func (r *Rec) IsKnown(id string) bool { return r.known[id] }

// Eval counts n executed cases.
func (r *Rec) Eval(n int64) {
	r.mu.Lock()
	r.evaluations += n
	r.mu.Unlock()
}

// Hash64 hashes arbitrary byte chunks (FNV-1a) for distinctness counting.
func Hash64(parts ...[]byte) uint64 {
	h := fnv.New64a()
	var l [4]byte
	for _, p := range parts {
		binary.LittleEndian.PutUint32(l[:], uint32(len(p)))
		h.Write(l[:])
		h.Write(p)
	}
	return h.Sum64()
}

// HashJSON hashes the canonical JSON form of v.
func HashJSON(v any) uint64 {
	b, _ := json.Marshal(v)
	return Hash64(b)
}

// NonTrivial registers one non-trivial case identified by hash h.
func (r *Rec) NonTrivial(h uint64) {
	r.mu.Lock()
	if len(r.seen) < maxSeen {
		r.seen[h] = struct{}{}
	} else if _, ok := r.seen[h]; !ok {
		r.seenOverflow = true // counted conservatively: not counted at all
	}
	r.mu.Unlock()
}

// NonTrivialEnum registers n non-trivial cases that are distinct by construction
// (an enumeration that never repeats a case).
func (r *Rec) NonTrivialEnum(n int64) {
	r.mu.Lock()
	r.enumDistinct += n
	r.mu.Unlock()
}

// Class bumps a histogram bucket.
func (r *Rec) Class(name string) { r.ClassN(name, 1) }

// ClassN bumps a histogram bucket by n.
func (r *Rec) ClassN(name string, n int64) {
	r.mu.Lock()
	r.classes[name] += n
	r.mu.Unlock()
}

// Sample stores the first case seen under key (at most 12 keys).
func (r *Rec) Sample(key string, v any) {
	r.mu.Lock()
	if _, ok := r.samples[key]; !ok && len(r.samples) < 12 {
		r.samples[key] = v
		r.sampleOrder = append(r.sampleOrder, key)
	}
	r.mu.Unlock()
}

// KnownHit counts a violation that matched a listed known finding.
func (r *Rec) KnownHit(id string) {
	r.mu.Lock()
	r.excludedKnown[id]++
	r.mu.Unlock()
}

// Inconclusive counts a discarded case.
func (r *Rec) Inconclusive(reason string) {
	r.mu.Lock()
	r.inconclusive[reason]++
	r.mu.Unlock()
}

// Skip records a sub-oracle that could not run in this environment.
func (r *Rec) Skip(suboracle, reason string) {
	r.mu.Lock()
	r.skipped[suboracle] = reason
	r.mu.Unlock()
}

// Exhaustive names a sub-space that was enumerated completely.
func (r *Rec) Exhaustive(name string) {
	r.mu.Lock()
	r.exhaustive = append(r.exhaustive, name)
	r.mu.Unlock()
}

// Note adds a free-text remark to the evidence.
func (r *Rec) Note(s string) {
	r.mu.Lock()
	r.notes = append(r.notes, s)
	r.mu.Unlock()
}

// Violation writes a replay record and returns its path. slot distinguishes
// independent records of one process; a later call with the same slot overwrites
// the earlier one (rapid shrinking: the last failing evaluation is the minimal one).
func (r *Rec) Violation(slot, kind, detail string, plan any, extra any) string {
	r.mu.Lock()
	defer r.mu.Unlock()
	pb, err := json.Marshal(plan)
	if err != nil {
		pb, _ = json.Marshal(fmt.Sprintf("unserialisable plan: %v", err))
	}
	rec := ViolationRecord{
		Property: r.Env.ID, Job: r.Env.Job, Kind: kind, Detail: detail,
		Seed: r.Env.Seed, Shard: r.Env.Shard, Plan: pb, Extra: extra,
	}
	dir := r.Env.ReplayDir
	if r.Env.Replay != "" {
		dir = filepath.Join(dir, "replayed")
	}
	os.MkdirAll(dir, 0o755)
	name := fmt.Sprintf("%s-%s-seed%d-shard%d.json", r.Env.Job, slot, r.Env.Seed, r.Env.Shard)
	path := filepath.Join(dir, name)
	b, _ := json.MarshalIndent(rec, "", " ")
	tmp := path + ".tmp"
	if os.WriteFile(tmp, b, 0o644) == nil {
		os.Rename(tmp, path)
	}
	if r.violKinds[slot] == 0 {
		r.violations = append(r.violations, path)
	}
	r.violKinds[slot]++
	return path
}

// InFlight writes the case about to be executed, so that a crash or hang of the
// whole process can be attributed (write-ahead). Call Landed afterwards.
func (r *Rec) InFlight(plan any) {
	pb, _ := json.Marshal(plan)
	rec := ViolationRecord{
		Property: r.Env.ID, Job: r.Env.Job, Kind: "process-died-or-hung",
		Detail: "the test process did not survive this case", Seed: r.Env.Seed, Shard: r.Env.Shard, Plan: pb,
	}
	os.MkdirAll(r.Env.OutDir, 0o755)
	b, _ := json.Marshal(rec)
	os.WriteFile(r.inflightPath(), b, 0o644)
}

func (r *Rec) inflightPath() string {
	return filepath.Join(r.Env.OutDir, fmt.Sprintf("inflight-%s-%d.json", r.Env.Job, r.Env.Shard))
}

// Landed removes the write-ahead record.
func (r *Rec) Landed() { os.Remove(r.inflightPath()) }

// ShardResult is the per-process file the driver merges.
type ShardResult struct {
	Property      string            `json:"property"`
	Job           string            `json:"job"`
	Shard         int               `json:"shard"`
	Completed     bool              `json:"completed"`
	Evaluations   int64             `json:"evaluations"`
	EnumDistinct  int64             `json:"enum_distinct"`
	HashFile      string            `json:"hash_file"`
	HashOverflow  bool              `json:"hash_overflow"`
	Classes       map[string]int64  `json:"classes"`
	Samples       []any             `json:"samples"`
	ExcludedKnown map[string]int64  `json:"excluded_known"`
	Inconclusive  map[string]int64  `json:"inconclusive"`
	Skipped       map[string]string `json:"skipped_suboracles"`
	Exhaustive    []string          `json:"exhaustive_subspaces"`
	Violations    []string          `json:"violations"`
	Notes         []string          `json:"notes"`
	WallS         float64           `json:"wall_s"`
}

// Finish writes the shard result. completed=false marks a run that must not count as a pass.
func (r *Rec) Finish(completed bool) {
	r.mu.Lock()
	defer r.mu.Unlock()
	if r.driveOK && len(r.violations) == 0 {
		completed = true
	}
	os.MkdirAll(r.Env.OutDir, 0o755)
	hf := filepath.Join(r.Env.OutDir, fmt.Sprintf("hashes-%s-%d.bin", r.Env.Job, r.Env.Shard))
	hs := make([]uint64, 0, len(r.seen))
	for h := range r.seen {
		hs = append(hs, h)
	}
	sort.Slice(hs, func(i, j int) bool { return hs[i] < hs[j] })
	buf := make([]byte, 8*len(hs))
	for i, h := range hs {
		binary.LittleEndian.PutUint64(buf[8*i:], h)
	}
	os.WriteFile(hf, buf, 0o644)
	var samples []any
	for _, k := range r.sampleOrder {
		samples = append(samples, map[string]any{"class": k, "case": r.samples[k]})
	}
	res := ShardResult{
		Property: r.Env.ID, Job: r.Env.Job, Shard: r.Env.Shard, Completed: completed,
		Evaluations: r.evaluations, EnumDistinct: r.enumDistinct, HashFile: hf, HashOverflow: r.seenOverflow,
		Classes: r.classes, Samples: samples, ExcludedKnown: r.excludedKnown,
		Inconclusive: r.inconclusive, Skipped: r.skipped, Exhaustive: r.exhaustive,
		Violations: r.violations, Notes: r.notes, WallS: time.Since(r.start).Seconds(),
	}
	b, _ := json.MarshalIndent(res, "", " ")
	os.WriteFile(filepath.Join(r.Env.OutDir, fmt.Sprintf("result-%s-%d.json", r.Env.Job, r.Env.Shard)), b, 0o644)
}

// LoadReplay reads the plan of a replay file into plan.
func LoadReplay(path string, plan any) (*ViolationRecord, error) {
	b, err := os.ReadFile(path)
	if err != nil {
		return nil, err
	}
	var rec ViolationRecord
	if err := json.Unmarshal(b, &rec); err != nil {
		return nil, err
	}
	if err := json.Unmarshal(rec.Plan, plan); err != nil {
		return nil, fmt.Errorf("plan: %w", err)
	}
	return &rec, nil
}
