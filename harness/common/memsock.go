package common

import (
	"errors"
	"net"
	"sync"
	"time"

	"github.com/vapourismo/knx-go/knx/knxnet"
)

// OutFrame is one frame the client handed to its socket.
type OutFrame struct {
	At    time.Time      // taken on entry of Send
	Done  time.Time      // taken just before Send returns
	Bytes []byte         // what would be on the wire (knxnet.AllocAndPack)
	Svc   knxnet.Service // Bytes decoded again by the library (nil if it does not decode)
	Err   error          // what Send returned to the client
	Seq   int            // index in the outbound log
}

// MemSock is an in-memory knxnet.Socket with the shape of the real ones: Send packs the service and
// "transmits" it (appends it to a log and calls the OnSend hook), inbound frames are handed over by
// one pump goroutine performing blocking sends on the unbuffered Inbound() channel (kernel queue +
// blocking hand-off, as serveUDPSocket does), Close makes the pump's next "read" fail, upon which it
// closes Inbound() - but, as with the real receivers, not while it is blocked handing a frame over.
//
// It must be created inside the synctest bubble when virtual time is used.
type MemSock struct {
	Local net.Addr

	// OnSend is called synchronously from Send (in the client's goroutine) after the frame has
	// been logged; it is where a reactive gateway lives. It returns the error Send shall report.
	OnSend func(f *OutFrame) error
	// OnDelivered is called by the pump after the client has taken a frame from Inbound().
	OnDelivered func(s knxnet.Service)

	mu            sync.Mutex
	out           []*OutFrame
	queue         []knxnet.Service
	wake          chan struct{}
	inbound       chan knxnet.Service
	closed        chan struct{}
	once          sync.Once
	pumped        chan struct{}
	nClose        int
	handing       int // 1 while the pump is blocked handing a frame to the client
	inboundClosed bool
}

// ErrMemSockClosed is returned by Send after Close.
var ErrMemSockClosed = errors.New("memsock: use of closed socket")

// NewMemSock creates the socket and starts its pump.
func NewMemSock(local net.Addr) *MemSock { return NewMemSockBuffered(local, 0) }

// NewMemSockBuffered is NewMemSock with an Inbound() channel that holds up to n frames (a socket implementation may
// read ahead: the Socket interface says nothing about buffering). A frame counts as taken when it enters the channel.
func NewMemSockBuffered(local net.Addr, n int) *MemSock {
	s := &MemSock{
		Local:   local,
		wake:    make(chan struct{}, 1),
		inbound: make(chan knxnet.Service, n),
		closed:  make(chan struct{}),
		pumped:  make(chan struct{}),
	}
	go s.pump()
	return s
}

func (s *MemSock) pump() {
	defer close(s.pumped)
	defer func() {
		s.mu.Lock()
		s.inboundClosed = true
		close(s.inbound)
		s.mu.Unlock()
	}()
	for {
		s.mu.Lock()
		var next knxnet.Service
		have := len(s.queue) > 0
		if have {
			next = s.queue[0]
			s.queue = s.queue[1:]
			s.handing = 1
		}
		s.mu.Unlock()
		if !have {
			select {
			case <-s.wake:
				continue
			case <-s.closed:
				return
			}
		}
		// Like the real receivers: once a frame has been read it is handed over with a plain blocking
		// send. Closing the socket does not release a receiver that is blocked here - only a reader does.
		s.inbound <- next
		s.mu.Lock()
		s.handing = 0
		s.mu.Unlock()
		if s.OnDelivered != nil {
			s.OnDelivered(next)
		}
	}
}

// Inject queues a frame for the client (FIFO).
func (s *MemSock) Inject(svc knxnet.Service) {
	s.mu.Lock()
	s.queue = append(s.queue, svc)
	s.mu.Unlock()
	select {
	case s.wake <- struct{}{}:
	default:
	}
}

// InjectDirect is Inject for a socket that reads ahead (NewMemSockBuffered): if nothing is queued in front of it, the
// frame goes straight into the Inbound() channel's buffer - it is there when the caller returns, as a frame that sits
// in a kernel buffer is there when the client looks next. Order is preserved.
func (s *MemSock) InjectDirect(svc knxnet.Service) {
	s.mu.Lock()
	if s.inboundClosed {
		s.mu.Unlock()
		return
	}
	if len(s.queue) == 0 && s.handing == 0 {
		select {
		case s.inbound <- svc:
			s.mu.Unlock()
			if s.OnDelivered != nil {
				s.OnDelivered(svc)
			}
			return
		default:
		}
	}
	s.queue = append(s.queue, svc)
	s.mu.Unlock()
	select {
	case s.wake <- struct{}{}:
	default:
	}
}

// Pending returns the number of injected frames the client has not taken yet.
func (s *MemSock) Pending() int {
	s.mu.Lock()
	defer s.mu.Unlock()
	return len(s.queue)
}

// Untaken returns the number of injected frames the client has not taken, the one the pump is trying to hand over
// included.
func (s *MemSock) Untaken() int {
	s.mu.Lock()
	defer s.mu.Unlock()
	return len(s.queue) + s.handing
}

// Send implements knxnet.Socket.
func (s *MemSock) Send(payload knxnet.ServicePackable) error {
	f := &OutFrame{At: time.Now()}
	select {
	case <-s.closed:
		f.Err = ErrMemSockClosed
		f.Done = time.Now()
		return f.Err
	default:
	}
	f.Bytes = knxnet.AllocAndPack(payload)
	var svc knxnet.Service
	if _, err := knxnet.Unpack(f.Bytes, &svc); err == nil {
		f.Svc = svc
	}
	s.mu.Lock()
	f.Seq = len(s.out)
	s.out = append(s.out, f)
	s.mu.Unlock()
	if s.OnSend != nil {
		f.Err = s.OnSend(f)
	}
	f.Done = time.Now()
	return f.Err
}

// Out returns a copy of the outbound log.
func (s *MemSock) Out() []*OutFrame {
	s.mu.Lock()
	defer s.mu.Unlock()
	return append([]*OutFrame{}, s.out...)
}

// Inbound implements knxnet.Socket.
func (s *MemSock) Inbound() <-chan knxnet.Service { return s.inbound }

// Close implements knxnet.Socket.
func (s *MemSock) Close() error {
	s.mu.Lock()
	s.nClose++
	s.mu.Unlock()
	s.once.Do(func() { close(s.closed) })
	return nil
}

// Closed reports whether Close has been called.
func (s *MemSock) Closed() bool {
	select {
	case <-s.closed:
		return true
	default:
		return false
	}
}

// PumpDone is closed when the pump goroutine has exited (Inbound() is closed then).
func (s *MemSock) PumpDone() <-chan struct{} { return s.pumped }

// LocalAddr implements knxnet.Socket.
func (s *MemSock) LocalAddr() net.Addr {
	if s.Local == nil {
		return &net.UDPAddr{IP: net.IPv4(127, 0, 0, 1), Port: 40000}
	}
	return s.Local
}
