module verif/harness

go 1.23

require (
	github.com/vapourismo/knx-go v0.0.0
	golang.org/x/net v0.23.0
	pgregory.net/rapid v1.3.0
)

require (
	golang.org/x/sys v0.18.0 // indirect
	golang.org/x/text v0.14.0 // indirect
)

replace github.com/vapourismo/knx-go => /repo
