package dptc

import (
	"context"
	"encoding/json"
	"fmt"
	"os"
	"os/exec"
	"sort"
	"strings"
	"testing"
	"time"

	"verif/harness/common"
)

// Decoding order across types: "decoding into one instance never changes what another instance or a later call yields"
// - also when the other instance is of ANOTHER type that happens to decode the same octets (two text types, two
// scalings of one format). Two fresh child processes decode the same payloads into all types of each wire length, one
// in listing order, one in reverse; what a type yields for a payload (rendering, unit, re-encoding) must be the same in
// both processes. State shared between types (an interning table keyed by the raw octets, a scratch value) shows as a
// difference; neither process needs to know what the right answer is.

func orderPayloads(ti typeInfo) [][]byte {
	ps := coldPayloads(ti)
	n := ti.WireL
	if n == 15 { // text types: high-bit characters, a 0x80 in the middle
		ps = append(ps, append([]byte{0, 'K', 0xfc, 'c', 'h', 'e'}, make([]byte, 9)...), append([]byte{0, 'a', 'b', 0x80, 'c', 'd'}, make([]byte, 9)...),
			append([]byte{0, 'G', 0xe4, 's', 't', 'e'}, make([]byte, 9)...))
	}
	return ps
}

// TestC19OrderChild: body of one child (VERIF_C19_ORDER=fwd|rev): prints a JSON map "type|payload" -> result.
func TestC19OrderChild(t *testing.T) {
	order := os.Getenv("VERIF_C19_ORDER")
	if order == "" {
		t.Skip("child of the decoding-order check")
	}
	types := allTypes()
	byLen := map[int][]typeInfo{}
	var lens []int
	for _, ti := range types {
		if len(byLen[ti.WireL]) == 0 {
			lens = append(lens, ti.WireL)
		}
		byLen[ti.WireL] = append(byLen[ti.WireL], ti)
	}
	sort.Ints(lens)
	out := map[string]string{}
	for _, l := range lens {
		group := append([]typeInfo{}, byLen[l]...)
		if order == "rev" {
			for i, j := 0, len(group)-1; i < j; i, j = i+1, j-1 {
				group[i], group[j] = group[j], group[i]
			}
		}
		// the payload set of the group: the union of every member's payloads (same wire length)
		seen := map[string]bool{}
		var ps [][]byte
		for _, ti := range byLen[l] {
			for _, p := range orderPayloads(ti) {
				if !seen[string(p)] {
					seen[string(p)] = true
					ps = append(ps, p)
				}
			}
		}
		for _, p := range ps {
			for _, ti := range group {
				out[fmt.Sprintf("%s|%x", ti.Name, p)] = coldRender(ti, p)
			}
		}
	}
	b, _ := json.Marshal(out)
	fmt.Printf("ORDER-RESULT:%s\n", b)
}

func c19OrderCheck() (*common.Fail, int) {
	run := func(order string) (map[string]string, string) {
		ctx, cancel := context.WithTimeout(context.Background(), 3*time.Minute)
		defer cancel()
		cmd := exec.CommandContext(ctx, os.Args[0], "-test.run", "^TestC19OrderChild$", "-test.count", "1")
		cmd.Env = append(os.Environ(), "VERIF_C19_ORDER="+order)
		outb, err := cmd.CombinedOutput()
		if ctx.Err() != nil {
			return nil, "timeout"
		}
		s := string(outb)
		i := strings.Index(s, "ORDER-RESULT:")
		if i < 0 {
			tail := s
			if len(tail) > 500 {
				tail = tail[len(tail)-500:]
			}
			return nil, fmt.Sprintf("child failed (%v): %s", err, tail)
		}
		s = s[i+len("ORDER-RESULT:"):]
		if j := strings.IndexByte(s, '\n'); j >= 0 {
			s = s[:j]
		}
		m := map[string]string{}
		if err := json.Unmarshal([]byte(s), &m); err != nil {
			return nil, "unreadable child output: " + err.Error()
		}
		return m, ""
	}
	fwd, e1 := run("fwd")
	rev, e2 := run("rev")
	if e1 == "timeout" || e2 == "timeout" {
		return nil, 0
	}
	if e1 != "" || e2 != "" {
		return common.Failf("order-child", "the decoding-order children went wrong: fwd: %s; rev: %s", e1, e2), 0
	}
	var keys []string
	for k := range fwd {
		keys = append(keys, k)
	}
	sort.Strings(keys)
	for _, k := range keys {
		if fwd[k] != rev[k] {
			return common.Failf("depends-on-other-type", "%s (type|payload): a process that decodes each payload into the types of its wire length in listing order gets %q, a process that does so in reverse order gets %q - what one type's instance yields depends on what was decoded into another type's instance before", k, fwd[k], rev[k]), len(keys)
		}
	}
	return nil, len(keys)
}
