package dptc

import (
	"testing"
)

// FuzzDPTUnpack is the native coverage-guided target of C08 (thorough tier) with C06's oracle on
// top: the first two bytes select the registered type, the rest is the payload. Totality, length
// rejection, the independent range predicates and String()/Unit() are judged by c08Check; every
// accepted payload must also survive decode -> encode -> decode unchanged (c06Check).
func FuzzDPTUnpack(f *testing.F) {
	types := allTypes()
	for i, ti := range types {
		n := ti.WireL
		if n <= 0 {
			n = 4
		}
		for _, fill := range []byte{0x00, 0xff, 0x7f} {
			p := make([]byte, 2+n)
			p[0], p[1] = byte(i>>8), byte(i)
			for k := 2; k < len(p); k++ {
				p[k] = fill
			}
			p[2] = 0
			f.Add(p)
		}
		f.Add([]byte{byte(i >> 8), byte(i)})
	}
	f.Fuzz(func(t *testing.T, in []byte) {
		if len(in) < 2 {
			return
		}
		ti := types[(int(in[0])<<8|int(in[1]))%len(types)]
		p := in[2:]
		if _, fail := c08Check(ti, produce(ti.Name), p); fail != nil {
			t.Fatalf("%s: %s", fail.Kind, fail.Detail)
		}
		func() {
			defer func() {
				if r := recover(); r != nil {
					t.Fatalf("panic: %s payload %x: %v", ti.Name, p, r)
				}
			}()
			if _, fail := c06Check(ti, produce(ti.Name), produce(ti.Name), p); fail != nil {
				t.Fatalf("%s: %s", fail.Kind, fail.Detail)
			}
		}()
	})
}
