package dptc

import (
	"bytes"
	"context"
	"fmt"
	"go/ast"
	"go/parser"
	"go/token"
	"math/big"
	"os"
	"os/exec"
	"path/filepath"
	"reflect"
	"regexp"
	"sort"
	"strings"
	"sync"
	"sync/atomic"
	"testing"
	"time"

	"github.com/vapourismo/knx-go/knx/dpt"
	"pgregory.net/rapid"
	"verif/harness/common"
)

// c19Op is one step of a registry history.
type c19Op struct {
	Op   string `json:"op"`             // "produce" | "unpack" | "check" | "lookup"
	Name string `json:"name,omitempty"` // produce / lookup
	H    int    `json:"h,omitempty"`    // unpack: handle index (mod number of live handles)
	Hex  string `json:"hex,omitempty"`  // unpack: payload
}

// c19Plan: mode "static" (the registry laws over all names / the package source), "lookup" (one
// arbitrary string), "history" (one goroutine), "concurrent" (G goroutines, one op list each), "hammer" (G goroutines
// producing back to back) or "storm" (G goroutines decoding back to back into their own instances).
type c19Plan struct {
	Mode string    `json:"mode"`
	Name string    `json:"name,omitempty"`
	Ops  [][]c19Op `json:"ops,omitempty"`
}

var nameRe = regexp.MustCompile(`^[0-9]+\.[0-9]{3}$`)

func repoDir() string {
	if d := os.Getenv("VERIF_REPO"); d != "" {
		return d
	}
	return "/repo"
}

// declaredDPTTypes parses the package source and returns every exported type named DPT_*.
func declaredDPTTypes() ([]string, error) {
	dir := filepath.Join(repoDir(), "knx", "dpt")
	fset := token.NewFileSet()
	pkgs, err := parser.ParseDir(fset, dir, func(fi os.FileInfo) bool { return !strings.HasSuffix(fi.Name(), "_test.go") }, 0)
	if err != nil {
		return nil, err
	}
	var out []string
	for _, p := range pkgs {
		for _, f := range p.Files {
			for _, d := range f.Decls {
				gd, ok := d.(*ast.GenDecl)
				if !ok || gd.Tok != token.TYPE {
					continue
				}
				for _, s := range gd.Specs {
					ts := s.(*ast.TypeSpec)
					if strings.HasPrefix(ts.Name.Name, "DPT_") && ts.Name.IsExported() {
						out = append(out, ts.Name.Name)
					}
				}
			}
		}
	}
	sort.Strings(out)
	return out, nil
}

var c19Aliases int

func first(l []string) string {
	if len(l) == 0 {
		return ""
	}
	return l[0]
}

// c19Static returns every violated registry law (several findings are possible at once).
func c19Static() []*common.Fail {
	var fails []*common.Fail
	names := dpt.ListSupportedTypes()
	seen := map[string]bool{}
	typeOf := map[string]string{} // Go type name -> registry name
	for _, n := range names {
		if seen[n] {
			fails = append(fails, common.Failf("name-duplicate", "name %q is listed twice", n))
		}
		seen[n] = true
		if !nameRe.MatchString(n) {
			f := common.Failf("name-format", "listed name %q does not have the form main.sub with a three-digit sub-number", n)
			if n == "14.1200" {
				f.Known = "four-digit-subnumber"
			}
			fails = append(fails, f)
		}
		d, ok := dpt.Produce(n)
		if !ok || d == nil || reflect.ValueOf(d).Kind() != reflect.Ptr || reflect.ValueOf(d).IsNil() {
			fails = append(fails, common.Failf("not-producible", "listed name %q cannot be produced (ok=%v value=%v)", n, ok, d))
			continue
		}
		tn := reflect.TypeOf(d).Elem().Name()
		want := "DPT_" + strings.ReplaceAll(n, ".", "")
		if tn != want {
			fails = append(fails, common.Failf("wrong-type", "name %q yields a %s, expected the type bearing that number (%s)", n, tn, want))
		}
		if prev, dup := typeOf[tn]; dup {
			fails = append(fails, common.Failf("wrong-type", "names %q and %q both yield %s", prev, n, tn))
		}
		typeOf[tn] = n
		if !deref(d).IsZero() {
			fails = append(fails, common.Failf("not-zero", "Produce(%q) yields the non-zero value %s", n, showDP(d)))
		}
	}
	// the listing handed out belongs to the caller: filtering or overwriting it in place must not change what the
	// registry lists afterwards
	before := append([]string{}, names...)
	sort.Strings(before)
	for i := range names {
		names[i] = "no.such"
	}
	_ = append(names[:0], "0.000")
	after := append([]string{}, dpt.ListSupportedTypes()...)
	sort.Strings(after)
	if !reflect.DeepEqual(before, after) {
		fails = append(fails, common.Failf("listing-shared", "after a caller overwrote the slice ListSupportedTypes() had returned, the next call lists %d names (first %q) instead of the %d registered ones (first %q): the listing aliases registry state",
			len(after), first(after), len(before), first(before)))
	}
	// numeric aliases of registered names: (main-k).(sub + k*M) for the moduli a packed or narrowed key would use.
	// Such a name is well-formed and spelled canonically, and it is not registered (unless the listing says so)
	nAlias := 0
	for n := range seen {
		var main, sub int
		if _, err := fmt.Sscanf(n, "%d.%d", &main, &sub); err != nil {
			continue
		}
		// the main number beyond the width a parsed key would have: main + k * 2^8 / 2^16 / 2^32 / 2^64 with the same sub
		subText := n[strings.Index(n, ".")+1:]
		for _, sh := range []uint{8, 16, 31, 32, 63, 64} {
			for k := int64(1); k <= 2; k++ {
				wide := new(big.Int).Lsh(big.NewInt(k), sh)
				wide.Add(wide, big.NewInt(int64(main)))
				alias := wide.String() + "." + subText
				nAlias++
				if seen[alias] {
					continue
				}
				if f := c19Lookup(alias); f != nil && len(fails) < 20 {
					f.Detail += fmt.Sprintf(" [the registered name %q with %d * 2^%d added to its main number]", n, k, sh)
					fails = append(fails, f)
				}
			}
		}
		for _, m := range []int{100, 256, 1000, 4096, 10000, 65536, 100000} {
			for k := 1; k <= 6 && main-k >= 0; k++ {
				alias := fmt.Sprintf("%d.%03d", main-k, sub+k*m)
				nAlias++
				if f := c19Lookup(alias); f != nil && len(fails) < 20 {
					f.Detail += fmt.Sprintf(" [numeric alias of the registered name %q: main-%d, sub+%d*%d]", n, k, k, m)
					fails = append(fails, f)
				}
			}
		}
	}
	// decorated spellings of registered names: the name with something in front of it, behind it or in place of its dot
	// - padding a fixed-width record or a C buffer leaves (NUL, blanks), line ends, byte order marks, quotes, signs,
	// other digit scripts, a changed case of nothing (names have no letters). None of them is registered.
	pre := []string{"\x00", " ", "\t", "\n", "\ufeff", "\u00a0", "+", "-", "0", "00", "\"", "'", "DPT", "DPT_", "DPT-", "dpt", "DPST-"}
	post := []string{"\x00", "\x00\x00", "\x00\x00\x00", " ", "  ", "\t", "\n", "\r\n", "\ufeff", "\u00a0", ".", ".0", ".000", "/", ";", ",", "\"", "'", "a", "\xff", "\u200b", "_", "-", "e0"}
	for n := range seen {
		var decorated []string
		for _, p := range pre {
			decorated = append(decorated, p+n)
		}
		for _, q := range post {
			decorated = append(decorated, n+q)
		}
		dot := strings.Index(n, ".")
		for _, sep := range []string{"", ",", ":", "/", "-", "_", " ", "..", "\u2024", "\uff0e", ".\x00", "\x00."} {
			decorated = append(decorated, n[:dot]+sep+n[dot+1:])
		}
		decorated = append(decorated, "\""+n+"\"", "'"+n+"'", "["+n+"]", " "+n+" ", n+n, strings.Map(func(r rune) rune {
			if r >= '0' && r <= '9' {
				return r - '0' + 0xff10 // full-width digits
			}
			return r
		}, n))
		for _, d := range decorated {
			nAlias++
			if seen[d] {
				continue
			}
			if f := c19Lookup(d); f != nil && len(fails) < 20 {
				f.Detail += fmt.Sprintf(" [decorated spelling %q of the registered name %q]", d, n)
				fails = append(fails, f)
			}
		}
	}
	c19Aliases = nAlias
	decl, err := declaredDPTTypes()
	if err != nil {
		fails = append(fails, common.Failf("source-unreadable", "cannot parse the package source: %v", err))
	}
	for _, tn := range decl {
		if _, ok := typeOf[tn]; !ok {
			fails = append(fails, common.Failf("unreachable-type", "exported datapoint type %s is declared in the package but no registry name yields it", tn))
		}
	}
	return fails
}

func c19Lookup(name string) *common.Fail {
	listed := false
	for _, n := range dpt.ListSupportedTypes() {
		if n == name {
			listed = true
		}
	}
	d, ok := dpt.Produce(name)
	if listed {
		if !ok || d == nil {
			return common.Failf("not-producible", "listed name %q cannot be produced", name)
		}
		return nil
	}
	if ok || d != nil {
		return common.Failf("unknown-accepted", "Produce(%q) reports ok=%v value=%v for a name the registry does not list", name, ok, d)
	}
	return nil
}

type c19Handle struct {
	name string
	d    dpt.Datapoint
	want reflect.Value // private copy of the value the handle must hold
	// enc is the slice the handle's last Pack() returned, encCopy a private copy taken at that moment: an encoding
	// handed out belongs to the caller and must not change when another instance is encoded or decoded later
	enc, encCopy []byte
}

func snapshot(d dpt.Datapoint) reflect.Value {
	c := reflect.New(deref(d).Type()).Elem()
	c.Set(deref(d))
	ownMemory(c)
	return c
}

// ownMemory gives a copied value its own backing memory (texts, slices): a snapshot that still pointed into memory the
// original shares with somebody else would change together with it.
func ownMemory(v reflect.Value) {
	switch v.Kind() {
	case reflect.String:
		if v.CanSet() {
			v.SetString(strings.Clone(v.String()))
		}
	case reflect.Slice:
		if v.CanSet() && !v.IsNil() {
			n := reflect.MakeSlice(v.Type(), v.Len(), v.Len())
			reflect.Copy(n, v)
			v.Set(n)
			for i := 0; i < v.Len(); i++ {
				ownMemory(v.Index(i))
			}
		}
	case reflect.Struct:
		for i := 0; i < v.NumField(); i++ {
			ownMemory(v.Field(i))
		}
	case reflect.Array:
		for i := 0; i < v.Len(); i++ {
			ownMemory(v.Index(i))
		}
	}
}

func valEqual(a, b reflect.Value) bool {
	if a.Kind() == reflect.Float32 {
		return a.Float() == b.Float() || (a.Float() != a.Float() && b.Float() != b.Float())
	}
	return reflect.DeepEqual(a.Interface(), b.Interface())
}

// c19History runs one op list; all handles are private to the caller. addrs collects every pointer
// handed out (shared between goroutines under mu) to detect an instance handed out twice.
type c19Addr struct {
	who string
	d   dpt.Datapoint // keeps the instance alive so that its address cannot be reused within the run
}

func c19History(ops []c19Op, addrs map[uintptr]c19Addr, mu *sync.Mutex, who string) *common.Fail {
	var hs []*c19Handle
	var rx []byte
	checkAll := func(after string) *common.Fail {
		for i, h := range hs {
			if !valEqual(deref(h.d), h.want) {
				return common.Failf("instance-changed", "%s: after %s, handle #%d (%s) holds %#v but nothing was decoded into it since it held %#v",
					who, after, i, h.name, deref(h.d).Interface(), h.want.Interface())
			}
			if !bytes.Equal(h.enc, h.encCopy) {
				return common.Failf("shared-encoding-buffer", "%s: after %s, the bytes an earlier Pack() of handle #%d (%s) returned changed from %x to %x: encodings of different instances share memory",
					who, after, i, h.name, h.encCopy, h.enc)
			}
		}
		return nil
	}
	for k, op := range ops {
		what := fmt.Sprintf("step %d %s", k, op.Op)
		switch op.Op {
		case "produce":
			d, ok := dpt.Produce(op.Name)
			if !ok || d == nil {
				if f := c19Lookup(op.Name); f != nil {
					return f
				}
				continue
			}
			if tn, want := reflect.TypeOf(d).Elem().Name(), "DPT_"+strings.ReplaceAll(op.Name, ".", ""); tn != want {
				return common.Failf("wrong-type", "%s: Produce(%q) at %s yields a %s, expected the type bearing that number (%s)", who, op.Name, what, tn, want)
			}
			if !deref(d).IsZero() {
				return common.Failf("not-zero", "%s: Produce(%q) at %s yields the non-zero value %s (state leaked from an earlier instance)", who, op.Name, what, showDP(d))
			}
			ptr := reflect.ValueOf(d).Pointer()
			// zero-size values may legitimately share an address; no DPT is zero-sized
			mu.Lock()
			prev, dup := addrs[ptr]
			addrs[ptr] = c19Addr{who + " " + what, d}
			mu.Unlock()
			if dup && deref(d).Type().Size() > 0 {
				return common.Failf("shared-instance", "%s: Produce(%q) at %s returned the same instance as %s", who, op.Name, what, prev.who)
			}
			hs = append(hs, &c19Handle{name: op.Name, d: d, want: snapshot(d)})
		case "unpack":
			if len(hs) == 0 {
				continue
			}
			h := hs[((op.H%len(hs))+len(hs))%len(hs)]
			before := snapshot(h.d)
			// every history decodes out of its one receive buffer, as a receive loop does: what an instance holds must
			// not change when the buffer receives the next payload (for another instance, or garbage)
			pl := unhx(op.Hex)
			if cap(rx) < len(pl) {
				rx = make([]byte, len(pl), len(pl)+64)
			}
			rx = rx[:len(pl)]
			copy(rx, pl)
			if err := h.d.Unpack(rx); err != nil {
				// a failed decode may leave the target partially written (not part of this property): resync
				_ = before
			}
			h.want = snapshot(h.d)
			for i := range rx {
				rx[i] ^= 0x5a
			}
			h.enc = h.d.Pack()
			h.encCopy = append([]byte{}, h.enc...)
			what += fmt.Sprintf(" into %s", h.name)
		case "lookup":
			if f := c19Lookup(op.Name); f != nil {
				return f
			}
		}
		if f := checkAll(what); f != nil {
			return f
		}
	}
	return checkAll("the whole history")
}

func c19Run(p c19Plan) *common.Fail {
	switch p.Mode {
	case "static":
		for _, f := range c19Static() {
			if f.Known == "" {
				return f
			}
		}
		for _, f := range c19Static() {
			return f // only known ones left
		}
	case "cold-start":
		f, _ := c19ColdStarts(60)
		return f
	case "decoding-order":
		f, _ := c19OrderCheck()
		return f
	case "lookup":
		return c19Lookup(p.Name)
	case "hammer":
		// G goroutines ask for (different) names back to back; every answer must be a fresh zero value of the named type
		names := p.Ops[0]
		g := len(p.Ops) - 1
		n := 0
		if g > 0 && len(p.Ops[1]) > 0 {
			n = p.Ops[1][0].H
		}
		res := make([]*common.Fail, g)
		var wg sync.WaitGroup
		start := make(chan struct{})
		for k := 0; k < g; k++ {
			wg.Add(1)
			go func(k int) {
				defer wg.Done()
				<-start
				res[k] = common.Guard(func() *common.Fail {
					for i := 0; i < n; i++ {
						name := names[(i*7+k*3)%len(names)].Name
						d, ok := dpt.Produce(name)
						if !ok || d == nil {
							return common.Failf("not-producible", "g%d: Produce(%q) failed under concurrency (call %d)", k, name, i)
						}
						if tn, want := reflect.TypeOf(d).Elem().Name(), "DPT_"+strings.ReplaceAll(name, ".", ""); tn != want {
							return common.Failf("wrong-type", "g%d: call %d: Produce(%q) yields a %s while %d goroutines ask for %d different names concurrently", k, i, name, tn, g, len(names))
						}
						if !deref(d).IsZero() {
							return common.Failf("not-zero", "g%d: call %d: Produce(%q) yields the non-zero value %s", k, i, name, showDP(d))
						}
						if i%64 == 0 && deref(d).CanSet() && deref(d).Kind() == reflect.Uint8 {
							deref(d).SetUint(0xaa) // dirty the instance: nobody else may ever see it
						}
					}
					return nil
				})
			}(k)
		}
		close(start)
		wg.Wait()
		for _, f := range res {
			if f != nil {
				return f
			}
		}
	case "storm":
		// G goroutines, each with its own instance, decode their own payloads over and over; what an instance holds
		// after decoding payload P must be what a decode of P into a fresh instance yields when nothing else runs
		// (op list of goroutine g: one produce, then its payloads; the repeat count rides in the produce's H)
		type want struct {
			ok   bool
			val  reflect.Value
			pack []byte
			str  string
		}
		wants := make([][]want, len(p.Ops))
		for g, ops := range p.Ops {
			for _, op := range ops[1:] {
				d, ok := dpt.Produce(ops[0].Name)
				if !ok {
					return c19Lookup(ops[0].Name)
				}
				err := d.Unpack(unhx(op.Hex))
				w := want{ok: err == nil, val: snapshot(d)}
				if err == nil {
					w.pack, w.str = append([]byte{}, d.Pack()...), d.String()
				}
				wants[g] = append(wants[g], w)
			}
		}
		res := make([]*common.Fail, len(p.Ops))
		var wg sync.WaitGroup
		start := make(chan struct{})
		for g := range p.Ops {
			wg.Add(1)
			go func(g int) {
				defer wg.Done()
				ops := p.Ops[g]
				d, _ := dpt.Produce(ops[0].Name)
				pls := make([][]byte, len(ops)-1)
				for j := range pls {
					pls[j] = unhx(ops[j+1].Hex)
				}
				<-start
				res[g] = common.Guard(func() *common.Fail {
					for r := 0; r < ops[0].H; r++ {
						for j, pl := range pls {
							err := d.Unpack(pl)
							w := wants[g][j]
							if (err == nil) != w.ok {
								return common.Failf("decode-interference", "g%d (%s): round %d: decoding %x %s while %d other goroutines decode into their own instances; alone it %s",
									g, ops[0].Name, r, pl, map[bool]string{true: "succeeds", false: "fails"}[err == nil], len(p.Ops)-1, map[bool]string{true: "succeeds", false: "fails"}[w.ok])
							}
							if err == nil && !valEqual(deref(d), w.val) {
								return common.Failf("decode-interference", "g%d (%s): round %d: decoding %x yields %v while %d other goroutines decode into their own instances; alone it yields %v",
									g, ops[0].Name, r, pl, deref(d).Interface(), len(p.Ops)-1, w.val.Interface())
							}
							if err == nil {
								// encoding and rendering the private instance while the others do the same with theirs
								if pk := d.Pack(); !bytes.Equal(pk, w.pack) {
									return common.Failf("encode-interference", "g%d (%s): round %d: encoding %v gives %x while %d other goroutines encode their own instances; alone it gives %x",
										g, ops[0].Name, r, deref(d).Interface(), pk, len(p.Ops)-1, w.pack)
								}
								if st := d.String(); st != w.str {
									return common.Failf("encode-interference", "g%d (%s): round %d: String() of %v gives %q while %d other goroutines render their own instances; alone it gives %q",
										g, ops[0].Name, r, deref(d).Interface(), st, len(p.Ops)-1, w.str)
								}
							}
						}
					}
					return nil
				})
			}(g)
		}
		close(start)
		wg.Wait()
		for _, f := range res {
			if f != nil {
				return f
			}
		}
	case "history", "concurrent":
		addrs := map[uintptr]c19Addr{}
		var mu sync.Mutex
		if len(p.Ops) == 1 {
			return c19History(p.Ops[0], addrs, &mu, "g0")
		}
		res := make([]*common.Fail, len(p.Ops))
		var wg sync.WaitGroup
		start := make(chan struct{})
		for g := range p.Ops {
			wg.Add(1)
			go func(g int) {
				defer wg.Done()
				<-start
				res[g] = common.Guard(func() *common.Fail { return c19History(p.Ops[g], addrs, &mu, fmt.Sprintf("g%d", g)) })
			}(g)
		}
		close(start)
		wg.Wait()
		for _, f := range res {
			if f != nil {
				return f
			}
		}
	}
	return nil
}

// TestC19ColdChild is the body of one cold-start process (see c19ColdStarts): the very first Produce calls of the
// process come from 16 goroutines that leave a spin barrier together; each asks for every listed name. It does
// nothing unless VERIF_C19_COLD is set.
func TestC19ColdChild(t *testing.T) {
	if os.Getenv("VERIF_C19_COLD") == "" {
		t.Skip("child of the cold-start check")
	}
	const g = 16
	var ready, bad int32
	var wg sync.WaitGroup
	msgs := make([]string, g)
	lists := make([][]string, g)
	for k := 0; k < g; k++ {
		wg.Add(1)
		go func(k int) {
			defer wg.Done()
			atomic.AddInt32(&ready, 1)
			for atomic.LoadInt32(&ready) < g {
			}
			// the first listing of the process is taken by all goroutines at once, too
			names := append([]string{}, dpt.ListSupportedTypes()...)
			sort.Strings(names)
			lists[k] = names
			for i := 1; i < len(names); i++ {
				if names[i] == names[i-1] {
					atomic.AddInt32(&bad, 1)
					msgs[k] = fmt.Sprintf("goroutine %d: the listing names %q twice", k, names[i])
					return
				}
			}
			for i := range names {
				n := names[(i*7+k*11)%len(names)]
				d, ok := dpt.Produce(n)
				if !ok || d == nil {
					atomic.AddInt32(&bad, 1)
					msgs[k] = fmt.Sprintf("goroutine %d: Produce(%q) = (%v, %v) for a listed name", k, n, d, ok)
					return
				}
				if tn, want := reflect.TypeOf(d).Elem().Name(), "DPT_"+strings.ReplaceAll(n, ".", ""); tn != want {
					atomic.AddInt32(&bad, 1)
					msgs[k] = fmt.Sprintf("goroutine %d: Produce(%q) yields a %s", k, n, tn)
					return
				}
			}
		}(k)
	}
	wg.Wait()
	for k := 1; k < g && bad == 0; k++ {
		if !reflect.DeepEqual(lists[k], lists[0]) {
			bad++
			msgs[k] = fmt.Sprintf("goroutines 0 and %d were given different listings (%d and %d names)", k, len(lists[0]), len(lists[k]))
		}
	}
	if later := append([]string{}, dpt.ListSupportedTypes()...); bad == 0 {
		sort.Strings(later)
		if !reflect.DeepEqual(later, lists[0]) {
			bad++
			msgs[0] = fmt.Sprintf("a later, quiet call lists %d names, the concurrent first calls listed %d", len(later), len(lists[0]))
		}
	}
	if bad > 0 {
		for _, m := range msgs {
			if m != "" {
				fmt.Println("COLD-START-FAILURE: " + m)
			}
		}
		os.Exit(7)
	}
}

// c19ColdStarts runs n fresh processes of this test binary, each executing TestC19ColdChild: state that is built
// lazily on first use is only ever built once per process, so "any interleaving of Produce calls" includes the
// interleavings of the first calls, and those can only be sampled one per process.
func c19ColdStarts(n int) (*common.Fail, int) {
	type res struct {
		out string
		err error
	}
	ch := make(chan res, n)
	sem := make(chan struct{}, 6)
	for i := 0; i < n; i++ {
		go func() {
			sem <- struct{}{}
			defer func() { <-sem }()
			ctx, cancel := context.WithTimeout(context.Background(), 2*time.Minute)
			defer cancel()
			cmd := exec.CommandContext(ctx, os.Args[0], "-test.run", "^TestC19ColdChild$", "-test.count", "1")
			cmd.Env = append(os.Environ(), "VERIF_C19_COLD=1")
			out, err := cmd.CombinedOutput()
			ch <- res{string(out), err}
		}()
	}
	var first *common.Fail
	ran := 0
	for i := 0; i < n; i++ {
		r := <-ch
		ran++
		if r.err != nil && first == nil {
			tail := r.out
			if i := strings.Index(tail, "COLD-START-FAILURE"); i >= 0 {
				tail = tail[i:]
			} else if i := strings.Index(tail, "fatal error"); i >= 0 {
				tail = tail[i:]
			}
			if len(tail) > 600 {
				tail = tail[:600]
			}
			first = common.Failf("cold-start", "a fresh process whose first Produce calls come from 16 goroutines at once went wrong (%v): %s", r.err, tail)
		}
	}
	return first, ran
}

func TestC19(t *testing.T) {
	rec := common.NewRec("C19", os.Getenv("VERIF_JOBNAME"))
	if rec.Env.Job == "" {
		rec.Env.Job = "dpt"
	}
	completed := false
	defer func() { rec.Finish(completed) }()
	if rec.Env.Replay != "" {
		common.ReplayOnly(t, rec, c19Run)
		completed = true
		return
	}
	// cold starts first (separate processes; nothing in this one has been produced yet either)
	if rec.Env.Shard == 0 && rec.Env.Job == "dpt" {
		n := 40
		if rec.Env.Thorough() {
			n = 400
		}
		f, ran := c19ColdStarts(n)
		rec.Eval(int64(ran))
		rec.NonTrivialEnum(int64(ran))
		rec.ClassN("cold-start-processes", int64(ran))
		if f != nil {
			common.Report(t, rec, f, c19Plan{Mode: "cold-start"})
		}
	}
	// decoding order across types, in two fresh processes (forward and reverse)
	if rec.Env.Shard == 0 && rec.Env.Job == "dpt" {
		f, n := c19OrderCheck()
		rec.Eval(int64(2 * n))
		rec.NonTrivialEnum(int64(n))
		rec.ClassN("decoding-order children: type x payload results compared", int64(n))
		if f != nil {
			common.Report(t, rec, f, c19Plan{Mode: "decoding-order"})
		}
	}
	types := allTypes()
	names := dpt.ListSupportedTypes()
	sort.Strings(names)

	// static laws over all names and the package source
	if rec.Env.Shard == 0 {
		fails := c19Static()
		decl, _ := declaredDPTTypes()
		rec.Eval(int64(len(names) + len(decl)))
		rec.NonTrivialEnum(int64(len(names) + len(decl)))
		rec.ClassN("static-registered-names", int64(len(names)))
		rec.ClassN("static-declared-types", int64(len(decl)))
		rec.ClassN("static-numeric-aliases", int64(c19Aliases))
		rec.Exhaustive(fmt.Sprintf("all %d registered names and all %d exported DPT_* type declarations of the package source", len(names), len(decl)))
		for _, f := range fails {
			common.Report(t, rec, f, c19Plan{Mode: "static"})
		}
		rec.Sample("static", map[string]any{"registered": len(names), "declared": len(decl), "first": names[0], "last": names[len(names)-1]})
	}

	// storm sweep: every registered type once (the drawn storms pick a main number by type, so a main number with a
	// single type came up once in 1700 plans): 6 goroutines decode, encode and render their own payloads in their own
	// instances of that one type; under the race detector (job race) any state the instances share is reported at the
	// first overlap, without it the values are compared with what the decode yields alone
	for i, name := range names {
		if !rec.Env.Mine(i + 1) {
			continue
		}
		ti, _ := typeByName(name)
		n := ti.WireL
		if n <= 0 {
			n = 9
		}
		var cands [][]byte
		for k := 0; k < 24; k++ {
			p := make([]byte, n)
			for j := 1; j < n; j++ {
				p[j] = byte((k+1)*(j*37+11)) & map[bool]byte{true: 0x7f, false: 0xff}[ti.WireL <= 0]
			}
			if n == 1 {
				p[0] = byte(k*5+1) & 0x3f
			}
			if ti.WireL <= 0 {
				p[n-1] = 0
			}
			if ti.WireL == 7 {
				p[6] &= 0x0f
			}
			cands = append(cands, p)
		}
		var good []string
		for _, p := range cands {
			if d, ok := dpt.Produce(name); ok && d.Unpack(p) == nil && len(good) < 12 {
				good = append(good, hx(p))
			}
		}
		if len(good) < 2 {
			good = append(good, hx(make([]byte, n)), hx(cands[0]))
		}
		reps := 150
		if !(rec.Env.Job == "race") {
			reps = 1500
		}
		plan := c19Plan{Mode: "storm"}
		for g := 0; g < 6; g++ {
			plan.Ops = append(plan.Ops, []c19Op{{Op: "produce", Name: name, H: reps}, {Op: "unpack", Hex: good[(2*g)%len(good)]}, {Op: "unpack", Hex: good[(2*g+1)%len(good)]}})
		}
		rec.Eval(1)
		rec.NonTrivialEnum(1)
		rec.ClassN("storm-sweep-decodes", int64(6*2*reps))
		if f := common.Guard(func() *common.Fail { return c19Run(plan) }); f != nil {
			common.Report(t, rec, f, plan)
		}
	}

	concurrent := rec.Env.Job == "race"
	alpha := []byte{0x00, 0x01, 0x3f, 0x40, 0x7f, 0x80, 0xff}
	genPayload := func(rt *rapid.T, ti typeInfo) string {
		n := ti.WireL
		if n <= 0 {
			n = rapid.IntRange(2, 12).Draw(rt, "len")
		}
		if rapid.IntRange(0, 9).Draw(rt, "badlen") == 0 {
			n = rapid.IntRange(0, 16).Draw(rt, "anylen")
		}
		p := make([]byte, n)
		for i := range p {
			if rapid.Bool().Draw(rt, "how") {
				p[i] = rapid.Byte().Draw(rt, "b")
			} else {
				p[i] = rapid.SampledFrom(alpha).Draw(rt, "a")
			}
		}
		if n > 0 && rapid.IntRange(0, 3).Draw(rt, "lead0") > 0 {
			p[0] = 0
		}
		if ti.WireL == 1 && n == 1 {
			p[0] &= 0x3f
		}
		if ti.WireL == 7 && n == 7 && rapid.Bool().Draw(rt, "flags-ok") {
			p[6] &= 0x0f
		}
		return hx(p)
	}
	nearMiss := func(rt *rapid.T) string {
		base := rapid.SampledFrom(names).Draw(rt, "base")
		switch rapid.IntRange(0, 11).Draw(rt, "miss") {
		case 10:
			return base + strings.Repeat(rapid.SampledFrom([]string{"\x00", " ", "\t", "\n", "\xff"}).Draw(rt, "pad"), rapid.IntRange(1, 4).Draw(rt, "pad-n"))
		case 11:
			return rapid.SampledFrom([]string{"\x00", " ", "\ufeff", "+", "\""}).Draw(rt, "lead") + base
		case 0:
			return strings.TrimRight(base, "0123456789") + strings.TrimLeft(base[strings.Index(base, ".")+1:], "0") // 1.001 -> 1.1
		case 1:
			return base + "0"
		case 2:
			return " " + base
		case 3:
			return base + " "
		case 4:
			return "0" + base
		case 5:
			return strings.Replace(base, ".", ",", 1)
		case 6:
			return strings.Replace(base, ".", "", 1)
		case 7:
			return "DPT_" + strings.Replace(base, ".", "", 1)
		case 8:
			return fmt.Sprintf("%d.%03d", rapid.IntRange(0, 300).Draw(rt, "m"), rapid.IntRange(0, 1300).Draw(rt, "s"))
		}
		return rapid.String().Draw(rt, "free")
	}
	genOps := func(rt *rapid.T, label string, small bool) []c19Op {
		n := rapid.IntRange(2, 40).Draw(rt, label+"-n")
		// few distinct types so that the same name is produced repeatedly
		k := rapid.IntRange(1, 4).Draw(rt, label+"-k")
		pool := make([]typeInfo, k)
		for i := range pool {
			pool[i] = types[rapid.IntRange(0, len(types)-1).Draw(rt, label+"-t")]
		}
		var ops []c19Op
		live := 0
		for i := 0; i < n; i++ {
			c := rapid.IntRange(0, 9).Draw(rt, label+"-op")
			switch {
			case live == 0 || c <= 3:
				ops = append(ops, c19Op{Op: "produce", Name: pool[rapid.IntRange(0, k-1).Draw(rt, label+"-p")].Name})
				live++
			case c <= 8:
				h := rapid.IntRange(0, live-1).Draw(rt, label+"-h")
				// payload fits the handle's type: recompute which type handle h has
				cnt, name := 0, ""
				for _, o := range ops {
					if o.Op == "produce" {
						if cnt == h {
							name = o.Name
						}
						cnt++
					}
				}
				ti, _ := typeByName(name)
				ops = append(ops, c19Op{Op: "unpack", H: h, Hex: genPayload(rt, ti)})
			default:
				ops = append(ops, c19Op{Op: "lookup", Name: nearMiss(rt)})
			}
		}
		return ops
	}
	common.Drive(t, rec, func(rt *rapid.T) c19Plan {
		var plan c19Plan
		switch {
		case rapid.IntRange(0, 9).Draw(rt, "hammer") == 0:
			// ops[0] = the names, ops[1..g] = one (dummy) entry per goroutine carrying the call count
			k := rapid.IntRange(2, 8).Draw(rt, "hammer-names")
			var ns []c19Op
			for i := 0; i < k; i++ {
				ns = append(ns, c19Op{Op: "produce", Name: rapid.SampledFrom(names).Draw(rt, "hname")})
			}
			g := rapid.IntRange(2, 16).Draw(rt, "hammer-goroutines")
			calls := rapid.SampledFrom([]int{2000, 10000, 30000}).Draw(rt, "hammer-calls")
			plan = c19Plan{Mode: "hammer", Ops: [][]c19Op{ns}}
			for i := 0; i < g; i++ {
				plan.Ops = append(plan.Ops, []c19Op{{Op: "calls", H: calls}})
			}
			rec.ClassN("hammer-produce-calls", int64(g*calls))
		case rapid.IntRange(0, 9).Draw(rt, "storm") == 0:
			// goroutines decode into instances of types with the same main number (they share format helpers)
			main := types[rapid.IntRange(0, len(types)-1).Draw(rt, "storm-main")].Main
			if rapid.IntRange(0, 5).Draw(rt, "storm-strings") == 0 {
				main = rapid.SampledFrom([]int{16, 28}).Draw(rt, "storm-string-main")
			}
			var group []typeInfo
			for _, ti := range types {
				if ti.Main == main {
					group = append(group, ti)
				}
			}
			g := rapid.IntRange(2, 12).Draw(rt, "storm-goroutines")
			reps := rapid.SampledFrom([]int{100, 400, 1500}).Draw(rt, "storm-reps")
			plan = c19Plan{Mode: "storm"}
			for i := 0; i < g; i++ {
				ti := group[rapid.IntRange(0, len(group)-1).Draw(rt, "storm-type")]
				ops := []c19Op{{Op: "produce", Name: ti.Name, H: reps}}
				for j := 0; j < rapid.IntRange(1, 3).Draw(rt, "storm-payloads"); j++ {
					ops = append(ops, c19Op{Op: "unpack", Hex: genPayload(rt, ti)})
				}
				plan.Ops = append(plan.Ops, ops)
			}
			rec.Class(fmt.Sprintf("storm-main%03d", main))
			rec.ClassN("storm-decodes", int64(g*reps))
		case concurrent:
			g := rapid.IntRange(2, 16).Draw(rt, "goroutines")
			plan = c19Plan{Mode: "concurrent"}
			// all goroutines hammer the same one or two names
			for i := 0; i < g; i++ {
				plan.Ops = append(plan.Ops, genOps(rt, fmt.Sprintf("g%d", i), true))
			}
			shared := rapid.SampledFrom(names).Draw(rt, "shared")
			for _, ops := range plan.Ops {
				for j := range ops {
					if ops[j].Op == "produce" && rapid.Bool().Draw(rt, "share") {
						ops[j].Name = shared
					}
				}
				// payloads drawn for another type may now be rejected: that is fine (rejected decode = no change expected)
			}
			rec.Class(fmt.Sprintf("concurrent-g%02d", g))
		case rapid.IntRange(0, 4).Draw(rt, "kind") == 0:
			plan = c19Plan{Mode: "lookup", Name: nearMiss(rt)}
			rec.Class("lookup")
		default:
			plan = c19Plan{Mode: "history", Ops: [][]c19Op{genOps(rt, "h", false)}}
			rec.Class("history")
		}
		rec.NonTrivial(common.HashJSON(plan))
		rec.Sample(plan.Mode, plan)
		return plan
	}, c19Run)
	completed = true
}
