package dptc

import (
	"fmt"
	"math"
	"reflect"
	"sort"
	"testing"
	"time"
	"unicode/utf8"

	"github.com/vapourismo/knx-go/knx/dpt"
	"pgregory.net/rapid"
	"verif/harness/common"
)

// c07Plan: one value (or ordered pair of values) to encode with one registered type.
//
//	mode "float":  X (and Y when Pair) are float32 bit patterns
//	mode "int":    I is the Go value of an integer- or bool-typed datapoint (bool: 0/1)
//	mode "fields": F are the fields of a struct-typed datapoint in declaration order
//	mode "string": S
type c07Plan struct {
	Type string  `json:"type"`
	Mode string  `json:"mode"`
	X    uint32  `json:"x,omitempty"`
	Y    uint32  `json:"y,omitempty"`
	Pair bool    `json:"pair,omitempty"`
	I    int64   `json:"i,omitempty"`
	F    []int64 `json:"f,omitempty"`
	S    string  `json:"s,omitempty"`
	// SHex: the string's bytes when they are not well-formed UTF-8 (a Go string is an arbitrary byte sequence: Latin-1
	// bytes cast to string, a string cut inside a multi-byte character); overrides S
	SHex string `json:"s_hex,omitempty"`
	// Zone: the process's local time zone during the case ("" = unchanged)
	Zone string `json:"zone,omitempty"`
}

func typeByName(name string) (typeInfo, bool) {
	for _, t := range allTypes() {
		if t.Name == name {
			return t, true
		}
	}
	return typeInfo{}, false
}

// lengthFail checks the fixed-length clause.
func lengthFail(ti typeInfo, what string, enc []byte) *common.Fail {
	switch {
	case ti.WireL < 0:
		return nil
	case ti.WireL == 1:
		if len(enc) != 1 || enc[0]&0xc0 != 0 {
			return common.Failf("length", "%s %s encodes as %x: a sub-byte type is one byte with the value in its low 6 bits", ti.Name, what, enc)
		}
	case ti.WireL == 0:
		if len(enc) < 2 || enc[0] != 0 {
			return common.Failf("length", "%s %s encodes as %x: expected a zero byte followed by the value octets", ti.Name, what, enc)
		}
	default:
		if len(enc) != ti.WireL || enc[0] != 0 {
			return common.Failf("length", "%s %s encodes as %x: the format prescribes %d bytes starting with a zero byte", ti.Name, what, enc, ti.WireL)
		}
	}
	return nil
}

// encDecFloat encodes x with type ti and decodes the result.
func encDecFloat(ti typeInfo, a, b dpt.Datapoint, x float32) (float32, []byte, *common.Fail) {
	setFloat(a, x)
	enc := packOwned(a)
	what := fmt.Sprintf("value %v (bits %#08x)", x, math.Float32bits(x))
	if f := lengthFail(ti, what, enc); f != nil {
		return 0, enc, f
	}
	if err := b.Unpack(enc); err != nil {
		return 0, enc, common.Failf("self-rejected", "%s %s encodes as %x, which the type's own decoder rejects: %v", ti.Name, what, enc, err)
	}
	return getFloat(b), enc, nil
}

func ulp32(x float64) float64 {
	f := float32(math.Abs(x))
	return float64(math.Nextafter32(f, float32(math.Inf(1))) - f)
}

// c07Float is the oracle for one finite float input (and the ordering clause when hasY).
func c07Float(ti typeInfo, a, b dpt.Datapoint, x float32, y float32, hasY bool) *common.Fail {
	fx := float64(x)
	if math.IsNaN(fx) || math.IsInf(fx, 0) {
		return nil
	}
	dx, encx, f := encDecFloat(ti, a, b, x)
	if f != nil {
		return f
	}
	if ti.WireL == 5 { // IEEE-754: exact
		if math.Float32bits(dx) != math.Float32bits(x) {
			return common.Failf("accuracy", "%s (IEEE-754) value bits %#08x encode as %x and decode as bits %#08x", ti.Name, math.Float32bits(x), encx, math.Float32bits(dx))
		}
	} else if r, ok := rangeOf(ti); ok {
		switch {
		case fx >= r.Lo && fx <= r.Hi:
			tol := r.Step(fx) + 4*ulp32(fx) + 1e-9
			if math.Abs(float64(dx)-fx) > tol {
				return common.Failf("accuracy", "%s: in-range value %v encodes as %x and decodes as %v: off by %g, one step at this magnitude is %g",
					ti.Name, x, encx, dx, math.Abs(float64(dx)-fx), r.Step(fx))
			}
		case fx > r.Hi:
			dh, ench, f := encDecFloat(ti, a, b, float32(r.Hi))
			if f != nil {
				return f
			}
			if dx != dh {
				return common.Failf("saturation", "%s: %v is above the range; it encodes as %x (= %v) but the upper bound %v encodes as %x (= %v)",
					ti.Name, x, encx, dx, r.Hi, ench, dh)
			}
		case fx < r.Lo:
			dl, encl, f := encDecFloat(ti, a, b, float32(r.Lo))
			if f != nil {
				return f
			}
			if dx != dl {
				return common.Failf("saturation", "%s: %v is below the range; it encodes as %x (= %v) but the lower bound %v encodes as %x (= %v)",
					ti.Name, x, encx, dx, r.Lo, encl, dl)
			}
		}
	}
	if hasY {
		fy := float64(y)
		if math.IsNaN(fy) || math.IsInf(fy, 0) {
			return nil
		}
		dy, ency, f := encDecFloat(ti, a, b, y)
		if f != nil {
			return f
		}
		lo, hi, dlo, dhi, elo, ehi := x, y, dx, dy, encx, ency
		if lo > hi {
			lo, hi, dlo, dhi, elo, ehi = y, x, dy, dx, ency, encx
		}
		if dlo > dhi {
			return common.Failf("monotonic", "%s: %v <= %v but they encode as %x and %x, which decode to %v > %v",
				ti.Name, lo, hi, elo, ehi, dlo, dhi)
		}
	}
	return nil
}

func setInt(d dpt.Datapoint, i int64) {
	v := deref(d)
	switch v.Kind() {
	case reflect.Bool:
		v.SetBool(i != 0)
	case reflect.Int8, reflect.Int16, reflect.Int32:
		v.SetInt(i)
	case reflect.Uint8, reflect.Uint16, reflect.Uint32:
		v.SetUint(uint64(i))
	}
}

func getInt(d dpt.Datapoint) int64 {
	v := deref(d)
	switch v.Kind() {
	case reflect.Bool:
		if v.Bool() {
			return 1
		}
		return 0
	case reflect.Int8, reflect.Int16, reflect.Int32:
		return v.Int()
	case reflect.Uint8, reflect.Uint16, reflect.Uint32:
		return int64(v.Uint())
	}
	return 0
}

// c07Int: integer-, enumeration- and bool-typed datapoints.
func c07Int(ti typeInfo, a, b dpt.Datapoint, i int64) *common.Fail {
	setInt(a, i)
	enc := packOwned(a)
	what := fmt.Sprintf("value %d", i)
	if f := lengthFail(ti, what, enc); f != nil {
		return f
	}
	if err := b.Unpack(enc); err != nil {
		return common.Failf("self-rejected", "%s %s encodes as %x, which the type's own decoder rejects: %v", ti.Name, what, enc, err)
	}
	got := getInt(b)
	want := i
	switch ti.Main {
	case 17: // scene number 0..63: saturates
		if i > 63 {
			want = 63
		}
	case 18: // scene control: bit 7 = learn, bits 5..0 = scene; anything else is not a value of the type
		if !(i <= 63 || (i >= 128 && i <= 191)) {
			if !(got <= 63 || (got >= 128 && got <= 191)) {
				return common.Failf("saturation", "%s: out-of-range value %d encodes as %x and decodes as %d, which is outside the type's value set", ti.Name, i, enc, got)
			}
			return nil
		}
	}
	if got != want {
		return common.Failf("accuracy", "%s: value %d encodes as %x and decodes as %d (expected %d)", ti.Name, i, enc, got, want)
	}
	return nil
}

// setFields fills a struct-typed datapoint from f (declaration order); returns false when shapes disagree.
func setFields(d dpt.Datapoint, f []int64) bool {
	v := deref(d)
	if v.Kind() != reflect.Struct || v.NumField() != len(f) {
		return false
	}
	for k := 0; k < v.NumField(); k++ {
		fv := v.Field(k)
		switch fv.Kind() {
		case reflect.Bool:
			fv.SetBool(f[k] != 0)
		case reflect.Uint8, reflect.Uint16, reflect.Uint32:
			fv.SetUint(uint64(f[k]) & (1<<(8*uint(fv.Type().Size())) - 1))
		case reflect.Int8, reflect.Int16, reflect.Int32:
			fv.SetInt(f[k])
		default:
			return false
		}
	}
	return true
}

func c07Fields(ti typeInfo, a, b dpt.Datapoint, f []int64) *common.Fail {
	if !setFields(a, f) {
		return nil // shape unknown to the harness (a new struct type): not judged here
	}
	orig := reflect.New(deref(a).Type())
	orig.Elem().Set(deref(a))
	enc := packOwned(a)
	what := fmt.Sprintf("value %+v", deref(a).Interface())
	if fl := lengthFail(ti, what, enc); fl != nil {
		return fl
	}
	if err := b.Unpack(enc); err != nil {
		return common.Failf("self-rejected", "%s %s encodes as %x, which the type's own decoder rejects: %v", ti.Name, what, enc, err)
	}
	valid := true
	fld := map[string]int64{}
	for k := 0; k < deref(a).NumField(); k++ {
		fld[deref(a).Type().Field(k).Name] = f[k]
	}
	switch ti.Main {
	case 10: // weekday 0..7, hour 0..23, minutes/seconds 0..59
		valid = fld["Weekday"] <= 7 && fld["Hour"] <= 23 && fld["Minutes"] <= 59 && fld["Seconds"] <= 59
	case 11:
		valid = validDate(int(fld["Year"]), int(fld["Month"]), int(fld["Day"]))
	}
	if valid && !reflect.DeepEqual(orig.Elem().Interface(), deref(b).Interface()) {
		return common.Failf("accuracy", "%s: in-range %s encodes as %x and decodes as %+v", ti.Name, what, enc, deref(b).Interface())
	}
	return nil
}

// wantString16: first 14 characters, characters outside the character set replaced by a space, cut at NUL.
func wantString16(s string, maxRune rune) string {
	var out []rune
	for _, r := range []rune(s) {
		if len(out) == 14 {
			break
		}
		if r > maxRune {
			r = ' '
		}
		out = append(out, r)
	}
	for i, r := range out {
		if r == 0 {
			out = out[:i]
			break
		}
	}
	return string(out)
}

func c07String(ti typeInfo, a, b dpt.Datapoint, s string) *common.Fail {
	deref(a).SetString(s)
	enc := packOwned(a)
	what := fmt.Sprintf("string %q", s)
	if f := lengthFail(ti, what, enc); f != nil {
		return f
	}
	if ti.Main == 28 && (len(enc) != len(s)+2 || enc[len(enc)-1] != 0) {
		return common.Failf("length", "%s %s encodes as %x: expected zero byte, the %d string bytes, terminator", ti.Name, what, enc, len(s))
	}
	if err := b.Unpack(enc); err != nil {
		return common.Failf("self-rejected", "%s %s encodes as %x, which the type's own decoder rejects: %v", ti.Name, what, enc, err)
	}
	got := deref(b).String()
	var want string
	switch {
	case ti.Main == 16 && ti.Sub == 0:
		want = wantString16(s, 0x7f)
	case ti.Main == 16 && ti.Sub == 1:
		want = wantString16(s, 0xff)
	case ti.Main == 28:
		want = s
	default:
		return nil
	}
	if got != want {
		return common.Failf("accuracy", "%s %s encodes as %x and decodes as %q, expected %q", ti.Name, what, enc, got, want)
	}
	return nil
}

func c07Run(p c07Plan) *common.Fail {
	ti, ok := typeByName(p.Type)
	if !ok {
		return common.Failf("type-missing", "type %q is not registered", p.Type)
	}
	a, b := produce(ti.Name), produce(ti.Name)
	if p.Zone != "" {
		if loc, err := time.LoadLocation(p.Zone); err == nil {
			saved := time.Local
			time.Local = loc
			defer func() { time.Local = saved }()
		}
	}
	switch p.Mode {
	case "storm":
		f, _, _ := roundTripStorms(allTypes(), [][]byte{{0x41, 0x7e}, {0xe9, 0xfc}, {0x01, 0x30}, {0x20, 0xa0}, {0x5a, 0x00}}, 1000)
		return f
	case "float":
		if ti.Kind != reflect.Float32 {
			return nil
		}
		return c07Float(ti, a, b, math.Float32frombits(p.X), math.Float32frombits(p.Y), p.Pair)
	case "int":
		return c07Int(ti, a, b, p.I)
	case "fields":
		return c07Fields(ti, a, b, p.F)
	case "string":
		str := p.S
		if p.SHex != "" {
			str = string(unhx(p.SHex))
		}
		// ill-formed byte strings are judged for the variable-length type only, whose wire format carries the string's
		// bytes as they are (for 16.xxx the per-character replacement of such bytes is not prescribed)
		if ti.Kind != reflect.String || (!utf8.ValidString(str) && ti.Main != 28) {
			return nil
		}
		return c07String(ti, a, b, str)
	}
	return nil
}

// f16Candidates: the decoded value of every 16-bit float encoding, the midpoints towards its
// neighbours and their float32 neighbours - i.e. both sides of every quantisation boundary and of
// every exponent switch point.
func f16Candidates() []float32 {
	var vals []float64
	for e := 0; e < 16; e++ {
		for m := -2048; m <= 2047; m++ {
			vals = append(vals, 0.01*float64(m)*float64(uint(1)<<uint(e)))
		}
	}
	sort.Float64s(vals)
	var out []float32
	add := func(x float64) {
		f := float32(x)
		out = append(out, f, math.Nextafter32(f, float32(math.Inf(1))), math.Nextafter32(f, float32(math.Inf(-1))))
	}
	prev := math.NaN()
	for _, v := range vals {
		if v == prev {
			continue
		}
		add(v)
		if !math.IsNaN(prev) {
			add((v + prev) / 2)
		}
		prev = v
	}
	return out
}

func boundsCandidates(r numRange) []float32 {
	var out []float32
	for _, b := range []float64{r.Lo, r.Hi, 0, r.Lo - r.Step(r.Lo), r.Hi + r.Step(r.Hi), 2 * r.Hi, 2*r.Lo - 1, 670433.28, -670433.28, 670760.96, -671088.64, 1e9, -1e9, math.MaxFloat32, -math.MaxFloat32, 1e-45, -1e-45} {
		f := float32(b)
		for k := 0; k < 4; k++ {
			out = append(out, f)
			f = math.Nextafter32(f, float32(math.Inf(1)))
		}
		f = float32(b)
		for k := 0; k < 4; k++ {
			f = math.Nextafter32(f, float32(math.Inf(-1)))
			out = append(out, f)
		}
	}
	return out
}

func TestC07(t *testing.T) {
	rec := common.NewRec("C07", "dpt")
	completed := false
	defer func() { rec.Finish(completed) }()
	if rec.Env.Replay != "" {
		common.ReplayOnly(t, rec, c07Run)
		completed = true
		return
	}
	types := allTypes()
	thorough := rec.Env.Thorough()
	block := 0
	mine := func() bool { block++; return rec.Env.Mine(block) }
	stop := map[string]bool{}
	report := func(ti typeInfo, f *common.Fail, plan c07Plan) {
		if f != nil && !stop[ti.Name+f.Kind] {
			if common.Report(t, rec, f, plan) {
				stop[ti.Name+f.Kind] = true
			}
		}
	}
	guard := func(fn func() *common.Fail) *common.Fail { return common.Guard(fn) }
	var f16c []float32

	for _, ti := range types {
		ti := ti
		a, b := produce(ti.Name), produce(ti.Name)
		var evals int64
		switch {
		case ti.Kind == reflect.Float32 && ti.WireL == 5:
			if !mine() {
				continue
			}
			f32Strata(func(u uint32) {
				evals++
				report(ti, guard(func() *common.Fail { return c07Float(ti, a, b, math.Float32frombits(u), 0, false) }), c07Plan{Type: ti.Name, Mode: "float", X: u})
			})
			n := rec.Env.N(20000)
			u := uint32(ti.Sub) * 2654435761
			for i := 0; i < n; i++ {
				u += 2654435769
				evals++
				report(ti, guard(func() *common.Fail { return c07Float(ti, a, b, math.Float32frombits(u), 0, false) }), c07Plan{Type: ti.Name, Mode: "float", X: u})
			}
			rec.ClassN("enum-ieee", evals)
			rec.NonTrivialEnum(evals)
		case ti.Kind == reflect.Float32:
			r, ok := rangeOf(ti)
			if !ok {
				rec.Note("no documented range in the harness table for " + ti.Name + ": length and self-decodability only")
			}
			if !mine() {
				continue
			}
			var cands []float32
			if ok && r.F16 {
				if f16c == nil {
					f16c = f16Candidates()
				}
				cands = append(cands, f16c...)
			} else if ok {
				// every representable value of the scaled-integer format, midpoints and float neighbours
				st := r.Step(0)
				for x := r.Lo - 3*st; x <= r.Hi+3*st; x += st / 2 {
					f := float32(x)
					cands = append(cands, f, math.Nextafter32(f, float32(math.Inf(1))), math.Nextafter32(f, float32(math.Inf(-1))))
				}
			}
			if ok {
				cands = append(cands, boundsCandidates(r)...)
			}
			sort.Slice(cands, func(i, j int) bool { return cands[i] < cands[j] })
			// adjacent pairs of the sorted list: accuracy/saturation of each, monotonicity of each neighbour pair
			for i := range cands {
				evals++
				x := cands[i]
				y, has := x, false
				if i+1 < len(cands) {
					y, has = cands[i+1], true
				}
				report(ti, guard(func() *common.Fail { return c07Float(ti, a, b, x, y, has) }),
					c07Plan{Type: ti.Name, Mode: "float", X: math.Float32bits(x), Y: math.Float32bits(y), Pair: has})
			}
			rec.ClassN("enum-scaled-or-f16", evals)
			rec.NonTrivialEnum(evals)
		case ti.Kind == reflect.String:
			// every sequence of up to 4 text units (byte order marks, blanks, invisible and ordinary characters, what a text
			// taken from a file or an export starts and ends with); random texts in the rapid part below
			if !mine() {
				continue
			}
			units := []string{"\ufeff", "\ufffe", "A", "\u00e9", "\u200b", "\u00a0", " ", "\t", "\r\n", "\x00", "0", "\u00ff"}
			var texts int64
			var rec3 func(tx string, n int)
			rec3 = func(tx string, n int) {
				texts++
				report(ti, guard(func() *common.Fail { return c07String(ti, a, b, tx) }), c07Plan{Type: ti.Name, Mode: "string", S: tx})
				if n == 0 {
					return
				}
				for _, u := range units {
					rec3(tx+u, n-1)
				}
			}
			rec3("", 4)
			evals += texts
			rec.ClassN("enum-text-units", texts)
			rec.NonTrivialEnum(texts)
		case ti.Kind == reflect.Struct:
			if !mine() {
				continue
			}
			v := deref(a)
			nf := v.NumField()
			edge := []int64{0, 1, 2, 7, 8, 12, 13, 23, 24, 28, 29, 30, 31, 32, 59, 60, 63, 64, 99, 100, 127, 128, 255}
			if thorough {
				edge = edge[:0]
				for x := int64(0); x < 72; x++ {
					edge = append(edge, x)
				}
				edge = append(edge, 99, 100, 127, 128, 191, 192, 254, 255)
			}
			doms := make([][]int64, nf)
			for k := 0; k < nf; k++ {
				switch v.Field(k).Kind() {
				case reflect.Bool:
					doms[k] = []int64{0, 1}
				case reflect.Uint16:
					if ti.Main == 11 { // years: all of 1985..2095 plus corners
						for y := int64(1985); y <= 2095; y++ {
							doms[k] = append(doms[k], y)
						}
						doms[k] = append(doms[k], 0, 1, 89, 90, 99, 100, 1899, 1900, 2100, 2189, 2190, 4000, 32767, 32768, 65535)
					} else {
						doms[k] = []int64{0, 1, 255, 256, 32767, 32768, 65534, 65535}
					}
				default:
					doms[k] = edge
					if nf > 4 {
						doms[k] = []int64{0, 1, 127, 128, 255}
					}
				}
			}
			idx := make([]int, nf)
			f := make([]int64, nf)
			for {
				for k := range f {
					f[k] = doms[k][idx[k]]
				}
				evals++
				ff := append([]int64{}, f...)
				report(ti, guard(func() *common.Fail { return c07Fields(ti, a, b, ff) }), c07Plan{Type: ti.Name, Mode: "fields", F: ff})
				k := nf - 1
				for k >= 0 {
					idx[k]++
					if idx[k] < len(doms[k]) {
						break
					}
					idx[k] = 0
					k--
				}
				if k < 0 {
					break
				}
			}
			rec.ClassN("enum-struct", evals)
			rec.NonTrivialEnum(evals)
		default: // bool and integers
			if !mine() {
				continue
			}
			var lo, hi int64
			switch ti.Kind {
			case reflect.Bool:
				lo, hi = 0, 1
			case reflect.Int8:
				lo, hi = -128, 127
			case reflect.Uint8:
				lo, hi = 0, 255
			case reflect.Int16:
				lo, hi = -32768, 32767
			case reflect.Uint16:
				lo, hi = 0, 65535
			case reflect.Int32:
				lo, hi = math.MinInt32, math.MaxInt32
			case reflect.Uint32:
				lo, hi = 0, math.MaxUint32
			}
			try := func(i int64) {
				evals++
				report(ti, guard(func() *common.Fail { return c07Int(ti, a, b, i) }), c07Plan{Type: ti.Name, Mode: "int", I: i})
			}
			if hi-lo <= 65535 {
				for i := lo; i <= hi; i++ {
					try(i)
				}
			} else {
				f32Strata(func(u uint32) {
					if lo < 0 {
						try(int64(int32(u)))
					} else {
						try(int64(u))
					}
				})
				n := rec.Env.N(20000)
				u := uint32(ti.Sub) * 2654435761
				for i := 0; i < n; i++ {
					u += 2654435769
					if lo < 0 {
						try(int64(int32(u)))
					} else {
						try(int64(u))
					}
				}
			}
			rec.ClassN("enum-int", evals)
			rec.NonTrivialEnum(evals)
		}
		rec.Eval(evals)
	}
	rec.Exhaustive("all values of every bool-, 8-bit- and 16-bit-integer-typed datapoint; for every 9.xxx type the decoded value of all 65536 encodings, the midpoints between neighbours and their float32 neighbours (each with its successor as an ordered pair); every step and half step of the scaled 5.xxx/8.xxx types across and beyond their ranges")
	rec.Sample("float-pair", c07Plan{Type: "9.001", Mode: "float", X: math.Float32bits(20.475), Y: math.Float32bits(20.48), Pair: true})
	rec.Sample("out-of-range", c07Plan{Type: "8.003", Mode: "float", X: math.Float32bits(400)})
	rec.Sample("fields", c07Plan{Type: "11.001", Mode: "fields", F: []int64{2023, 2, 29}})

	// dates under local time zones whose calendar has days without a midnight (or without existence): every date
	// 1990-01-01..2089-12-31 encodes and decodes back whatever the process's zone is
	if rec.Env.Shard == 0 {
		if ti, ok := typeByName("11.001"); ok {
			a, b := produce(ti.Name), produce(ti.Name)
			var n int64
			stopZ := false
			missing := underZones(func(zone string) {
				for y := 1990; y <= 2089 && !stopZ; y++ {
					for m := 1; m <= 12; m++ {
						for d := 1; d <= 31; d++ {
							if !validDate(y, m, d) {
								continue
							}
							n++
							if f := guard(func() *common.Fail { return c07Fields(ti, a, b, []int64{int64(y), int64(m), int64(d)}) }); f != nil {
								f.Detail += fmt.Sprintf(" (with the process's local time zone set to %s)", zone)
								common.Report(t, rec, f, c07Plan{Type: ti.Name, Mode: "fields", F: []int64{int64(y), int64(m), int64(d)}, Zone: zone})
								stopZ = true
								return
							}
						}
					}
				}
			})
			rec.Eval(n)
			rec.NonTrivialEnum(n)
			rec.ClassN("dates-under-local-zones", n)
			if len(missing) > 0 {
				rec.Note(fmt.Sprintf("time zones not available: %v", missing))
			}
			rec.Exhaustive(fmt.Sprintf("11.001: every date 1990-01-01..2089-12-31 under %d local time zones (among them zones where daylight saving starts at midnight and one that skipped a day)", len(zonesWithOddMidnights)-len(missing)))
		}
	}
	// encoding is a function of the value, also when other goroutines encode their own values at the same moment (per
	// main number, 8 goroutines with their own instances; every encoding and rendering compared with the one made alone)
	if rec.Env.Shard == 0 {
		f, first, storms := roundTripStorms(types, [][]byte{{0x41, 0x7e}, {0xe9, 0xfc}, {0x01, 0x30}, {0x20, 0xa0}, {0x5a, 0x00}}, 1000)
		if f != nil {
			common.Report(t, rec, f, c07Plan{Type: first, Mode: "storm"})
		}
		rec.Eval(storms * 8 * 1000 * 2)
		rec.ClassN("concurrent-encode-storms", storms)
	}
	// rapid part ------------------------------------------------------------------------------------------
	var floatT, strT, structT, intT []typeInfo
	for _, ti := range types {
		switch {
		case ti.Kind == reflect.Float32:
			floatT = append(floatT, ti)
		case ti.Kind == reflect.String:
			strT = append(strT, ti)
		case ti.Kind == reflect.Struct:
			structT = append(structT, ti)
		default:
			intT = append(intT, ti)
		}
	}
	genFloat := func(rt *rapid.T, ti typeInfo, label string) float32 {
		r, has := rangeOf(ti)
		switch rapid.IntRange(0, 5).Draw(rt, label+"-how") {
		case 0: // log-uniform magnitude 1e-3 .. 1e9
			ex := rapid.Float64Range(-3, 9).Draw(rt, label+"-exp")
			x := math.Pow(10, ex)
			if rapid.Bool().Draw(rt, label+"-neg") {
				x = -x
			}
			return float32(x)
		case 1: // around a range bound
			if has {
				bnd := rapid.SampledFrom([]float64{r.Lo, r.Hi}).Draw(rt, label+"-bound")
				k := rapid.IntRange(-6, 6).Draw(rt, label+"-ulps")
				f := float32(bnd)
				for ; k > 0; k-- {
					f = math.Nextafter32(f, float32(math.Inf(1)))
				}
				for ; k < 0; k++ {
					f = math.Nextafter32(f, float32(math.Inf(-1)))
				}
				return f
			}
		case 2: // around an exponent switch point of the 16-bit float
			e := rapid.IntRange(0, 15).Draw(rt, label+"-e")
			m := rapid.SampledFrom([]float64{2047, 2047.5, 2048, 2048.5, -2047.5, -2048, -2048.5, -2049, 1023.5, 1024}).Draw(rt, label+"-m")
			x := 0.01 * m * float64(uint(1)<<uint(e))
			k := rapid.IntRange(-3, 3).Draw(rt, label+"-ulps")
			f := float32(x)
			for ; k > 0; k-- {
				f = math.Nextafter32(f, float32(math.Inf(1)))
			}
			for ; k < 0; k++ {
				f = math.Nextafter32(f, float32(math.Inf(-1)))
			}
			return f
		case 3: // far out of range
			x := rapid.Float64Range(1e5, math.MaxFloat32).Draw(rt, label+"-far")
			if rapid.Bool().Draw(rt, label+"-neg") {
				x = -x
			}
			return float32(x)
		case 4: // small range
			if has {
				return float32(rapid.Float64Range(r.Lo-2*r.Step(r.Lo), math.Min(r.Hi, 700)+2).Draw(rt, label+"-small"))
			}
		}
		return math.Float32frombits(rapid.Uint32().Draw(rt, label+"-bits"))
	}
	runeGen := rapid.OneOf(
		rapid.Int32Range(0x20, 0x7e), rapid.Int32Range(0x20, 0x7e), rapid.Int32Range(0x80, 0xff), rapid.Int32Range(0x100, 0xd7ff),
		rapid.Int32Range(0xe000, 0xfffd), rapid.Int32Range(0x10000, 0x10ffff), rapid.Int32Range(0, 0x1f), rapid.Just(int32(0)), rapid.Just(int32(0x7f)),
	)
	common.Drive(t, rec, func(rt *rapid.T) c07Plan {
		var plan c07Plan
		switch rapid.IntRange(0, 9).Draw(rt, "family") {
		case 0, 1, 2, 3, 4:
			ti := floatT[rapid.IntRange(0, len(floatT)-1).Draw(rt, "ftype")]
			if rapid.IntRange(0, 2).Draw(rt, "non-ieee") > 0 {
				var s []typeInfo
				for _, x := range floatT {
					if x.WireL != 5 {
						s = append(s, x)
					}
				}
				ti = s[rapid.IntRange(0, len(s)-1).Draw(rt, "ntype")]
			}
			x := genFloat(rt, ti, "x")
			plan = c07Plan{Type: ti.Name, Mode: "float", X: math.Float32bits(x)}
			if rapid.Bool().Draw(rt, "pair") {
				var y float32
				if rapid.Bool().Draw(rt, "near") {
					y = x
					for k := rapid.IntRange(1, 4).Draw(rt, "k"); k > 0; k-- {
						y = math.Nextafter32(y, float32(math.Inf(1)))
					}
				} else {
					y = genFloat(rt, ti, "y")
				}
				plan.Y, plan.Pair = math.Float32bits(y), true
			}
			rec.Class("rapid-float")
			if r, ok := rangeOf(ti); ok {
				fx := float64(x)
				if fx < r.Lo || fx > r.Hi {
					rec.Class("rapid-float-out-of-range")
				} else if fx-r.Lo < 2*r.Step(fx) || r.Hi-fx < 2*r.Step(fx) {
					rec.Class("rapid-float-near-bound")
				}
			}
		case 5, 6:
			ti := strT[rapid.IntRange(0, len(strT)-1).Draw(rt, "stype")]
			n := rapid.IntRange(0, 40).Draw(rt, "runes")
			rs := make([]rune, n)
			for i := range rs {
				rs[i] = rune(runeGen.Draw(rt, "r"))
			}
			plan = c07Plan{Type: ti.Name, Mode: "string", S: string(rs)}
			if ti.Main == 28 && rapid.IntRange(0, 2).Draw(rt, "raw-bytes") == 0 {
				raw := make([]byte, rapid.IntRange(1, 24).Draw(rt, "raw-len"))
				for i := range raw {
					raw[i] = rapid.SampledFrom([]byte{0x41, 0x7a, 0x80, 0xbf, 0xc0, 0xc3, 0xe9, 0xed, 0xa0, 0xf5, 0xff}).Draw(rt, "raw-byte")
				}
				plan.S, plan.SHex = "", hx(raw)
			}
			rec.Class("rapid-string")
			if n > 14 {
				rec.Class("rapid-string-over-14")
			}
		case 7, 8:
			ti := structT[rapid.IntRange(0, len(structT)-1).Draw(rt, "sttype")]
			v := deref(produce(ti.Name))
			f := make([]int64, v.NumField())
			for k := range f {
				switch v.Field(k).Kind() {
				case reflect.Bool:
					f[k] = int64(rapid.IntRange(0, 1).Draw(rt, "fb"))
				case reflect.Uint16:
					if rapid.Bool().Draw(rt, "year") {
						f[k] = int64(rapid.IntRange(1985, 2095).Draw(rt, "fy"))
					} else {
						f[k] = int64(rapid.IntRange(0, 65535).Draw(rt, "f16"))
					}
				default:
					if rapid.Bool().Draw(rt, "lowfield") {
						f[k] = int64(rapid.IntRange(0, 64).Draw(rt, "f8l"))
					} else {
						f[k] = int64(rapid.IntRange(0, 255).Draw(rt, "f8"))
					}
				}
			}
			plan = c07Plan{Type: ti.Name, Mode: "fields", F: f}
			rec.Class("rapid-struct")
		default:
			ti := intT[rapid.IntRange(0, len(intT)-1).Draw(rt, "itype")]
			var i int64
			switch ti.Kind {
			case reflect.Bool:
				i = int64(rapid.IntRange(0, 1).Draw(rt, "b"))
			case reflect.Int8:
				i = int64(rapid.Int8().Draw(rt, "i8"))
			case reflect.Uint8:
				i = int64(rapid.Uint8().Draw(rt, "u8"))
			case reflect.Int16:
				i = int64(rapid.Int16().Draw(rt, "i16"))
			case reflect.Uint16:
				i = int64(rapid.Uint16().Draw(rt, "u16"))
			case reflect.Int32:
				i = int64(rapid.Int32().Draw(rt, "i32"))
			case reflect.Uint32:
				i = int64(rapid.Uint32().Draw(rt, "u32"))
			}
			plan = c07Plan{Type: ti.Name, Mode: "int", I: i}
			rec.Class("rapid-int")
		}
		rec.NonTrivial(common.HashJSON(plan))
		rec.Sample("rapid-"+plan.Mode, plan)
		return plan
	}, c07Run)
	completed = true
}
