package dptc

import (
	"bytes"
	"fmt"
	"math/bits"
	"reflect"
	"testing"

	"github.com/vapourismo/knx-go/knx/dpt"
	"pgregory.net/rapid"
	"verif/harness/common"
)

// c06Plan: one payload for one registered type.
type c06Plan struct {
	Type string `json:"type"`
	Hex  string `json:"hex"`
	// Before: a payload decoded into the same variable first (applications decode every telegram of a group address
	// into one variable); what Hex decodes to must not depend on it
	Before string `json:"before,omitempty"`
}

// c06History: used holds whatever the decode of `before` left in it; decoding p into it must give what decoding p
// into a zero value gives, value and re-encoding alike.
func c06History(ti typeInfo, used, fresh dpt.Datapoint, before, p []byte) *common.Fail {
	_ = used.Unpack(before)
	deref(fresh).Set(reflect.Zero(deref(fresh).Type()))
	errU, errF := used.Unpack(p), fresh.Unpack(p)
	if (errU == nil) != (errF == nil) {
		return common.Failf("history-dependent", "%s: payload %x decoded into a variable that held the decode of %x: %v; decoded into a zero value: %v", ti.Name, p, before, errU, errF)
	}
	if errF != nil {
		return nil
	}
	if !sameDP(used, fresh) || !bytes.Equal(used.Pack(), fresh.Pack()) {
		return common.Failf("history-dependent", "%s: payload %x decodes to %s (re-encoded %x) in a variable that held the decode of %x before, but to %s (re-encoded %x) in a zero value",
			ti.Name, p, showDP(used), used.Pack(), before, showDP(fresh), fresh.Pack())
	}
	return nil
}

func popcount(p []byte) (n int) {
	for _, b := range p {
		n += bits.OnesCount8(b)
	}
	return
}

// canon is the payload an exact format must re-encode to: the original with the bits the format
// declares reserved / ignored cleared and the documented replacements applied. Written from the
// datapoint format descriptions; ok=false when the table has no entry for the type.
func canon(ti typeInfo, p []byte) ([]byte, bool) {
	if ti.WireL > 0 && len(p) != ti.WireL {
		return nil, false
	}
	c := append([]byte{}, p...)
	if ti.WireL != 1 && len(c) > 0 {
		c[0] = 0
	}
	switch ti.Main {
	case 1:
		c[0] = p[0] & 1
	case 5, 6, 7, 8, 12, 13, 14, 20, 232:
		// plain integers / IEEE-754: every value bit is significant
	case 17:
		if c[1] > 63 {
			c[1] = 63
		}
	case 18:
		if !(c[1] <= 63 || (c[1] >= 128 && c[1] <= 191)) {
			c[1] = 63
		}
	case 10:
		c[2] &= 0x3f
		c[3] &= 0x3f
	case 11:
		c[1] &= 0x1f
		c[2] &= 0x0f
		c[3] &= 0x7f
		if c[1] == 0 && c[2] == 0 && c[3] == 0 {
			c[1], c[2], c[3] = 1, 1, 90 // documented: the all-zero date stands for 1990-01-01
		}
	case 16:
		end := false
		for i := 1; i < len(c); i++ {
			if ti.Sub == 0 {
				c[i] &= 0x7f
			}
			if c[i] == 0 {
				end = true
			}
			if end {
				c[i] = 0
			}
		}
	case 242:
		c[6] &= 3
	case 251:
		c[5] = 0
	case 28:
		if len(c) < 2 {
			return nil, false
		}
		c[len(c)-1] = 0
	default:
		return nil, false
	}
	return c, true
}

// c06Check applies the oracle to one payload. a and b are scratch instances of the type.
func c06Check(ti typeInfo, a, b dpt.Datapoint, p []byte) (accepted bool, f *common.Fail) {
	if err := a.Unpack(p); err != nil {
		return false, nil
	}
	q := packOwned(a)
	if k := deref(a).Kind(); k == reflect.String || k == reflect.Slice {
		// a value of a reference kind must own its bytes: decode from a copy of the payload, overwrite the copy (a
		// receive loop refills its buffer), and the value still encodes as before
		pc := append([]byte{}, p...)
		if a.Unpack(pc) == nil {
			for i := range pc {
				pc[i] ^= 0x5a
			}
			if q2 := packOwned(a); !bytes.Equal(q2, q) {
				return true, common.Failf("decoded-value-aliases-input", "%s: the value decoded from %x re-encodes as %x; after the buffer it was decoded from has been overwritten it re-encodes as %x",
					ti.Name, p, q, q2)
			}
		}
	}
	if err := b.Unpack(q); err != nil {
		return true, common.Failf("reencoded-rejected", "%s: payload %x decodes to %s, which re-encodes as %x, which the decoder rejects: %v",
			ti.Name, p, showDP(a), q, err)
	}
	if !sameDP(a, b) {
		return true, common.Failf("drift", "%s: payload %x decodes to %s; re-encoded as %x it decodes to %s",
			ti.Name, p, showDP(a), q, showDP(b))
	}
	if exactFormat(ti) {
		if c, ok := canon(ti, p); ok && !bytes.Equal(q, c) {
			return true, common.Failf("exact-not-identical", "%s (exact format): payload %x re-encodes as %x, expected %x (original up to reserved bits / documented replacements)",
				ti.Name, p, q, c)
		}
	}
	return true, nil
}

func c06Run(p c06Plan) *common.Fail {
	var ti typeInfo
	found := false
	for _, t := range allTypes() {
		if t.Name == p.Type {
			ti, found = t, true
		}
	}
	if !found {
		return common.Failf("type-missing", "type %q is not registered", p.Type)
	}
	if p.Before != "" {
		return c06History(ti, produce(ti.Name), produce(ti.Name), unhx(p.Before), unhx(p.Hex))
	}
	_, f := c06Check(ti, produce(ti.Name), produce(ti.Name), unhx(p.Hex))
	return f
}

// f32Strata: every exponent x both signs x mantissa edge patterns, NaN payloads included.
func f32Strata(yield func(uint32)) {
	mant := []uint32{0, 1, 2, 3, 0x7fffff, 0x7ffffe, 0x400000, 0x400001, 0x3fffff, 0x200000, 0x555555, 0x2aaaaa, 0x000100, 0x0000ff, 0x7f0000, 0x00ffff, 0x123456, 0x654321}
	for s := uint32(0); s < 2; s++ {
		for e := uint32(0); e < 256; e++ {
			for _, m := range mant {
				yield(s<<31 | e<<23 | m)
			}
		}
	}
	for k := uint32(0); k < 32; k++ { // powers of two +-1 as integers (U32/V32 corners)
		yield(1 << k)
		yield(1<<k - 1)
		yield(1<<k + 1)
		yield(^(uint32(1) << k))
	}
}

func TestC06(t *testing.T) {
	rec := common.NewRec("C06", "dpt")
	completed := false
	defer func() { rec.Finish(completed) }()
	if rec.Env.Replay != "" {
		common.ReplayOnly(t, rec, c06Run)
		completed = true
		return
	}
	types := allTypes()
	thorough := rec.Env.Thorough()
	block := 0
	mine := func() bool { block++; return rec.Env.Mine(block) }
	stop := map[string]bool{}
	unknownTable := map[string]bool{}

	for _, ti := range types {
		ti := ti
		a, b := produce(ti.Name), produce(ti.Name)
		used, fresh := produce(ti.Name), produce(ti.Name)
		var dirtiest []byte // the accepted payload with the most bits set so far
		var evals, acc, hist int64
		try := func(p []byte) {
			evals++
			ok, f := func() (ok bool, f *common.Fail) {
				defer func() {
					if r := recover(); r != nil {
						f = common.Failf("panic", "%s payload %x: panic %v", ti.Name, p, r)
					}
				}()
				return c06Check(ti, a, b, p)
			}()
			if ok {
				acc++
				if dirtiest == nil || popcount(p) >= popcount(dirtiest) {
					dirtiest = append(dirtiest[:0], p...)
				}
			}
			if f == nil && dirtiest != nil && (ti.WireL <= 2 || evals%5 == 0) {
				hist++
				if f = c06History(ti, used, fresh, dirtiest, p); f != nil && !stop[ti.Name+f.Kind] {
					if common.Report(t, rec, f, c06Plan{Type: ti.Name, Hex: hx(p), Before: hx(dirtiest)}) {
						stop[ti.Name+f.Kind] = true
					}
				}
				f = nil
			}
			if f != nil && !stop[ti.Name+f.Kind] {
				if common.Report(t, rec, f, c06Plan{Type: ti.Name, Hex: hx(p)}) {
					stop[ti.Name+f.Kind] = true
				}
			}
		}
		if exactFormat(ti) {
			if _, ok := canon(ti, make([]byte, max(ti.WireL, 2))); !ok {
				unknownTable[ti.Name] = true
			}
		}
		switch ti.WireL {
		case 1:
			if mine() {
				for x := 0; x < 256; x++ {
					try([]byte{byte(x)})
				}
			}
		case 2:
			if mine() {
				for x := 0; x < 65536; x++ {
					try([]byte{byte(x >> 8), byte(x)})
				}
			}
		case 3:
			leads := []int{0, 0xff, 0xa5}
			if thorough {
				leads = leads[:0]
				for l := 0; l < 256; l++ {
					leads = append(leads, l)
				}
			}
			for _, l := range leads {
				if !mine() {
					continue
				}
				for x := 0; x < 65536; x++ {
					try([]byte{byte(l), byte(x >> 8), byte(x)})
				}
			}
		case 4:
			leads := []int{0, 0xff}
			for _, l := range leads {
				for b1 := 0; b1 < 256; b1++ {
					if !mine() {
						continue
					}
					step := 1
					if !thorough {
						step = 5 // 0,5,..,255 plus the explicit edges below
					}
					for b2 := 0; b2 < 256; b2++ {
						for b3 := 0; b3 < 256; b3 += step {
							try([]byte{byte(l), byte(b1), byte(b2), byte(b3)})
						}
						if !thorough {
							for _, b3 := range []int{59, 61, 63, 64, 89, 91, 99, 101, 127, 128, 129, 191, 192, 254} {
								try([]byte{byte(l), byte(b1), byte(b2), byte(b3)})
							}
						}
					}
				}
			}
		case 5:
			if mine() {
				f32Strata(func(u uint32) {
					try([]byte{0, byte(u >> 24), byte(u >> 16), byte(u >> 8), byte(u)})
					try([]byte{0xff, byte(u >> 24), byte(u >> 16), byte(u >> 8), byte(u)})
				})
			}
			// low-discrepancy sweep over the 2^32 encodings (golden-ratio stride: visits distinct values)
			n := rec.Env.N(40000)
			if mine() {
				u := uint32(ti.Sub) * 2654435761
				for i := 0; i < n; i++ {
					u += 2654435769
					try([]byte{0, byte(u >> 24), byte(u >> 16), byte(u >> 8), byte(u)})
				}
			}
		case 7:
			edge := []int{0, 1, 0x7f, 0x80, 0xff}
			for b6 := 0; b6 < 256; b6++ {
				if !mine() {
					continue
				}
				for _, l := range []int{0, 0xff} {
					for _, x1 := range edge {
						for _, x2 := range edge {
							for _, x3 := range edge {
								for _, x5 := range edge {
									try([]byte{byte(l), byte(x1), byte(x2), byte(x3), byte(x2 ^ x1), byte(x5), byte(b6)})
								}
							}
						}
					}
				}
			}
		}
		if ti.WireL <= 0 && mine() {
			// variable-length text: every body of 0..5 octets over NUL, 'A', the three octets of the UTF-8 byte order
			// mark, a two-octet sequence's lead and continuation octet and 0xFF, between leading byte and terminator;
			// and every sequence of up to 4 text units (marks, blanks, invisible and ordinary characters)
			al := []byte{0x00, 0x41, 0xef, 0xbb, 0xbf, 0xc3, 0x80, 0xff}
			var rec2 func(p []byte, n int)
			rec2 = func(p []byte, n int) {
				if len(p) == n {
					try(append(append([]byte{0}, p...), 0))
					return
				}
				for _, x := range al {
					rec2(append(p, x), n)
				}
			}
			for n := 0; n <= 5; n++ {
				rec2(nil, n)
			}
			units := []string{"\ufeff", "\ufffe", "A", "\u00e9", "\u200b", "\u00a0", " ", "\t", "\r\n", "\u2028", "0"}
			var rec3 func(t string, n int)
			rec3 = func(t string, n int) {
				try(append(append([]byte{0}, t...), 0))
				if n == 0 {
					return
				}
				for _, u := range units {
					rec3(t+u, n-1)
				}
			}
			rec3("", 4)
		}
		if ti.Kind == reflect.String && ti.WireL == 15 && mine() {
			// fixed-width text: every pair of edge characters at the head and at the tail of the 14 characters, the rest
			// 'a' or NUL padding
			edge := []byte{0x00, 0x20, 0x41, 0x7f, 0x80, 0xa0, 0xe9, 0xff}
			for _, h1 := range edge {
				for _, h2 := range edge {
					for _, t1 := range edge {
						for _, fill := range []byte{0x00, 'a'} {
							p := append([]byte{0}, bytes.Repeat([]byte{fill}, 14)...)
							p[1], p[2], p[14] = h1, h2, t1
							try(p)
						}
					}
				}
			}
		}
		rec.Eval(evals)
		rec.NonTrivialEnum(acc)
		rec.ClassN(fmt.Sprintf("enum-main%d-accepted", ti.Main), acc)
		rec.ClassN(fmt.Sprintf("enum-main%d-rejected", ti.Main), evals-acc)
		rec.ClassN("enum-decoded-into-used-variable", hist)
	}
	rec.Exhaustive("all 256 payloads of every 1-byte type; all 2^16 payloads (leading byte included) of every 2-byte type; all 2^16 value encodings of every 3-byte type (all twenty 9.xxx included) under leading bytes 00/ff/a5")
	if thorough {
		rec.Exhaustive("all 2^24 payloads of every 3-byte type; all 2^24 value octets of every 4-byte type under leading bytes 00/ff")
		// one representative per 5-byte codec, all 2^32 encodings
		for _, name := range []string{"12.001", "13.001", "14.000"} {
			var ti typeInfo
			for _, x := range types {
				if x.Name == name {
					ti = x
				}
			}
			if ti.Name == "" {
				rec.Note("representative " + name + " not registered; 2^32 sweep skipped")
				continue
			}
			a, b := produce(ti.Name), produce(ti.Name)
			var evals, acc int64
			p := []byte{0, 0, 0, 0, 0}
			for hi := 0; hi < 65536; hi++ {
				if hi%rec.Env.Shards != rec.Env.Shard {
					continue
				}
				p[1], p[2] = byte(hi>>8), byte(hi)
				for lo := 0; lo < 65536; lo++ {
					p[3], p[4] = byte(lo>>8), byte(lo)
					evals++
					ok, f := c06Check(ti, a, b, p)
					if ok {
						acc++
					}
					if f != nil && !stop[ti.Name+f.Kind] {
						if common.Report(t, rec, f, c06Plan{Type: ti.Name, Hex: hx(p)}) {
							stop[ti.Name+f.Kind] = true
						}
					}
				}
			}
			rec.Eval(evals)
			rec.NonTrivialEnum(acc)
			rec.ClassN("sweep32-"+name, evals)
		}
		rec.Exhaustive("all 2^32 encodings of 12.001 (U32), 13.001 (V32) and 14.000 (F32), one representative per 5-byte codec")
	}
	// the same round trip from several goroutines at once, each with its own instances (per main number; payloads
	// from the low and the high end of the byte range): decode, re-encode and render must give what they give alone
	if rec.Env.Shard == 0 {
		f, first, storms := roundTripStorms(types, [][]byte{{0x42, 0x7d}, {0xfe, 0xc7}, {0x02, 0x81}, {0x3e, 0xe0}}, 1200)
		if f != nil {
			common.Report(t, rec, f, c06Plan{Type: first, Hex: "00"})
		}
		rec.Eval(storms * 8 * 1200 * 2)
		rec.ClassN("concurrent-round-trip-storms", storms)
	}
	for n := range unknownTable {
		rec.Note("no canonical-payload table entry for " + n + ": value-level oracle only")
	}
	for _, ti := range types {
		if ti.WireL < 0 {
			rec.Note(fmt.Sprintf("main number %d (%s) has no entry in the length table: covered by the rapid part only", ti.Main, ti.Name))
		}
	}
	rec.Sample("9.001", c06Plan{Type: "9.001", Hex: "000005"})
	rec.Sample("11.001", c06Plan{Type: "11.001", Hex: "00000000"})
	rec.Sample("14.000", c06Plan{Type: "14.000", Hex: "007fc00001"})

	// rapid part: every type, structured and free payloads (strings, variable length, and the shrinkable path)
	alpha := []byte{0x00, 0x01, 0x1f, 0x20, 0x3f, 0x40, 0x41, 0x7f, 0x80, 0x81, 0xbf, 0xc0, 0xe9, 0xff}
	common.Drive(t, rec, func(rt *rapid.T) c06Plan {
		ti := types[rapid.IntRange(0, len(types)-1).Draw(rt, "type")]
		if rapid.IntRange(0, 3).Draw(rt, "stringy") == 0 {
			// favour the character and variable-length types, which the enumeration above cannot cover
			var s []typeInfo
			for _, x := range types {
				if x.Kind == reflect.String || x.WireL == 7 || x.WireL < 0 {
					s = append(s, x)
				}
			}
			if len(s) > 0 {
				ti = s[rapid.IntRange(0, len(s)-1).Draw(rt, "stype")]
			}
		}
		n := ti.WireL
		if n <= 0 {
			n = rapid.IntRange(0, 40).Draw(rt, "len")
		}
		p := make([]byte, n)
		for i := range p {
			if rapid.IntRange(0, 2).Draw(rt, "how") == 0 {
				p[i] = rapid.Byte().Draw(rt, "b")
			} else {
				p[i] = rapid.SampledFrom(alpha).Draw(rt, "a")
			}
		}
		if n > 0 && rapid.Bool().Draw(rt, "lead0") {
			p[0] = 0
		}
		plan := c06Plan{Type: ti.Name, Hex: hx(p)}
		if rapid.IntRange(0, 2).Draw(rt, "used-variable") == 0 {
			q := make([]byte, len(p))
			if ti.WireL <= 0 {
				q = make([]byte, rapid.IntRange(2, 40).Draw(rt, "before-len"))
			}
			for i := range q {
				q[i] = rapid.SampledFrom([]byte{0xff, 0xff, 0x7f, 0x3f, 0x0f, 0x03, 0x01, 0x41}).Draw(rt, "before-byte")
			}
			if len(q) > 0 {
				q[0] = 0
				plan.Before = hx(q)
			}
		}
		d := produce(ti.Name)
		if d != nil && d.Unpack(p) == nil {
			rec.NonTrivial(common.Hash64([]byte(ti.Name), p))
			rec.Class(fmt.Sprintf("rapid-main%d-accepted", ti.Main))
		} else {
			rec.Class(fmt.Sprintf("rapid-main%d-rejected", ti.Main))
		}
		rec.Sample("rapid-"+ti.Name, plan)
		return plan
	}, c06Run)
	completed = true
}
