package dptc

import (
	"bytes"
	"context"
	"fmt"
	"os"
	"os/exec"
	"runtime"
	"strings"
	"sync"
	"sync/atomic"
	"testing"
	"time"

	"github.com/vapourismo/knx-go/knx/dpt"
	"verif/harness/common"
)

// Cold-start rendering: state that a codec builds lazily (a name table, a compiled pattern, a converter) is built by
// the FIRST use in a process, and applications decode and render from several goroutines (one receiver per socket,
// handlers of a server). "Decoding succeeds => value in range, rendering and unit produced without panicking" therefore
// includes the interleavings of the first uses, and those can only be sampled one per process life.
//
// coldPayloads: for one type, payloads of the right length that exercise the upper ends of its fields.
func coldPayloads(ti typeInfo) [][]byte {
	n := ti.WireL
	if n <= 0 {
		n = 9
	}
	var out [][]byte
	for _, fill := range []byte{0x00, 0x01, 0x25, 0x3b, 0x41, 0x7f, 0xa5, 0xe7, 0xff} {
		p := bytes.Repeat([]byte{fill}, n)
		p[0] = 0
		if n == 1 {
			p[0] = fill & 0x3f
		}
		if ti.WireL <= 0 {
			p[n-1] = 0
		}
		out = append(out, p)
	}
	// dates and times: plausible field values (weekday 1..7, day/month in range)
	switch {
	case ti.Main == 10 && n == 4:
		for wd := 0; wd <= 7; wd++ {
			out = append(out, []byte{0, byte(wd<<5 | (8 + wd)), byte(15 + wd), byte(30 + wd)})
		}
	case ti.Main == 11 && n == 4:
		for m := 1; m <= 12; m++ {
			out = append(out, []byte{0, byte(m * 2), byte(m), byte(20 + m)})
		}
	case ti.Main == 19 && n == 9:
		for m := 1; m <= 12; m++ {
			out = append(out, []byte{0, byte(100 + m), byte(m), byte(m * 2), byte((m%7+1)<<5 | m), byte(m * 4), byte(m * 3), 0, 0})
		}
	}
	return out
}

// coldRender decodes p into a fresh instance of ti and renders it; panics are reported in the text.
func coldRender(ti typeInfo, p []byte) (s string) {
	defer func() {
		if r := recover(); r != nil {
			s = fmt.Sprintf("PANIC: %v", r)
		}
	}()
	d, ok := dpt.Produce(ti.Name)
	if !ok || d == nil {
		return "not producible"
	}
	if err := d.Unpack(p); err != nil {
		return "rejected"
	}
	return fmt.Sprintf("%s|%s|%x", d.String(), d.Unit(), d.Pack())
}

// TestColdRenderChild is the body of one cold-start process: 16 goroutines walk through all registered types in the
// same order, leaving a spin barrier together before each type, so that the first decode + render of every type in
// this process is a concurrent one. Afterwards everything is rendered again sequentially; the texts must agree.
func TestColdRenderChild(t *testing.T) {
	if os.Getenv("VERIF_COLD_RENDER") == "" {
		t.Skip("child of the cold-start rendering check")
	}
	const g = 16
	types := allTypes()
	got := make([][]string, g)
	var arrived int32
	var wg sync.WaitGroup
	for k := 0; k < g; k++ {
		wg.Add(1)
		go func(k int) {
			defer wg.Done()
			got[k] = make([]string, len(types))
			for i, ti := range types {
				// barrier i: everybody has finished type i-1
				atomic.AddInt32(&arrived, 1)
				for atomic.LoadInt32(&arrived) < int32(g*(i+1)) {
					runtime.Gosched() // the machine may have fewer free cores than goroutines here
				}
				ps := coldPayloads(ti)
				got[k][i] = coldRender(ti, ps[(k+i)%len(ps)])
			}
		}(k)
	}
	wg.Wait()
	bad := 0
	for k := 0; k < g && bad < 5; k++ {
		for i, ti := range types {
			ps := coldPayloads(ti)
			p := ps[(k+i)%len(ps)]
			want := coldRender(ti, p)
			if got[k][i] != want || strings.HasPrefix(want, "PANIC") {
				bad++
				fmt.Printf("COLD-START-FAILURE: %s payload %x: rendered concurrently as the first use in this process: %q; rendered again alone: %q\n", ti.Name, p, got[k][i], want)
				break
			}
		}
	}
	if bad > 0 {
		os.Exit(7)
	}
}

// coldRenderStarts runs n fresh processes of this test binary, each executing TestColdRenderChild.
func coldRenderStarts(n int) (*common.Fail, int) {
	type res struct {
		out string
		err error
	}
	ch := make(chan res, n)
	sem := make(chan struct{}, 4)
	for i := 0; i < n; i++ {
		go func() {
			sem <- struct{}{}
			defer func() { <-sem }()
			ctx, cancel := context.WithTimeout(context.Background(), 2*time.Minute)
			defer cancel()
			cmd := exec.CommandContext(ctx, os.Args[0], "-test.run", "^TestColdRenderChild$", "-test.count", "1")
			cmd.Env = append(os.Environ(), "VERIF_COLD_RENDER=1")
			out, err := cmd.CombinedOutput()
			if ctx.Err() != nil {
				ch <- res{"", nil} // ran out of time on a busy machine: this life says nothing
				return
			}
			ch <- res{string(out), err}
		}()
	}
	var first *common.Fail
	ran := 0
	for i := 0; i < n; i++ {
		r := <-ch
		if r.out == "" && r.err == nil {
			continue
		}
		ran++
		if r.err != nil && first == nil {
			tail := r.out
			if i := strings.Index(tail, "COLD-START-FAILURE"); i >= 0 {
				tail = tail[i:]
			} else if i := strings.Index(tail, "fatal error"); i >= 0 {
				tail = tail[i:]
			} else if i := strings.Index(tail, "panic:"); i >= 0 {
				tail = tail[i:]
			}
			if len(tail) > 700 {
				tail = tail[:700]
			}
			first = common.Failf("cold-start-render", "a fresh process in which the first decode + String()/Unit()/Pack() of every type comes from 16 goroutines at once went wrong (%v): %s", r.err, tail)
		}
	}
	return first, ran
}
