package dptc

import (
	"bytes"
	"fmt"
	"math"
	"reflect"
	"testing"
	"unicode"
	"unicode/utf8"

	"github.com/vapourismo/knx-go/knx/dpt"
	"pgregory.net/rapid"
	"verif/harness/common"
)

// c08Plan: one byte string for one registered type.
type c08Plan struct {
	Type string `json:"type"`
	Hex  string `json:"hex"`
	// Prev: payloads decoded (each into a fresh value of the same type, each judged like Hex) before Hex is: what a
	// receiver has seen earlier must not widen what it accepts now.
	Prev []string `json:"prev,omitempty"`
}

// inRange is the independently written range predicate for a successfully decoded value.
func inRange(ti typeInfo, d dpt.Datapoint) (bool, string) {
	v := deref(d)
	switch ti.Main {
	case 5:
		if v.Kind() == reflect.Float32 {
			x := v.Float()
			hi := 100.0
			if ti.Sub == 3 {
				hi = 360
			}
			if !(x >= 0 && x <= hi+1e-4) {
				return false, fmt.Sprintf("value %v outside 0..%v", x, hi)
			}
		}
	case 8:
		if v.Kind() == reflect.Float32 {
			if r, ok := rangeOf(ti); ok {
				x := v.Float()
				if !(x >= r.Lo-1e-3 && x <= r.Hi+1e-3) {
					return false, fmt.Sprintf("value %v outside %v..%v", x, r.Lo, r.Hi)
				}
			}
		}
	case 9:
		x := v.Float()
		lo, ok := f16Lo[ti.Sub]
		if !ok {
			lo = -670760
		}
		if math.IsNaN(x) || x < lo-1e-3 || x > 670760 {
			return false, fmt.Sprintf("value %v outside the documented range %v..670760", x, lo)
		}
	case 10:
		w, h, m, s := v.FieldByName("Weekday").Uint(), v.FieldByName("Hour").Uint(), v.FieldByName("Minutes").Uint(), v.FieldByName("Seconds").Uint()
		if w > 7 || h > 23 || m > 59 || s > 59 {
			return false, fmt.Sprintf("weekday %d hour %d minute %d second %d is not a time of day", w, h, m, s)
		}
	case 11:
		y, m, dd := int(v.FieldByName("Year").Uint()), int(v.FieldByName("Month").Uint()), int(v.FieldByName("Day").Uint())
		if !validDate(y, m, dd) {
			return false, fmt.Sprintf("%04d-%02d-%02d is not a calendar date within 1990..2089", y, m, dd)
		}
	case 16:
		// 14 characters of the type's character set: ASCII (16.000) or ISO 8859-1 (16.001)
		max := rune(0x7f)
		if ti.Sub == 1 {
			max = 0xff
		}
		rs := []rune(v.String())
		if len(rs) > 14 {
			return false, fmt.Sprintf("%d characters, the format holds 14", len(rs))
		}
		for _, r := range rs {
			if r > max || r == 0 {
				return false, fmt.Sprintf("character U+%04X is outside the type's character set (or NUL inside the string)", r)
			}
		}
	case 17:
		if v.Uint() > 63 {
			return false, fmt.Sprintf("scene number %d is not below 64", v.Uint())
		}
	case 18:
		if x := v.Uint(); !(x <= 63 || (x >= 128 && x <= 191)) {
			return false, fmt.Sprintf("scene control %d: scene number part is not below 64 / reserved bit set", x)
		}
	}
	return true, ""
}

// c08Check returns (accepted, ignoredBitsSet, failure).
func c08Check(ti typeInfo, d dpt.Datapoint, p []byte) (accepted bool, f *common.Fail) {
	defer func() {
		if r := recover(); r != nil {
			f = common.Failf("panic", "%s: decoding %d-byte payload %x panics: %v", ti.Name, len(p), p, r)
		}
	}()
	err := d.Unpack(p)
	wrongLen := (ti.WireL > 0 && len(p) != ti.WireL) || (ti.WireL == 0 && len(p) < 2)
	if err == nil && wrongLen {
		return true, common.Failf("length-accepted", "%s accepts the %d-byte payload %x although the format prescribes %s",
			ti.Name, len(p), p, map[bool]string{true: fmt.Sprintf("%d bytes", ti.WireL), false: "at least 2 bytes (leading byte and terminator)"}[ti.WireL > 0])
	}
	if err != nil {
		return false, nil
	}
	if ok, why := inRange(ti, d); !ok {
		return true, common.Failf("out-of-range", "%s decodes payload %x without error to %s: %s", ti.Name, p, showDP(d), why)
	}
	func() {
		defer func() {
			if r := recover(); r != nil {
				f = common.Failf("render-panic", "%s: String()/Unit() of %s (decoded from %x) panics: %v", ti.Name, showDP(d), p, r)
			}
		}()
		_ = d.String()
		_ = d.Unit()
		// rendering the value (not the pointer) as applications do
		_ = fmt.Sprint(deref(d).Interface())
	}()
	return true, f
}

func c08Run(p c08Plan) *common.Fail {
	if p.Type == "cold-start" {
		f, _ := coldRenderStarts(80)
		return f
	}
	ti, ok := typeByName(p.Type)
	if !ok {
		return common.Failf("type-missing", "type %q is not registered", p.Type)
	}
	for _, h := range p.Prev {
		if _, f := c08Check(ti, produce(ti.Name), unhx(h)); f != nil {
			return f
		}
	}
	_, f := c08Check(ti, produce(ti.Name), unhx(p.Hex))
	if f != nil && len(p.Prev) > 0 {
		f.Detail += fmt.Sprintf(" (decoded right after the payloads %v of the same type)", p.Prev)
	}
	return f
}

func TestC08(t *testing.T) {
	rec := common.NewRec("C08", "dpt")
	completed := false
	defer func() { rec.Finish(completed) }()
	if rec.Env.Replay != "" {
		common.ReplayOnly(t, rec, c08Run)
		completed = true
		return
	}
	// first of all: fresh processes in which the first decode + rendering of every type is a concurrent one
	if rec.Env.Shard == 0 {
		n := 40
		if rec.Env.Thorough() {
			n = 400
		}
		f, ran := coldRenderStarts(n)
		rec.Eval(int64(ran) * 16 * int64(len(allTypes())))
		rec.NonTrivialEnum(int64(ran))
		rec.ClassN("cold-start-render-processes", int64(ran))
		if f != nil {
			common.Report(t, rec, f, c08Plan{Type: "cold-start", Hex: ""})
		}
	}
	types := allTypes()
	thorough := rec.Env.Thorough()
	block := 0
	mine := func() bool { block++; return rec.Env.Mine(block) }
	stop := map[string]bool{}
	alpha := []byte{0x00, 0x01, 0x3f, 0x40, 0x41, 0x7f, 0x80, 0xbf, 0xc0, 0xff}

	for _, ti := range types {
		ti := ti
		d := produce(ti.Name)
		var evals, nt int64
		try := func(p []byte) {
			evals++
			acc, f := c08Check(ti, d, p)
			wrong := (ti.WireL > 0 && len(p) != ti.WireL) || (ti.WireL == 0 && len(p) < 2)
			if wrong || !acc {
				nt++
			} else if c, ok := canon(ti, p); ok && !bytes.Equal(c, p) {
				nt++ // accepted although reserved / ignored bits are set
			}
			if f != nil && !stop[ti.Name+f.Kind] {
				if common.Report(t, rec, f, c08Plan{Type: ti.Name, Hex: hx(p)}) {
					stop[ti.Name+f.Kind] = true
				}
			}
		}
		// every length 0..20: constant fills from the alphabet, a ramp, and "valid prefix + garbage"
		if mine() {
			// 0..20 densely, then every length up to 300 (the payload of a long frame handed to the wrong type: 254
			// octets fit into an extended frame, and what rejects a wrong length may do more work the longer it is)
			for n := 0; n <= 300; n++ {
				for _, a := range alpha {
					if n > 20 && a != 0x00 && a != 0x41 && a != 0xff && a != 0x80 {
						continue
					}
					try(bytes.Repeat([]byte{a}, n))
					if n > 0 {
						p := bytes.Repeat([]byte{a}, n)
						p[0] = 0
						try(p)
						p = bytes.Repeat([]byte{a}, n)
						p[n-1] = 0
						p[0] = 0
						try(p)
					}
				}
				p := make([]byte, n)
				for i := range p {
					p[i] = byte(i * 37)
				}
				try(p)
			}
			// all pairs of alphabet bytes in every position pair of the correct length +-1
			for _, n := range []int{ti.WireL - 1, ti.WireL, ti.WireL + 1} {
				if n < 1 || n > 16 {
					continue
				}
				for i := 0; i < n; i++ {
					for _, a := range alpha {
						for _, b := range alpha {
							p := make([]byte, n)
							p[i] = a
							p[(i+1)%n] = b
							try(p)
						}
					}
				}
			}
		}
		if ti.WireL <= 0 && mine() {
			// variable-length text: every payload of 0..6 octets over an alphabet of NUL, ASCII, the octets of the UTF-8
			// byte order mark, a lead octet, a continuation octet and 0xFF
			al := []byte{0x00, 0x41, 0xef, 0xbb, 0xbf, 0xc3, 0x80, 0xff}
			var rec2 func(p []byte, n int)
			rec2 = func(p []byte, n int) {
				if len(p) == n {
					try(append([]byte{}, p...))
					return
				}
				for _, a := range al {
					rec2(append(p, a), n)
				}
			}
			for n := 0; n <= 6; n++ {
				rec2(nil, n)
			}
		}
		if ti.Main == 16 && mine() {
			// texts that are well-formed UTF-8 (what a sender with the wrong character set transmits): every pair and
			// some longer runs of code points from each UTF-8 length class, alone and mixed with ASCII
			runes := []rune{'A', 0x7f, 0x80, 0xe4, 0xff, 0x100, 0x17f, 0x7ff, 0x800, 0x4f60, 0x597d, 0xffff, 0x10000, 0x1f600, 0x10ffff}
			text := func(rs ...rune) {
				b := append([]byte{0}, []byte(string(rs))...)
				if len(b) > 15 {
					return
				}
				try(append(b, make([]byte, 15-len(b))...))
			}
			for _, r1 := range runes {
				text(r1)
				for _, r2 := range runes {
					text(r1, r2)
					text('a', r1, 'b', r2)
					text(r1, r2, r1)
					text(r1, r1, r2, r2)
				}
			}
		}
		switch ti.WireL {
		case 1:
			if mine() {
				for x := 0; x < 256; x++ {
					try([]byte{byte(x)})
				}
			}
		case 2:
			if mine() {
				for x := 0; x < 65536; x++ {
					try([]byte{byte(x >> 8), byte(x)})
				}
			}
		case 3:
			leads := []int{0, 0xff}
			if thorough {
				leads = leads[:0]
				for l := 0; l < 256; l++ {
					leads = append(leads, l)
				}
			}
			for _, l := range leads {
				if !mine() {
					continue
				}
				for x := 0; x < 65536; x++ {
					try([]byte{byte(l), byte(x >> 8), byte(x)})
				}
			}
		case 4:
			// 10.001: weekday(3) hour(5) | minutes | seconds; 11.001: day | month | year - all field values x reserved bits
			for _, l := range []int{0, 0xff} {
				for b1 := 0; b1 < 256; b1++ {
					if !mine() {
						continue
					}
					step := 1
					if !thorough {
						step = 3
					}
					for b2 := 0; b2 < 256; b2++ {
						for b3 := 0; b3 < 256; b3 += step {
							try([]byte{byte(l), byte(b1), byte(b2), byte(b3)})
						}
						if !thorough {
							for _, b3 := range []int{59, 61, 64, 89, 91, 100, 127, 128, 191, 254} {
								try([]byte{byte(l), byte(b1), byte(b2), byte(b3)})
							}
						}
					}
				}
			}
		case 5:
			if mine() {
				f32Strata(func(u uint32) {
					try([]byte{0, byte(u >> 24), byte(u >> 16), byte(u >> 8), byte(u)})
				})
			}
		case 7:
			edge := []int{0, 1, 0x7f, 0x80, 0xff}
			for b6 := 0; b6 < 256; b6++ {
				if !mine() {
					continue
				}
				for _, l := range []int{0, 0xff} {
					for _, x1 := range edge {
						for _, x5 := range edge {
							try([]byte{byte(l), byte(x1), byte(x5), byte(x1), byte(x5 ^ x1), byte(x5), byte(b6)})
						}
					}
				}
			}
		}
		rec.Eval(evals)
		rec.NonTrivialEnum(nt)
		rec.ClassN(fmt.Sprintf("enum-main%d", ti.Main), evals)
	}
	// histories of two: every payload of a lattice decoded right after every other one of the same type (a receiver
	// that remembers what it validated last must not accept more because of it). Dates: every day 1..31 x month 1..12
	// of a year after every valid date of that year (years 1990, 2000, 2023, 2024, 2089; thorough: all 100); times of
	// day: the field boundaries; every other fixed-length type: the 100 alphabet pairs in its last two octets.
	{
		var pairs, pnt int64
		pairTry := func(ti typeInfo, x, y []byte) bool {
			pairs++
			accX, _ := c08Check(ti, produce(ti.Name), x)
			accY, f := c08Check(ti, produce(ti.Name), y)
			if accX && !accY {
				pnt++
			}
			if f != nil && !stop[ti.Name+f.Kind+"pair"] {
				f.Detail += fmt.Sprintf(" (decoded right after the payload %x of the same type)", x)
				if common.Report(t, rec, f, c08Plan{Type: ti.Name, Hex: hx(y), Prev: []string{hx(x)}}) {
					stop[ti.Name+f.Kind+"pair"] = true
				}
			}
			return f == nil
		}
		for _, ti := range types {
			var lattice [][]byte
			switch {
			case ti.Main == 11 && ti.WireL == 4:
				years := []int{1990, 2000, 2023, 2024, 2089}
				if thorough {
					years = years[:0]
					for y := 1990; y <= 2089; y++ {
						years = append(years, y)
					}
				}
				for _, y := range years {
					if !mine() {
						continue
					}
					yb := byte(y % 100)
					var valid, all [][]byte
					for m := 1; m <= 12; m++ {
						for dd := 1; dd <= 31; dd++ {
							p := []byte{0, byte(dd), byte(m), yb}
							all = append(all, p)
							if validDate(y, m, dd) {
								valid = append(valid, p)
							}
						}
					}
					for _, x := range valid {
						for _, yy := range all {
							if !pairTry(ti, x, yy) {
								break
							}
						}
					}
				}
				continue
			case ti.Main == 10 && ti.WireL == 4:
				for _, wd := range []int{0, 7} {
					for _, h := range []int{0, 12, 23, 24, 31} {
						for _, mi := range []int{0, 59, 60, 63} {
							for _, se := range []int{0, 59, 60, 63} {
								lattice = append(lattice, []byte{0, byte(wd<<5 | h), byte(mi), byte(se)})
							}
						}
					}
				}
			case ti.WireL >= 2 && ti.WireL <= 16:
				for _, a := range alpha {
					for _, b := range alpha {
						p := make([]byte, ti.WireL)
						p[ti.WireL-1] = b
						if ti.WireL > 2 {
							p[ti.WireL-2] = a
						} else if a != 0 {
							continue
						}
						lattice = append(lattice, p)
					}
				}
			}
			if len(lattice) == 0 || !mine() {
				continue
			}
		lat:
			for _, x := range lattice {
				for _, y := range lattice {
					if !pairTry(ti, x, y) {
						break lat
					}
				}
			}
		}
		rec.Eval(pairs)
		rec.NonTrivialEnum(pnt)
		rec.ClassN("decode-after-decode pairs", pairs)
		rec.Exhaustive("11.001: every day/month combination of a year decoded right after every valid date of that year (quick: 5 years, thorough: 1990..2089); 10.001: 160 field-boundary payloads, all ordered pairs; other fixed-length types: all ordered pairs of 100 payloads")
	}
	// the calendar check does not depend on the process's local time zone: every day/month combination of five years,
	// decoded under zones whose calendars have days without a midnight
	if rec.Env.Shard == 0 {
		if ti, ok := typeByName("11.001"); ok {
			var n int64
			done := false
			underZones(func(zone string) {
				for _, y := range []int{1990, 2000, 2011, 2017, 2024, 2089} {
					for m := 0; m <= 13 && !done; m++ {
						for dd := 0; dd <= 32; dd++ {
							n++
							p := []byte{0, byte(dd), byte(m), byte(y % 100)}
							if _, f := c08Check(ti, produce(ti.Name), p); f != nil {
								f.Detail += fmt.Sprintf(" (with the process's local time zone set to %s)", zone)
								common.Report(t, rec, f, c08Plan{Type: ti.Name, Hex: hx(p)})
								done = true
								break
							}
						}
					}
				}
			})
			rec.Eval(n)
			rec.ClassN("dates-under-local-zones", n)
		}
	}
	// concurrent decodes into separate instances (every socket has its own receiver goroutine, applications decode in
	// their handlers): "whenever decoding succeeds the value is in range" holds for each of them. For every main number:
	// 2..3 goroutines per registered type of it, payloads from the low and the high end of the byte range, each result
	// compared with the decode of the same payload done alone (and through that with the range predicate)
	if rec.Env.Shard == 0 {
		byMain := map[int][]typeInfo{}
		var mains []int
		for _, ti := range types {
			if len(byMain[ti.Main]) == 0 {
				mains = append(mains, ti.Main)
			}
			byMain[ti.Main] = append(byMain[ti.Main], ti)
		}
		var storms int64
		for _, m := range mains {
			plan := c19Plan{Mode: "storm"}
			for gi := 0; gi < 8; gi++ {
				ti := byMain[m][gi%len(byMain[m])]
				n := ti.WireL
				if n <= 0 {
					n = 9
				}
				mk := func(fill byte) string {
					p := bytes.Repeat([]byte{fill}, n)
					p[0] = 0
					if n == 1 {
						p[0] = fill & 0x3f
					}
					if ti.WireL <= 0 {
						p[n-1] = 0
					}
					return hx(p)
				}
				fills := [][]byte{{0x41, 0x7e}, {0xff, 0xe9}, {0x01, 0x80}, {0x3f, 0xc3}}[gi%4]
				plan.Ops = append(plan.Ops, []c19Op{{Op: "produce", Name: ti.Name, H: 400}, {Op: "unpack", Hex: mk(fills[0])}, {Op: "unpack", Hex: mk(fills[1])}})
			}
			storms++
			if f := common.Guard(func() *common.Fail { return c19Run(plan) }); f != nil {
				common.Report(t, rec, f, c08Plan{Type: byMain[m][0].Name, Hex: "00"})
				break
			}
		}
		rec.Eval(storms * 8 * 400 * 2)
		rec.ClassN("concurrent-decode-storms", storms)
	}
	rec.Exhaustive("every length 0..20 under 10 constant fills and every length 21..300 under 4 (with and without zero first/last byte) for each registered type; all 256 payloads of the 1-byte types; all 2^16 payloads of the 2-byte types; all 2^16 value encodings of the 3-byte types under leading bytes 00/ff; all reserved-bit octets of 242.600/251.600")
	if thorough {
		rec.Exhaustive("all 2^24 payloads of every 3-byte type; all 2^24 value octets (all day/month/year and weekday/hour/minute/second combinations with all reserved bits) of 10.001, 11.001, 232.600 under leading bytes 00/ff")
	}
	rec.Sample("wrong-length", c08Plan{Type: "28.001", Hex: "00"})
	rec.Sample("date", c08Plan{Type: "11.001", Hex: "001e0217"})
	rec.Sample("reserved-bits", c08Plan{Type: "251.600", Hex: "00010203040510"})

	common.Drive(t, rec, func(rt *rapid.T) c08Plan {
		ti := types[rapid.IntRange(0, len(types)-1).Draw(rt, "type")]
		var n int
		switch rapid.IntRange(0, 4).Draw(rt, "lenclass") {
		case 4:
			n = rapid.SampledFrom([]int{31, 32, 33, 63, 64, 65, 127, 128, 129, 253, 254, 255, 256, 257, 300, 1000}).Draw(rt, "len-long")
		case 0:
			n = rapid.IntRange(0, 20).Draw(rt, "len")
		case 1:
			n = ti.WireL + rapid.IntRange(-1, 1).Draw(rt, "delta")
		default:
			n = ti.WireL
		}
		if ti.WireL <= 0 && n <= 0 {
			n = rapid.IntRange(0, 40).Draw(rt, "vlen")
		}
		if n < 0 {
			n = 0
		}
		p := make([]byte, n)
		for i := range p {
			if rapid.IntRange(0, 2).Draw(rt, "how") == 0 {
				p[i] = rapid.Byte().Draw(rt, "b")
			} else {
				p[i] = rapid.SampledFrom(alpha).Draw(rt, "a")
			}
		}
		if ti.Kind == reflect.String && n >= 2 && rapid.IntRange(0, 2).Draw(rt, "utf8-text") == 0 {
			// well-formed UTF-8 text in the payload
			txt := []byte(rapid.StringOfN(rapid.RuneFrom(nil, unicode.Latin, unicode.Han, unicode.Cyrillic, unicode.So), 1, 14, -1).Draw(rt, "text"))
			for i := range p {
				p[i] = 0
			}
			for len(txt) > n-1 || !utf8.Valid(txt) {
				txt = txt[:len(txt)-1]
			}
			copy(p[1:], txt)
		}
		plan := c08Plan{Type: ti.Name, Hex: hx(p)}
		if n > 0 && rapid.IntRange(0, 2).Draw(rt, "with-history") == 0 {
			// 1..3 earlier payloads: close relatives of p (one octet changed) or p itself
			for i := 0; i < rapid.IntRange(1, 3).Draw(rt, "n-prev"); i++ {
				q := append([]byte{}, p...)
				if rapid.IntRange(0, 3).Draw(rt, "same") > 0 {
					k := rapid.IntRange(0, n-1).Draw(rt, "at")
					q[k] = byte(int(q[k]) + rapid.SampledFrom([]int{1, -1, 2, 16, -16, 128, 3, 12}).Draw(rt, "delta-b"))
				}
				plan.Prev = append(plan.Prev, hx(q))
			}
			rec.Class("rapid-with-history")
		}
		wrong := (ti.WireL > 0 && n != ti.WireL) || (ti.WireL == 0 && n < 2)
		switch {
		case wrong:
			rec.Class("rapid-wrong-length")
			rec.NonTrivial(common.Hash64([]byte(ti.Name), p))
		default:
			rec.Class("rapid-correct-length")
			if c, ok := canon(ti, p); ok && !bytes.Equal(c, p) {
				rec.NonTrivial(common.Hash64([]byte(ti.Name), p))
			}
		}
		rec.Sample("rapid", plan)
		return plan
	}, c08Run)
	completed = true
}
