// Package dptc decides the datapoint-type properties C06, C07, C08 and C19.
//
// Everything the oracles know about a type comes from the tables in this file, which are written
// from the KNX datapoint format (main number -> wire length, documented ranges) and never from the
// library's codecs.
package dptc

import (
	"encoding/hex"
	"fmt"
	"math"
	"reflect"
	"sort"
	"strconv"
	"strings"
	"time"
	_ "time/tzdata"

	"github.com/vapourismo/knx-go/knx/dpt"
	"verif/harness/common"
)

// typeInfo is what the harness knows about one registered name.
type typeInfo struct {
	Name  string
	Main  int
	Sub   int
	Kind  reflect.Kind // kind of the Go type behind the pointer
	WireL int          // prescribed payload length (0 = variable, -1 = unknown main number)
}

// wireLen: payload length prescribed by the KNX datapoint format, by main number.
// 1 = a single byte holding the value in its low 6 bits; n > 1 = a zero byte followed by n-1 value octets.
var wireLen = map[int]int{
	1: 1, 2: 1, 3: 1,
	4: 2, 5: 2, 6: 2, 17: 2, 18: 2, 20: 2, 21: 2, 23: 2,
	7: 3, 8: 3, 9: 3,
	10: 4, 11: 4, 232: 4,
	12: 5, 13: 5, 14: 5, 15: 5,
	16:  15,
	19:  9,
	242: 7, 251: 7,
	28: 0,
}

func allTypes() []typeInfo {
	names := dpt.ListSupportedTypes()
	sort.Slice(names, func(i, j int) bool {
		a, b := strings.SplitN(names[i], ".", 2), strings.SplitN(names[j], ".", 2)
		am, _ := strconv.Atoi(a[0])
		bm, _ := strconv.Atoi(b[0])
		if am != bm {
			return am < bm
		}
		return names[i] < names[j]
	})
	var out []typeInfo
	for _, n := range names {
		d, ok := dpt.Produce(n)
		if !ok || d == nil {
			continue // C19's business
		}
		ti := typeInfo{Name: n, WireL: -1}
		parts := strings.SplitN(n, ".", 2)
		ti.Main, _ = strconv.Atoi(parts[0])
		if len(parts) == 2 {
			ti.Sub, _ = strconv.Atoi(parts[1])
		}
		if l, ok := wireLen[ti.Main]; ok {
			ti.WireL = l
		}
		ti.Kind = reflect.TypeOf(d).Elem().Kind()
		out = append(out, ti)
	}
	return out
}

func produce(name string) dpt.Datapoint {
	d, ok := dpt.Produce(name)
	if !ok {
		return nil
	}
	return d
}

// deref returns the value behind the datapoint pointer.
func deref(d dpt.Datapoint) reflect.Value { return reflect.ValueOf(d).Elem() }

// sameDP compares two datapoints of the same type bit by bit (floats by their bits, so NaN == NaN
// and +0 != -0).
func sameDP(a, b dpt.Datapoint) bool {
	va, vb := deref(a), deref(b)
	if va.Type() != vb.Type() {
		return false
	}
	if va.Kind() == reflect.Float32 {
		return math.Float32bits(float32(va.Float())) == math.Float32bits(float32(vb.Float()))
	}
	return reflect.DeepEqual(va.Interface(), vb.Interface())
}

func showDP(d dpt.Datapoint) string {
	v := deref(d)
	if v.Kind() == reflect.Float32 {
		f := float32(v.Float())
		return fmt.Sprintf("%s(%v bits %#08x)", v.Type().Name(), f, math.Float32bits(f))
	}
	return fmt.Sprintf("%s(%#v)", v.Type().Name(), v.Interface())
}

func hx(b []byte) string { return hex.EncodeToString(b) }

func unhx(s string) []byte {
	b, _ := hex.DecodeString(s)
	return b
}

// setFloat stores f in a float32-kinded datapoint.
func setFloat(d dpt.Datapoint, f float32) { deref(d).SetFloat(float64(f)) }

func getFloat(d dpt.Datapoint) float32 { return float32(deref(d).Float()) }

// numRange is the documented range of a numeric float-typed datapoint and the step of its wire format.
type numRange struct {
	Lo, Hi float64
	// Step returns the quantisation step of the wire format at magnitude x (x within the range).
	Step func(x float64) float64
	F16  bool
}

// f16Step: the 16-bit float carries a 12-bit two's complement mantissa m and a 4-bit exponent e,
// value = 0.01*m*2^e. The step at x is 0.01*2^e for the smallest e whose mantissa range holds x.
func f16Step(x float64) float64 {
	s := math.Abs(x) * 100
	e := 0
	lim := 2047.0
	if x < 0 {
		lim = 2048
	}
	for e < 15 && s > lim {
		s /= 2
		e++
	}
	return 0.01 * float64(uint(1)<<uint(e))
}

// f16Lo: documented lower bounds of the 9.xxx types (KNX 03_07_02 3.10); everything else is
// -670760. The upper bound is 670760 for all of them.
var f16Lo = map[int]float64{
	1: -273, 4: 0, 5: 0, 6: 0, 7: 0, 8: 0, 27: -459.6, 28: 0, 29: 0,
}

func constStep(s float64) func(float64) float64 { return func(float64) float64 { return s } }

// rangeOf returns the documented range of the float-typed, non-IEEE datapoints; ok=false for
// types the table does not know (IEEE 14.xxx are handled separately: exact over all of float32).
func rangeOf(ti typeInfo) (numRange, bool) {
	switch ti.Main {
	case 5:
		switch ti.Sub {
		case 1:
			return numRange{Lo: 0, Hi: 100, Step: constStep(100.0 / 255)}, true
		case 3:
			return numRange{Lo: 0, Hi: 360, Step: constStep(360.0 / 255)}, true
		}
	case 8:
		switch ti.Sub {
		case 3, 10:
			return numRange{Lo: -327.68, Hi: 327.67, Step: constStep(0.01)}, true
		case 4:
			return numRange{Lo: -3276.8, Hi: 3276.7, Step: constStep(0.1)}, true
		}
	case 9:
		lo, ok := f16Lo[ti.Sub]
		if !ok {
			lo = -670760
		}
		return numRange{Lo: lo, Hi: 670760, Step: f16Step, F16: true}, true
	}
	return numRange{}, false
}

// exactFormat reports whether the wire format of ti is an exact integer, bit-field, enumeration,
// character or IEEE-754 format (decided from the Go kind and the prescribed length, not from the codec).
func exactFormat(ti typeInfo) bool {
	switch ti.Kind {
	case reflect.Bool, reflect.Int8, reflect.Int16, reflect.Int32, reflect.Uint8, reflect.Uint16, reflect.Uint32,
		reflect.String, reflect.Struct:
		return ti.WireL >= 0
	case reflect.Float32:
		return ti.WireL == 5 // IEEE-754 single
	}
	return false
}

// daysIn: own calendar routine (Gregorian).
func daysIn(year, month int) int {
	switch month {
	case 1, 3, 5, 7, 8, 10, 12:
		return 31
	case 4, 6, 9, 11:
		return 30
	case 2:
		if year%4 == 0 && (year%100 != 0 || year%400 == 0) {
			return 29
		}
		return 28
	}
	return 0
}

func validDate(y, m, d int) bool {
	return y >= 1990 && y <= 2089 && m >= 1 && m <= 12 && d >= 1 && d <= daysIn(y, m)
}

// packOwned returns a copy of d.Pack() and then overwrites the slice Pack handed out: an encoding belongs to the
// caller, which may do with it as it pleases - a later Pack (of this or any other value) must not be affected.
func packOwned(d dpt.Datapoint) []byte {
	enc := d.Pack()
	cp := append([]byte{}, enc...)
	for i := range enc {
		enc[i] = 0xa5
	}
	return cp
}

// zonesWithOddMidnights: local time zones in which some calendar days have no midnight (daylight saving starting at
// 00:00) or do not exist at all (a jump across the date line), plus ordinary ones. A KNX date is a triple of numbers;
// what the process's local zone is must not matter to any codec.
var zonesWithOddMidnights = []string{"America/Sao_Paulo", "America/Havana", "America/Santiago", "America/Asuncion", "Atlantic/Azores", "Pacific/Apia",
	"Pacific/Kiritimati", "Asia/Tehran", "Asia/Amman", "Asia/Beirut", "Africa/Cairo", "Europe/Berlin", "America/New_York", "Australia/Lord_Howe", "UTC"}

// underZones runs fn once per zone with time.Local set to it (sequentially; time.Local is restored afterwards). It
// returns the zones that could not be loaded.
func underZones(fn func(zone string)) (missing []string) {
	saved := time.Local
	defer func() { time.Local = saved }()
	for _, z := range zonesWithOddMidnights {
		loc, err := time.LoadLocation(z)
		if err != nil {
			missing = append(missing, z)
			continue
		}
		time.Local = loc
		fn(z)
	}
	return missing
}

// roundTripStorms: per main number, 8 goroutines (2..3 per registered type of it) decode two payloads each into their
// own instances reps times and encode and render them, every result compared with what the same steps give alone
// (c19Run, mode storm). fills: per goroutine class the two fill octets of its payloads. It returns the first failure,
// the first type of the main number it occurred in, and the number of storms run.
func roundTripStorms(types []typeInfo, fills [][]byte, reps int) (*common.Fail, string, int64) {
	byMain := map[int][]typeInfo{}
	var mains []int
	for _, ti := range types {
		if len(byMain[ti.Main]) == 0 {
			mains = append(mains, ti.Main)
		}
		byMain[ti.Main] = append(byMain[ti.Main], ti)
	}
	var storms int64
	for _, m := range mains {
		plan := c19Plan{Mode: "storm"}
		for gi := 0; gi < 8; gi++ {
			ti := byMain[m][gi%len(byMain[m])]
			n := ti.WireL
			if n <= 0 {
				n = 11
			}
			mk := func(fill byte) string {
				p := make([]byte, n)
				for i := range p {
					p[i] = fill
				}
				p[0] = 0
				if n == 1 {
					p[0] = fill & 0x3f
				}
				if ti.WireL <= 0 {
					p[n-1] = 0
				}
				return hx(p)
			}
			fl := fills[gi%len(fills)]
			plan.Ops = append(plan.Ops, []c19Op{{Op: "produce", Name: ti.Name, H: reps}, {Op: "unpack", Hex: mk(fl[0])}, {Op: "unpack", Hex: mk(fl[1])}})
		}
		storms++
		if f := common.Guard(func() *common.Fail { return c19Run(plan) }); f != nil {
			return f, byMain[m][0].Name, storms
		}
	}
	return nil, "", storms
}
