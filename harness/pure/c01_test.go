package pure

import (
	"bytes"
	"encoding/hex"
	"fmt"
	"reflect"
	"sync"
	"testing"
	"time"

	"github.com/vapourismo/knx-go/knx/cemi"
	"github.com/vapourismo/knx-go/knx/knxnet"
	"pgregory.net/rapid"
	"verif/harness/common"
)

// decodePlan is the replay unit of C01: a decoder entry point and the input bytes.
type decodePlan struct {
	Target  string `json:"target"`
	Hex     string `json:"hex"`
	Origin  string `json:"origin,omitempty"`  // how the input was derived (for the histogram)
	Remnant string `json:"remnant,omitempty"` // bytes that follow the input in the "reused receive buffer" context
	// Storm: further inputs (knxnet.Unpack); each of them and Hex is decoded Reps times by its own goroutine, all at once
	// (every socket has its own receiver goroutine): "the outcome is a function of the input bytes alone"
	Storm []string `json:"storm,omitempty"`
	Reps  int      `json:"reps,omitempty"`
}

// c01Storm: concurrent decodes do not influence each other and do not panic.
func c01Storm(p decodePlan) *common.Fail {
	type solo struct {
		in   []byte
		ok   bool
		n    uint
		val  knxnet.Service
		show string
	}
	var ss []solo
	for _, h := range append([]string{p.Hex}, p.Storm...) {
		in, err := hex.DecodeString(h)
		if err != nil {
			continue
		}
		var v knxnet.Service
		n, derr := knxnet.Unpack(append([]byte{}, in...), &v)
		ss = append(ss, solo{in, derr == nil, n, v, common.Show(v)})
	}
	fails := make([]*common.Fail, len(ss))
	var wg sync.WaitGroup
	start := make(chan struct{})
	for i := range ss {
		wg.Add(1)
		go func(i int) {
			defer wg.Done()
			x := ss[i]
			buf := make([]byte, len(x.in))
			defer func() {
				if r := recover(); r != nil {
					// (the panic value of a data race is not safe to format: only its type is reported)
					fails[i] = common.Failf("panic", "knxnet.Unpack of %x panics (%T) while %d other goroutines decode their own datagrams; alone it does not", x.in, r, len(ss)-1)
				}
			}()
			<-start
			for r := 0; r < p.Reps; r++ {
				copy(buf, x.in)
				var v knxnet.Service
				n, err := knxnet.Unpack(buf, &v)
				if (err == nil) != x.ok || (err == nil && (n != x.n || !reflect.DeepEqual(v, x.val))) {
					fails[i] = common.Failf("decode-interference", "round %d: knxnet.Unpack of %x gives (n=%d, err=%v) %s while %d other goroutines decode their own datagrams; alone it gives (n=%d, accepted=%v) %s",
						r, x.in, n, err, common.Show(v), len(ss)-1, x.n, x.ok, x.show)
					return
				}
			}
		}(i)
	}
	close(start)
	wg.Wait()
	for _, f := range fails {
		if f != nil {
			return f
		}
	}
	return nil
}

type decodeOutcome struct {
	ok    bool
	n     uint
	value any
	panic string
}

// decoders maps a target name to a function that decodes data into a fresh value.
var decoders = map[string]func(data []byte) (uint, error, any){
	"knxnet.Unpack": func(d []byte) (uint, error, any) {
		var s knxnet.Service
		n, err := knxnet.Unpack(d, &s)
		return n, err, s
	},
	"cemi.Unpack": func(d []byte) (uint, error, any) {
		var m cemi.Message
		n, err := cemi.Unpack(d, &m)
		return n, err, m
	},
	"knxnet.UnpackHeader": func(d []byte) (uint, error, any) {
		var id knxnet.ServiceID
		var tl uint16
		n, err := knxnet.UnpackHeader(d, &id, &tl)
		return n, err, [2]uint16{uint16(id), tl}
	},
	"HostInfo": func(d []byte) (uint, error, any) { v := &knxnet.HostInfo{}; n, e := v.Unpack(d); return n, e, v },
	"DeviceInformationBlock": func(d []byte) (uint, error, any) {
		v := &knxnet.DeviceInformationBlock{}
		n, e := v.Unpack(d)
		return n, e, v
	},
	"SupportedServicesDIB": func(d []byte) (uint, error, any) {
		v := &knxnet.SupportedServicesDIB{}
		n, e := v.Unpack(d)
		return n, e, v
	},
	"ServiceFamily": func(d []byte) (uint, error, any) { v := &knxnet.ServiceFamily{}; n, e := v.Unpack(d); return n, e, v },
	"DescriptionBlock": func(d []byte) (uint, error, any) {
		v := &knxnet.DescriptionBlock{}
		n, e := v.Unpack(d)
		return n, e, v
	},
	"UnknownDescriptionBlock": func(d []byte) (uint, error, any) {
		v := &knxnet.UnknownDescriptionBlock{}
		n, e := v.Unpack(d)
		return n, e, v
	},
	"ConnReq":        func(d []byte) (uint, error, any) { v := &knxnet.ConnReq{}; n, e := v.Unpack(d); return n, e, v },
	"ConnRes":        func(d []byte) (uint, error, any) { v := &knxnet.ConnRes{}; n, e := v.Unpack(d); return n, e, v },
	"ConnStateReq":   func(d []byte) (uint, error, any) { v := &knxnet.ConnStateReq{}; n, e := v.Unpack(d); return n, e, v },
	"ConnStateRes":   func(d []byte) (uint, error, any) { v := &knxnet.ConnStateRes{}; n, e := v.Unpack(d); return n, e, v },
	"DiscReq":        func(d []byte) (uint, error, any) { v := &knxnet.DiscReq{}; n, e := v.Unpack(d); return n, e, v },
	"DiscRes":        func(d []byte) (uint, error, any) { v := &knxnet.DiscRes{}; n, e := v.Unpack(d); return n, e, v },
	"TunnelReq":      func(d []byte) (uint, error, any) { v := &knxnet.TunnelReq{}; n, e := v.Unpack(d); return n, e, v },
	"TunnelRes":      func(d []byte) (uint, error, any) { v := &knxnet.TunnelRes{}; n, e := v.Unpack(d); return n, e, v },
	"RoutingInd":     func(d []byte) (uint, error, any) { v := &knxnet.RoutingInd{}; n, e := v.Unpack(d); return n, e, v },
	"RoutingLost":    func(d []byte) (uint, error, any) { v := &knxnet.RoutingLost{}; n, e := v.Unpack(d); return n, e, v },
	"RoutingBusy":    func(d []byte) (uint, error, any) { v := &knxnet.RoutingBusy{}; n, e := v.Unpack(d); return n, e, v },
	"SearchReq":      func(d []byte) (uint, error, any) { v := &knxnet.SearchReq{}; n, e := v.Unpack(d); return n, e, v },
	"SearchRes":      func(d []byte) (uint, error, any) { v := &knxnet.SearchRes{}; n, e := v.Unpack(d); return n, e, v },
	"DescriptionReq": func(d []byte) (uint, error, any) { v := &knxnet.DescriptionReq{}; n, e := v.Unpack(d); return n, e, v },
	"DescriptionRes": func(d []byte) (uint, error, any) { v := &knxnet.DescriptionRes{}; n, e := v.Unpack(d); return n, e, v },
	"UnknownService": func(d []byte) (uint, error, any) { v := &knxnet.UnknownService{}; n, e := v.Unpack(d); return n, e, v },
	"Info":           func(d []byte) (uint, error, any) { v := &cemi.Info{}; n, e := v.Unpack(d); return n, e, v },
	"LData":          func(d []byte) (uint, error, any) { v := &cemi.LData{}; n, e := v.Unpack(d); return n, e, v },
	"LRaw":           func(d []byte) (uint, error, any) { v := &cemi.LRaw{}; n, e := v.Unpack(d); return n, e, v },
	"LBusmonInd":     func(d []byte) (uint, error, any) { v := &cemi.LBusmonInd{}; n, e := v.Unpack(d); return n, e, v },
	"UnsupportedMessage": func(d []byte) (uint, error, any) {
		v := &cemi.UnsupportedMessage{}
		n, e := v.Unpack(d)
		return n, e, v
	},
}

// bodyTarget maps a service id to the name of its body decoder.
var bodyTarget = map[uint16]string{
	common.SvcSearchReq: "SearchReq", common.SvcSearchRes: "SearchRes", common.SvcDescrReq: "DescriptionReq", common.SvcDescrRes: "DescriptionRes",
	common.SvcConnReq: "ConnReq", common.SvcConnRes: "ConnRes", common.SvcConnStateReq: "ConnStateReq", common.SvcConnStateRes: "ConnStateRes",
	common.SvcDiscReq: "DiscReq", common.SvcDiscRes: "DiscRes", common.SvcTunnelReq: "TunnelReq", common.SvcTunnelRes: "TunnelRes",
	common.SvcRoutingInd: "RoutingInd", common.SvcRoutingLost: "RoutingLost", common.SvcRoutingBusy: "RoutingBusy",
}

// subTarget maps the name of a length field to the decoder of the structure that starts there.
var subTarget = map[string][]string{
	"hpai": {"HostInfo"}, "dib-devinfo": {"DeviceInformationBlock", "DescriptionBlock"}, "dib-families": {"SupportedServicesDIB", "DescriptionBlock"},
	"dib-extra": {"DescriptionBlock", "UnknownDescriptionBlock"}, "addinfo": {"Info", "LData"}, "tunnelhdr": {"TunnelReq", "TunnelRes"},
}

var c01Dog *common.Watchdog

func decodeIn(target string, buf []byte, n int) (out decodeOutcome) {
	defer func() {
		if p := recover(); p != nil {
			out = decodeOutcome{panic: fmt.Sprint(p)}
		}
	}()
	cnt, err, v := decoders[target](buf[:n:len(buf)])
	if err != nil {
		return decodeOutcome{ok: false}
	}
	return decodeOutcome{ok: true, n: cnt, value: common.Canon(v)}
}

// c01Run decodes the input in four buffer contexts and applies the C01 oracle.
func c01Run(p decodePlan) *common.Fail {
	if len(p.Storm) > 0 {
		return c01Storm(p)
	}
	in, err := hex.DecodeString(p.Hex)
	if err != nil {
		return nil
	}
	if _, ok := decoders[p.Target]; !ok {
		return nil
	}
	rem, _ := hex.DecodeString(p.Remnant)
	contexts := []struct {
		name string
		buf  []byte
	}{
		{"exact-capacity", nil}, {"zero-filled buffer", nil}, {"0xFF-filled buffer", nil}, {"buffer holding the remnant of a longer frame", nil},
	}
	exact := make([]byte, len(in), len(in))
	copy(exact, in)
	contexts[0].buf = exact
	for i, fill := range []byte{0x00, 0xff} {
		b := make([]byte, len(in)+300)
		for j := range b {
			b[j] = fill
		}
		copy(b, in)
		contexts[1+i].buf = b
	}
	b := make([]byte, len(in)+300)
	for j := len(in); j < len(b); j++ {
		if len(rem) > 0 {
			b[j] = rem[j%len(rem)]
		} else {
			b[j] = byte(j*7 + 1)
		}
	}
	copy(b, in)
	contexts[3].buf = b

	if c01Dog != nil {
		c01Dog.Enter("decoding with "+p.Target, p)
		defer c01Dog.Leave()
	}
	var first decodeOutcome
	for i, c := range contexts {
		o := decodeIn(p.Target, c.buf, len(in))
		if o.panic != "" {
			return common.Failf("panic", "%s panics on %d-byte input %s in context %q: %s", p.Target, len(in), p.Hex, c.name, o.panic)
		}
		if o.ok && int(o.n) > len(in) {
			return common.Failf("consumed-beyond-input", "%s reports %d consumed bytes for a %d-byte input %s (context %q)", p.Target, o.n, len(in), p.Hex, c.name)
		}
		if i == 0 {
			first = o
			continue
		}
		if o.ok != first.ok || o.n != first.n || !reflect.DeepEqual(o.value, first.value) {
			return common.Failf("depends-on-bytes-beyond-input", "%s on input %s: exact-capacity slice gives (ok=%v n=%d %v) but %s gives (ok=%v n=%d %v)",
				p.Target, p.Hex, first.ok, first.n, first.value, c.name, o.ok, o.n, o.value)
		}
	}
	return nil
}

var lenValues = func(tr int) []int { return []int{0, 1, 2, 3, tr - 1, tr + 1, 0x7f, 0xff} }

func setLen(b []byte, lf common.LenField, v int) {
	if lf.Width == 2 {
		if v == 0x7f {
			v = 0x7fff
		} else if v == 0xff {
			v = 0xffff
		}
		b[lf.Off] = byte(v >> 8)
		b[lf.Off+1] = byte(v)
	} else {
		b[lf.Off] = byte(v)
	}
}

// genDIBs draws extra description blocks whose length octets may disagree with the bytes present.
func genDIBs(rt *rapid.T) []common.RDIB {
	n := rapid.IntRange(0, 4).Draw(rt, "ndib")
	var out []common.RDIB
	for i := 0; i < n; i++ {
		body := common.GenBytes(rt, "dibbody", 0, 60)
		d := common.RDIB{Type: rapid.SampledFrom([]uint8{1, 2, 3, 4, 5, 0xfe, 0, 6, 0x7f, 0xff}).Draw(rt, "dibtype"), Body: body}
		switch rapid.IntRange(0, 4).Draw(rt, "diblenmode") {
		case 0:
			d.Len = uint8(len(body) + 2)
		case 1:
			d.Len = rapid.SampledFrom([]uint8{0, 1, 2, 3, 4, 0x36, 0x7f, 0xff}).Draw(rt, "diblen")
		case 2:
			d.Len = uint8(len(body) + 2 + rapid.IntRange(-3, 3).Draw(rt, "dibdelta"))
		default:
			d.Len = rapid.Uint8().Draw(rt, "diblenany")
		}
		out = append(out, d)
	}
	return out
}

// genDecodePlan derives one input constructively from a valid frame.
func genDecodePlan(rt *rapid.T) decodePlan {
	if rapid.IntRange(0, 199).Draw(rt, "storm") == 0 {
		// well-formed frames (mostly those with text fields and description blocks), decoded concurrently
		p := decodePlan{Target: "knxnet.Unpack", Origin: "storm", Reps: rapid.SampledFrom([]int{30, 100}).Draw(rt, "storm-reps")}
		for i := 0; i < rapid.IntRange(2, 8).Draw(rt, "storm-frames"); i++ {
			kind := rapid.SampledFrom([]string{"searchres", "descrres", "descrres", "tunnelreq", "routingind", "connres-ok"}).Draw(rt, "storm-kind")
			ck := ""
			if common.CarriesCemi(kind) {
				ck = rapid.SampledFrom(common.CemiKinds).Draw(rt, "storm-cemikind")
			}
			b, _ := common.RefEncode(common.GenFrame(rt, kind, ck))
			if i == 0 {
				p.Hex = hex.EncodeToString(b)
			} else {
				p.Storm = append(p.Storm, hex.EncodeToString(b))
			}
		}
		return p
	}
	var kind string
	switch rapid.IntRange(0, 9).Draw(rt, "kindclass") {
	case 0, 1, 2, 3:
		kind = rapid.SampledFrom([]string{"tunnelreq", "routingind"}).Draw(rt, "kind")
	case 4, 5:
		kind = rapid.SampledFrom([]string{"searchres", "descrres"}).Draw(rt, "kind")
	default:
		kind = rapid.SampledFrom(common.AllFrameKinds).Draw(rt, "kind")
	}
	ck := ""
	if common.CarriesCemi(kind) {
		ck = rapid.SampledFrom(common.CemiKinds).Draw(rt, "cemikind")
	}
	f := common.GenFrame(rt, kind, ck)
	if kind == "descrres" && rapid.Bool().Draw(rt, "withdibs") {
		f.Extra = genDIBs(rt)
	}
	full, lens := common.RefEncode(f)
	remFrame := common.GenFrame(rt, kind, ck)
	rem, _ := common.RefEncode(remFrame)

	// choose the entry point and the matching slice of the frame
	target := "knxnet.Unpack"
	b := append([]byte{}, full...)
	off := 0
	switch rapid.IntRange(0, 11).Draw(rt, "entry") {
	case 0, 1:
		if t, ok := bodyTarget[f.Service]; ok {
			target, off = t, 6
		} else {
			target, off = "UnknownService", 6
		}
	case 2:
		if f.Cemi != nil {
			target = "cemi.Unpack"
			off = 6
			if f.Service == common.SvcTunnelReq {
				off = 10
			}
		}
	case 3, 10, 11:
		var cands []common.LenField
		for _, lf := range lens {
			if _, ok := subTarget[lf.Name]; ok {
				cands = append(cands, lf)
			}
		}
		if len(cands) > 0 {
			lf := cands[rapid.IntRange(0, len(cands)-1).Draw(rt, "sub")]
			ts := subTarget[lf.Name]
			target, off = ts[rapid.IntRange(0, len(ts)-1).Draw(rt, "subt")], lf.Off
		}
	case 4:
		if f.Cemi != nil && !common.IsLData(f.Cemi.Code) {
			target = rapid.SampledFrom([]string{"LRaw", "LBusmonInd", "UnsupportedMessage"}).Draw(rt, "rawt")
			off = 7
			if f.Service == common.SvcTunnelReq {
				off = 11
			}
		}
	case 5:
		target = "knxnet.UnpackHeader"
	}
	b = b[off:]
	var rl []common.LenField
	for _, lf := range lens {
		if lf.Off >= off {
			lf.Off -= off
			rl = append(rl, lf)
		}
	}
	origin := "valid"
	switch rapid.IntRange(0, 11).Draw(rt, "mutation") {
	case 0:
		// valid
	case 1, 2:
		origin = "truncated"
		b = b[:rapid.IntRange(0, len(b)).Draw(rt, "cut")]
	case 3, 4, 5:
		origin = "length-octet"
		k := rapid.IntRange(1, 2).Draw(rt, "nlen")
		for i := 0; i < k && len(rl) > 0; i++ {
			lf := rl[rapid.IntRange(0, len(rl)-1).Draw(rt, "lf")]
			setLen(b, lf, rapid.SampledFrom(lenValues(lf.True)).Draw(rt, "lv"))
		}
		if rapid.IntRange(0, 3).Draw(rt, "alsocut") == 0 {
			b = b[:rapid.IntRange(0, len(b)).Draw(rt, "cut")]
			origin = "length-octet+truncated"
		}
	case 6:
		origin = "bitflip"
		if len(b) > 0 {
			for i := rapid.IntRange(1, 3).Draw(rt, "nflip"); i > 0; i-- {
				b[rapid.IntRange(0, len(b)-1).Draw(rt, "pos")] ^= 1 << rapid.IntRange(0, 7).Draw(rt, "bit")
			}
		}
	case 7:
		origin = "insert-delete"
		if len(b) > 0 {
			pos := rapid.IntRange(0, len(b)-1).Draw(rt, "pos")
			if rapid.Bool().Draw(rt, "ins") {
				b = append(b[:pos], append(common.GenBytes(rt, "ins", 1, 4), b[pos:]...)...)
			} else {
				b = append(b[:pos], b[pos+1:]...)
			}
		}
	case 8:
		origin = "splice"
		cut := rapid.IntRange(0, len(b)).Draw(rt, "cut")
		cut2 := rapid.IntRange(0, len(rem)).Draw(rt, "cut2")
		b = append(append([]byte{}, b[:cut]...), rem[cut2:]...)
	case 9:
		origin = "trailing-garbage"
		b = append(b, common.GenBytes(rt, "trail", 1, 40)...)
	case 10:
		origin = "raw-body"
		if target == "knxnet.Unpack" && len(b) >= 6 {
			body := common.GenBytes(rt, "rawbody", 0, 80)
			b = append(b[:6], body...)
			if rapid.Bool().Draw(rt, "fixlen") {
				b[4], b[5] = byte(len(b)>>8), byte(len(b))
			}
		} else {
			b = append(b[:min(len(b), 1)], common.GenBytes(rt, "rawbody", 0, 80)...)
		}
	case 11:
		origin = "length-octet-byte-sweep"
		if len(rl) > 0 {
			lf := rl[rapid.IntRange(0, len(rl)-1).Draw(rt, "lf")]
			setLen(b, common.LenField{Off: lf.Off, Width: 1}, int(rapid.Uint8().Draw(rt, "anylen")))
		}
	}
	if len(b) > 1024 {
		b = b[:1024]
	}
	return decodePlan{Target: target, Hex: hex.EncodeToString(b), Origin: origin, Remnant: hex.EncodeToString(rem)}
}

func c01NonTrivial(p decodePlan, in []byte) bool {
	if p.Origin == "valid" {
		return false
	}
	if p.Target != "knxnet.Unpack" {
		return true
	}
	if len(in) < 6 || in[0] != 6 || in[1] != 0x10 {
		return false
	}
	_, known := bodyTarget[uint16(in[2])<<8|uint16(in[3])]
	return known
}

func c01Classify(rec *common.Rec, p decodePlan) {
	in, _ := hex.DecodeString(p.Hex)
	if c01Dog != nil {
		c01Dog.Enter("decoding with "+p.Target, p)
		defer c01Dog.Leave()
	}
	o := decodeIn(p.Target, append(make([]byte, 0, len(in)+1), in...), len(in))
	verdict := "rejected"
	if o.ok {
		verdict = "accepted"
	}
	rec.Class(p.Origin + "/" + verdict)
	rec.Class("target:" + p.Target)
	if c01NonTrivial(p, in) {
		rec.NonTrivial(common.Hash64([]byte(p.Target), in))
	}
}

func TestC01(t *testing.T) {
	rec := common.NewRec("C01", "pure")
	completed := false
	defer func() { rec.Finish(completed) }()
	c01Dog = common.NewWatchdog(rec, 4*time.Second)
	if rec.Env.Replay != "" {
		common.InstallLoggerForOddShards(common.ReplayShard(rec.Env.Replay))
	}
	if common.InstallLoggerForOddShards(rec.Env.Shard) {
		rec.Class("log target installed (diagnostic lines executed)")
	}
	if rec.Env.Replay != "" {
		common.ReplayOnly(t, rec, c01Run)
		completed = true
		return
	}
	// Part 1: exhaustive truncations and single/pairwise length-octet overwrites of generated valid frames.
	nframes := rec.Env.N(300)
	idx := 0
	stop := map[string]bool{}
	try := func(p decodePlan) {
		rec.Eval(1)
		in, _ := hex.DecodeString(p.Hex)
		if c01NonTrivial(p, in) {
			rec.NonTrivial(common.Hash64([]byte(p.Target), in))
		}
		rec.Class(p.Origin)
		if f := c01Run(p); f != nil && !stop[f.Kind] {
			if common.Report(t, rec, f, p) {
				stop[f.Kind] = true
			}
		}
	}
	rapid.Check(t, func(rt *rapid.T) {
		// this rapid property only *generates* frames for the enumerating loops; it cannot fail
		if idx >= nframes {
			return
		}
		idx++
		kind := common.AllFrameKinds[idx%len(common.AllFrameKinds)]
		ck := common.CemiKinds[(idx/len(common.AllFrameKinds))%len(common.CemiKinds)]
		f := common.GenFrame(rt, kind, ck)
		if kind == "descrres" {
			f.Extra = genDIBs(rt)
		}
		full, lens := common.RefEncode(f)
		if len(full) > 1024 {
			return
		}
		rem := hex.EncodeToString(full)
		for cut := 0; cut <= len(full); cut++ {
			try(decodePlan{Target: "knxnet.Unpack", Hex: hex.EncodeToString(full[:cut]), Origin: "enum-truncation", Remnant: rem})
		}
		if f.Cemi != nil {
			cb, _ := common.RefEncodeCemi(f.Cemi)
			for cut := 0; cut <= len(cb); cut++ {
				try(decodePlan{Target: "cemi.Unpack", Hex: hex.EncodeToString(cb[:cut]), Origin: "enum-truncation-cemi", Remnant: rem})
			}
		}
		// a length octet at its maximum with enough octets behind it that the announced length is *present*: cursors
		// and sums narrower than the buffer wrap there (0xff, and the values around it, followed by 300 filler octets)
		for _, lf := range lens {
			if lf.Width != 1 || lf.Off < 6 {
				continue
			}
			for _, v := range []int{0xff, 0xfe, 0x80} {
				for _, fill := range []byte{0x00, 0x02, 0xff} {
					b := append(append([]byte{}, full...), bytes.Repeat([]byte{fill}, 300)...)
					setLen(b, lf, v)
					if len(b) <= 1024 {
						b[4], b[5] = byte(len(b)>>8), byte(len(b))
						try(decodePlan{Target: "knxnet.Unpack", Hex: hex.EncodeToString(b), Origin: "enum-length-octet-max-with-filler"})
					}
				}
			}
		}
		for i, lf := range lens {
			for _, v := range lenValues(lf.True) {
				b := append([]byte{}, full...)
				setLen(b, lf, v)
				try(decodePlan{Target: "knxnet.Unpack", Hex: hex.EncodeToString(b), Origin: "enum-length-octet", Remnant: rem})
				if idx%4 == 0 {
					for _, lf2 := range lens[i+1:] {
						for _, v2 := range lenValues(lf2.True) {
							b2 := append([]byte{}, b...)
							setLen(b2, lf2, v2)
							try(decodePlan{Target: "knxnet.Unpack", Hex: hex.EncodeToString(b2), Origin: "enum-length-octet-pair", Remnant: rem})
						}
					}
				}
			}
		}
		rec.Sample("valid-frame-"+kind, map[string]any{"kind": kind, "hex": rem, "length_fields": lens})
	})
	rec.Exhaustive(fmt.Sprintf("every truncation and every single length-octet overwrite {0,1,2,3,true-1,true+1,0x7f,0xff} of %d generated valid frames (pairs for a quarter of them)", idx))
	// Part 2: rapid-generated constructive mutations over all entry points.
	common.Drive(t, rec, func(rt *rapid.T) decodePlan {
		p := genDecodePlan(rt)
		c01Classify(rec, p)
		rec.Sample(p.Origin+"@"+p.Target, p)
		return p
	}, c01Run)
	completed = true
}
