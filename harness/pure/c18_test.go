package pure

import (
	"fmt"
	"math/big"
	"strings"
	"sync"
	"testing"

	"github.com/vapourismo/knx-go/knx/cemi"
	"pgregory.net/rapid"
	"verif/harness/common"
)

// ---- independent reference parser (written from the doc comments of address.go) ----

type refVerdict int

const (
	refReject   refVerdict = iota // must be rejected
	refAccept                     // must be accepted with value
	refDontCare                   // signed / zero-padded numerals: acceptance not prescribed
)

// refNum classifies one component. canonical = decimal without sign and without leading zeros.
func refNum(s string) (val int64, canonical bool, numeric bool) {
	if s == "" {
		return 0, false, false
	}
	body := s
	neg := false
	if body[0] == '+' || body[0] == '-' {
		neg = body[0] == '-'
		body = body[1:]
	}
	if body == "" || len(body) > 18 {
		// overlong digit strings: numeric only if they are all digits; value saturates
		if body == "" {
			return 0, false, false
		}
	}
	for i := 0; i < len(body); i++ {
		if body[i] < '0' || body[i] > '9' {
			return 0, false, false
		}
	}
	var v int64
	for i := 0; i < len(body); i++ {
		if v < 1<<40 {
			v = v*10 + int64(body[i]-'0')
		}
	}
	if neg {
		v = -v
	}
	canon := body == s && (len(body) == 1 || body[0] != '0')
	return v, canon, true
}

// refParse: levels gives the inclusive upper bounds per form (3-level, 2-level) and the field widths.
func refParse(text, sep string, max3 [3]int64, shift3 [3]uint, max2 [2]int64, shift2 [2]uint) (refVerdict, uint16) {
	parts := strings.Split(text, sep)
	vals := make([]int64, len(parts))
	allCanon := true
	for i, p := range parts {
		v, canon, numeric := refNum(p)
		if !numeric {
			return refReject, 0
		}
		vals[i] = v
		allCanon = allCanon && canon
	}
	var value uint16
	ok := true
	switch len(parts) {
	case 3:
		for i := range vals {
			if vals[i] < 0 || vals[i] > max3[i] {
				ok = false
			}
		}
		value = uint16(vals[0])<<shift3[0] | uint16(vals[1])<<shift3[1] | uint16(vals[2])<<shift3[2]
	case 2:
		for i := range vals {
			if vals[i] < 0 || vals[i] > max2[i] {
				ok = false
			}
		}
		value = uint16(vals[0])<<shift2[0] | uint16(vals[1])<<shift2[1]
	case 1:
		if vals[0] < 1 || vals[0] > 65535 {
			ok = false
		}
		value = uint16(vals[0])
	default:
		return refReject, 0
	}
	if !ok || value == 0 {
		// address zero and out-of-range components are rejected whatever the numeral style
		return refReject, 0
	}
	if allCanon {
		return refAccept, value
	}
	return refDontCare, value
}

func refGroup(text string) (refVerdict, uint16) {
	return refParse(text, "/", [3]int64{31, 7, 255}, [3]uint{11, 8, 0}, [2]int64{31, 2047}, [2]uint{11, 0})
}

func refIndiv(text string) (refVerdict, uint16) {
	return refParse(text, ".", [3]int64{15, 15, 255}, [3]uint{12, 8, 0}, [2]int64{255, 255}, [2]uint{8, 0})
}

type c18Case struct {
	Kind string  `json:"kind"` // group-parse | indiv-parse | group-rt | indiv-rt | ctor
	Text string  `json:"text,omitempty"`
	Addr uint16  `json:"addr,omitempty"`
	Ctor string  `json:"ctor,omitempty"`
	Args []int64 `json:"args,omitempty"`
}

// c18Concurrent: 8 goroutines walk all addresses from different offsets, formatting and parsing both kinds.
func c18Concurrent() *common.Fail {
	var wg sync.WaitGroup
	fails := make([]*common.Fail, 8)
	for g := 0; g < 8; g++ {
		wg.Add(1)
		go func(g int) {
			defer wg.Done()
			fails[g] = common.Guard(func() *common.Fail {
				for i := 0; i < 65535; i++ {
					a := uint16((i+g*8191)%65535) + 1
					for _, k := range []string{"group-rt", "indiv-rt"} {
						if f := c18Run(c18Case{Kind: k, Addr: a}); f != nil {
							f.Detail = fmt.Sprintf("with 8 goroutines formatting and parsing concurrently: %s", f.Detail)
							return f
						}
					}
				}
				return nil
			})
		}(g)
	}
	wg.Wait()
	for _, f := range fails {
		if f != nil {
			return f
		}
	}
	return nil
}

func c18Run(c c18Case) *common.Fail {
	if c.Kind == "concurrent-rt" {
		return c18Concurrent()
	}
	switch c.Kind {
	case "group-parse", "indiv-parse":
		var verdict refVerdict
		var want uint16
		var got uint16
		var err error
		if c.Kind == "group-parse" {
			verdict, want = refGroup(c.Text)
			var g cemi.GroupAddr
			g, err = cemi.NewGroupAddrString(c.Text)
			got = uint16(g)
		} else {
			verdict, want = refIndiv(c.Text)
			var g cemi.IndividualAddr
			g, err = cemi.NewIndividualAddrString(c.Text)
			got = uint16(g)
		}
		switch verdict {
		case refReject:
			if err == nil {
				return common.Failf("accepted-malformed", "%s %q must be rejected but parsed to %d", c.Kind, c.Text, got)
			}
		case refAccept:
			if err != nil {
				return common.Failf("rejected-wellformed", "%s %q must parse to %d but was rejected: %v", c.Kind, c.Text, want, err)
			}
			if got != want {
				return common.Failf("wrong-value", "%s %q parsed to %d, reference says %d", c.Kind, c.Text, got, want)
			}
		case refDontCare:
			if err == nil && got == 0 {
				return common.Failf("zero-accepted", "%s %q is accepted and yields address 0: address zero is never a result, however its components are spelled", c.Kind, c.Text)
			}
			if err == nil && got != want {
				return common.Failf("wrong-value", "%s %q (non-canonical numerals) accepted as %d, reference value %d", c.Kind, c.Text, got, want)
			}
		}
	case "group-rt":
		s := cemi.GroupAddr(c.Addr).String()
		g, err := cemi.NewGroupAddrString(s)
		if err != nil || uint16(g) != c.Addr {
			return common.Failf("roundtrip", "group address %d formats as %q which parses to %d, err=%v", c.Addr, s, g, err)
		}
		if want := fmt.Sprintf("%d/%d/%d", c.Addr>>11, (c.Addr>>8)&7, c.Addr&0xff); s != want {
			return common.Failf("format", "group address %d formats as %q, reference %q", c.Addr, s, want)
		}
	case "indiv-rt":
		s := cemi.IndividualAddr(c.Addr).String()
		g, err := cemi.NewIndividualAddrString(s)
		if err != nil || uint16(g) != c.Addr {
			return common.Failf("roundtrip", "individual address %d formats as %q which parses to %d, err=%v", c.Addr, s, g, err)
		}
		if want := fmt.Sprintf("%d.%d.%d", c.Addr>>12, (c.Addr>>8)&15, c.Addr&0xff); s != want {
			return common.Failf("format", "individual address %d formats as %q, reference %q", c.Addr, s, want)
		}
	case "ctor":
		a := c.Args
		var got, want uint16
		switch c.Ctor {
		case "NewGroupAddr3":
			got = uint16(cemi.NewGroupAddr3(uint8(a[0]), uint8(a[1]), uint8(a[2])))
			want = uint16(a[0]&0x1f)<<11 | uint16(a[1]&7)<<8 | uint16(a[2]&0xff)
		case "NewGroupAddr2":
			got = uint16(cemi.NewGroupAddr2(uint8(a[0]), uint16(a[1])))
			want = uint16(a[0]&0x1f)<<11 | uint16(a[1]&0x7ff)
		case "NewIndividualAddr3":
			got = uint16(cemi.NewIndividualAddr3(uint8(a[0]), uint8(a[1]), uint8(a[2])))
			want = uint16(a[0]&0xf)<<12 | uint16(a[1]&0xf)<<8 | uint16(a[2]&0xff)
		case "NewIndividualAddr2":
			got = uint16(cemi.NewIndividualAddr2(uint8(a[0]), uint8(a[1])))
			want = uint16(a[0]&0xff)<<8 | uint16(a[1]&0xff)
		}
		if got != want {
			return common.Failf("ctor", "%s%v = %#04x, reference %#04x", c.Ctor, a, got, want)
		}
	}
	return nil
}

var c18Alphabet = []string{
	"0", "1", "2", "3", "7", "8", "9", "15", "16", "31", "32", "255", "256", "2047", "2048", "65535", "65536",
	"/", "/", ".", ".", "-", "+", " ", "", "a", "x", "0x1", "1e1", "\"", "`", "'", "\\x31", "_", "%2F", "\x00", "١", "１", "\t", "00", "01", ",", ":", "99999999999999999999",
}

// wrapNumeral writes k*2^w + r in decimal: far out of range, but congruent to the in-range r modulo the width of a
// machine integer - what a hand-written or narrowing numeral parser turns into r.
func wrapNumeral(k int64, w uint, r int64) string {
	v := new(big.Int).Lsh(big.NewInt(k), w)
	return v.Add(v, big.NewInt(r)).String()
}

var c18Forms = []struct {
	kind, sep string
	hi        []int64
}{
	{"group-parse", "/", []int64{31, 7, 255}}, {"group-parse", "/", []int64{31, 2047}}, {"group-parse", "/", []int64{65535}},
	{"indiv-parse", ".", []int64{15, 15, 255}}, {"indiv-parse", ".", []int64{255, 255}}, {"indiv-parse", ".", []int64{65535}},
}

// c18GenWrapped: a well-shaped address text in which one component is such a wrapped numeral.
func c18GenWrapped(rt *rapid.T) c18Case {
	f := c18Forms[rapid.IntRange(0, len(c18Forms)-1).Draw(rt, "form")]
	at := rapid.IntRange(0, len(f.hi)-1).Draw(rt, "wrapped-component")
	parts := make([]string, len(f.hi))
	for i, hi := range f.hi {
		r := rapid.Int64Range(0, hi).Draw(rt, "r")
		if i == at {
			k := rapid.Int64Range(1, 5).Draw(rt, "k")
			if rapid.IntRange(0, 4).Draw(rt, "neg") == 0 {
				k = -k
			}
			parts[i] = wrapNumeral(k, rapid.SampledFrom([]uint{8, 16, 31, 32, 63, 64, 64, 64, 128}).Draw(rt, "w"), r)
		} else {
			if r == 0 {
				r = 1
			}
			parts[i] = fmt.Sprint(r)
		}
	}
	return c18Case{Kind: f.kind, Text: strings.Join(parts, f.sep)}
}

func c18GenMalformed(rt *rapid.T) c18Case {
	if rapid.IntRange(0, 3).Draw(rt, "wrapped") == 0 {
		return c18GenWrapped(rt)
	}
	n := rapid.IntRange(0, 7).Draw(rt, "n")
	var sb strings.Builder
	for i := 0; i < n; i++ {
		sb.WriteString(rapid.SampledFrom(c18Alphabet).Draw(rt, "tok"))
	}
	kind := rapid.SampledFrom([]string{"group-parse", "indiv-parse"}).Draw(rt, "kind")
	return c18Case{Kind: kind, Text: sb.String()}
}

func TestC18(t *testing.T) {
	rec := common.NewRec("C18", "pure")
	completed := false
	defer func() { rec.Finish(completed) }()
	if rec.Env.Replay != "" {
		common.ReplayOnly(t, rec, c18Run)
		completed = true
		return
	}
	idx := 0
	do := func(c c18Case, nontrivial bool) {
		idx++
		if !rec.Env.Mine(idx) {
			return
		}
		rec.Eval(1)
		if nontrivial {
			rec.NonTrivialEnum(1)
		}
		f := common.Guard(func() *common.Fail { return c18Run(c) })
		if f != nil {
			common.Report(t, rec, f, c)
		}
	}
	// 0. first of all (before anything has been formatted in this process): the round trip from 8 goroutines at once
	// (formatting and parsing are functions of their argument; an application formats addresses from its receive
	// loop and from its user interface concurrently)
	if rec.Env.Shard == 0 {
		cc := c18Case{Kind: "concurrent-rt"}
		rec.InFlight(cc)
		f := c18Run(cc)
		rec.Landed()
		rec.Eval(8 * 2 * 65535)
		rec.ClassN("concurrent-round-trip", 8*2*65535)
		if f != nil {
			common.Report(t, rec, f, cc)
		}
	}
	// 1. round trip, exhaustive
	for a := 1; a <= 65535; a++ {
		do(c18Case{Kind: "group-rt", Addr: uint16(a)}, true)
		do(c18Case{Kind: "indiv-rt", Addr: uint16(a)}, true)
	}
	// 1b. the texts are kept: format every address of both kinds first (alternating), parse afterwards - a text handed
	// out belongs to the caller and does not change when another address is formatted
	if rec.Env.Shard == 0 {
		gt, it := make([]string, 65536), make([]string, 65536)
		for a := 1; a <= 65535; a++ {
			gt[a] = cemi.GroupAddr(a).String()
			it[a] = cemi.IndividualAddr(a).String()
		}
		bad := 0
		for a := 1; a <= 65535 && bad == 0; a++ {
			g, errG := cemi.NewGroupAddrString(gt[a])
			i, errI := cemi.NewIndividualAddrString(it[a])
			if errG != nil || uint16(g) != uint16(a) || errI != nil || uint16(i) != uint16(a) {
				bad++
				common.Report(t, rec, common.Failf("text-not-owned", "the texts of all addresses were formatted first and parsed afterwards: the text kept for group address %#04x now reads %q (parses to %#04x, %v), the one for individual address %#04x reads %q (parses to %#04x, %v)",
					a, gt[a], uint16(g), errG, a, it[a], uint16(i), errI), c18Case{Kind: "group-rt", Addr: uint16(a)})
			}
		}
		rec.Eval(2 * 65535)
		rec.ClassN("round-trip-texts-kept", 2*65535)
	}
	rec.Exhaustive("round trip of all 65535 non-zero addresses, both kinds")
	rec.Sample("round-trip", c18Case{Kind: "group-rt", Addr: 0x0fff})
	// 2. component tuples widened by 4
	type lv struct {
		kind, sep string
		hi        []int
	}
	for _, l := range []lv{
		{"group-parse", "/", []int{31, 7, 255}}, {"group-parse", "/", []int{31, 2047}}, {"group-parse", "/", []int{65535}},
		{"indiv-parse", ".", []int{15, 15, 255}}, {"indiv-parse", ".", []int{255, 255}}, {"indiv-parse", ".", []int{65535}},
	} {
		cur := make([]int, len(l.hi))
		for i := range cur {
			cur[i] = -4
		}
		for {
			parts := make([]string, len(cur))
			edge := false
			for i, v := range cur {
				parts[i] = fmt.Sprint(v)
				if v <= 0 || v >= l.hi[i] {
					edge = true
				}
			}
			c := c18Case{Kind: l.kind, Text: strings.Join(parts, l.sep)}
			do(c, edge)
			if edge {
				rec.Sample("tuple-edge-"+l.kind+fmt.Sprint(len(cur)), c)
			}
			// increment
			i := len(cur) - 1
			for i >= 0 {
				cur[i]++
				if cur[i] <= l.hi[i]+4 {
					break
				}
				cur[i] = -4
				i--
			}
			if i < 0 {
				break
			}
		}
	}
	rec.Exhaustive("all component tuples over the documented ranges widened by 4 on both sides, 1/2/3-level, both kinds")
	// 3. constructors, exhaustive
	if rec.Env.Shard == 0 {
		var n int64
		for a := 0; a < 256; a++ {
			for b := 0; b < 256; b++ {
				for c := 0; c < 256; c++ {
					g3 := uint16(cemi.NewGroupAddr3(uint8(a), uint8(b), uint8(c)))
					i3 := uint16(cemi.NewIndividualAddr3(uint8(a), uint8(b), uint8(c)))
					b16 := uint16(b)<<8 | uint16(c)
					g2 := uint16(cemi.NewGroupAddr2(uint8(a), b16))
					if g3 != uint16(a&0x1f)<<11|uint16(b&7)<<8|uint16(c) {
						common.Report(t, rec, c18Run(c18Case{Kind: "ctor", Ctor: "NewGroupAddr3", Args: []int64{int64(a), int64(b), int64(c)}}), c18Case{Kind: "ctor", Ctor: "NewGroupAddr3", Args: []int64{int64(a), int64(b), int64(c)}})
					}
					if i3 != uint16(a&0xf)<<12|uint16(b&0xf)<<8|uint16(c) {
						common.Report(t, rec, c18Run(c18Case{Kind: "ctor", Ctor: "NewIndividualAddr3", Args: []int64{int64(a), int64(b), int64(c)}}), c18Case{Kind: "ctor", Ctor: "NewIndividualAddr3", Args: []int64{int64(a), int64(b), int64(c)}})
					}
					if g2 != uint16(a&0x1f)<<11|(b16&0x7ff) {
						common.Report(t, rec, c18Run(c18Case{Kind: "ctor", Ctor: "NewGroupAddr2", Args: []int64{int64(a), int64(b16)}}), c18Case{Kind: "ctor", Ctor: "NewGroupAddr2", Args: []int64{int64(a), int64(b16)}})
					}
					n += 3
				}
				cc := c18Case{Kind: "ctor", Ctor: "NewIndividualAddr2", Args: []int64{int64(a), int64(b)}}
				if f := c18Run(cc); f != nil {
					common.Report(t, rec, f, cc)
				}
				n++
			}
		}
		rec.Eval(n)
		// constructor cases whose arguments exceed the field width are the non-trivial ones
		rec.NonTrivialEnum(int64(256*256*256-32*8*256) + int64(256*256*256-16*16*256) + int64(256*65536-32*2048))
		rec.Exhaustive("constructors NewGroupAddr3, NewGroupAddr2, NewIndividualAddr3 (2^24 each) and NewIndividualAddr2 (2^16)")
		rec.Sample("ctor", c18Case{Kind: "ctor", Ctor: "NewGroupAddr3", Args: []int64{255, 255, 255}})
	}
	// 3a. every spelling of zero in every component (leading zeros and signs are numerals the parsers may or may not
	// take - but whatever they take, address zero is not a result)
	zeros := []string{"0", "00", "000", "+0", "-0", "0000000000"}
	for _, f := range c18Forms {
		idx := make([]int, len(f.hi))
		for {
			parts := make([]string, len(idx))
			for i, z := range idx {
				parts[i] = zeros[z]
			}
			do(c18Case{Kind: f.kind, Text: strings.Join(parts, f.sep)}, true)
			i := len(idx) - 1
			for i >= 0 {
				idx[i]++
				if idx[i] < len(zeros) {
					break
				}
				idx[i] = 0
				i--
			}
			if i < 0 {
				break
			}
		}
	}
	rec.Exhaustive("every combination of the spellings 0, 00, 000, +0, -0, 0000000000 in every component of every form")
	// 3b. every component of every form replaced by k*2^w + r for the machine widths w, r at the edges of its range
	for _, f := range c18Forms {
		for at := range f.hi {
			for _, w := range []uint{8, 16, 31, 32, 63, 64} {
				for _, k := range []int64{1, 2, -1} {
					for _, r := range []int64{0, 1, f.hi[at] / 2, f.hi[at]} {
						parts := make([]string, len(f.hi))
						for i := range parts {
							parts[i] = "1"
						}
						parts[at] = wrapNumeral(k, w, r)
						c := c18Case{Kind: f.kind, Text: strings.Join(parts, f.sep)}
						do(c, true)
						if w == 64 && k == 1 && r == 1 {
							rec.Sample("wrapped-component", c)
						}
					}
				}
			}
		}
	}
	rec.Exhaustive("every component of every form replaced by k*2^w + r, w in {8,16,31,32,63,64}, k in {1,2,-1}, r in {0,1,hi/2,hi}")
	// 3b. valid texts in a wrapping: quoted (the three Go literal forms, also with an escaped first character), bracketed,
	// padded with blanks, NULs, line ends or a byte order mark, percent-encoded separators, a sign, digit separators and
	// radix prefixes a lenient integer parser would take, other digit scripts. The documented forms are bare decimals.
	{
		var texts []string
		for _, a := range []uint16{1, 0x0801, 0x0a03, 0x1234, 0x7fff, 0x8000, 0xfffe, 0xffff} {
			g := cemi.GroupAddr(a)
			texts = append(texts, g.String(), fmt.Sprintf("%d/%d", uint16(g)>>11, uint16(g)&0x7ff), cemi.IndividualAddr(a).String())
		}
		full := strings.NewReplacer("0", "\uff10", "1", "\uff11", "2", "\uff12", "3", "\uff13", "4", "\uff14", "5", "\uff15", "6", "\uff16", "7", "\uff17", "8", "\uff18", "9", "\uff19")
		for _, tx := range texts {
			first := fmt.Sprintf("\\x%02x", tx[0])
			wraps := []string{
				"\"" + tx + "\"", "`" + tx + "`", "'" + tx + "'", "\"" + first + tx[1:] + "\"", "\"" + tx, tx + "\"", "(" + tx + ")", "[" + tx + "]", "<" + tx + ">", "{" + tx + "}",
				" " + tx, tx + " ", "\t" + tx, tx + "\n", tx + "\r\n", "\x00" + tx, tx + "\x00", "\ufeff" + tx, tx + "\ufeff", "\u00a0" + tx,
				"+" + tx, "-" + tx, tx + "/", tx + ".", "/" + tx, "." + tx, "0x" + tx, "0b" + tx, "0o" + tx, tx + "e0", tx + "_", "_" + tx,
				strings.ReplaceAll(tx, "/", "%2F"), strings.ReplaceAll(tx, "/", "\\/"), strings.ReplaceAll(tx, "/", " / "), strings.ReplaceAll(tx, ".", " . "),
				strings.ReplaceAll(tx, "/", "//"), strings.ReplaceAll(tx, ".", ".."), full.Replace(tx), tx + "#", tx + ";", tx + ",", "knx:" + tx, tx + "/" + tx,
			}
			if len(tx) > 1 {
				wraps = append(wraps, tx[:1]+"_"+tx[1:], tx[:len(tx)-1]+"_"+tx[len(tx)-1:])
			}
			// one character replaced by a rune that equals it modulo 256 or 65536 (U+0131 for '1', U+012F for '/', ...) -
			// what a parser that narrows runes to bytes would read as the original
			for pos, c := range []byte(tx) {
				for _, k := range []rune{0x100, 0x200, 0x300, 0x2000, 0xff00, 0x10000, 0x20000} {
					r := rune(c) + k
					if r >= 0xd800 && r <= 0xdfff {
						continue
					}
					wraps = append(wraps, tx[:pos]+string(r)+tx[pos+1:])
				}
			}
			for _, w := range wraps {
				if w == tx {
					continue
				}
				do(c18Case{Kind: "group-parse", Text: w}, true)
				do(c18Case{Kind: "indiv-parse", Text: w}, true)
			}
		}
		rec.Exhaustive("24 valid address texts x 45 wrappings and one-character substitutions by runes congruent modulo 256 / 65536 (quotes, brackets, padding, signs, radix prefixes, digit separators, escaped and doubled separators, full-width digits) through both parsers")
	}
	// 3c. component counts: 4..1100 well-formed components (counts congruent to 1, 2, 3 modulo 2^8 included, and the
	// counts around 2^16 + 1..3): a parser that counts its components in a narrow integer folds those back to a valid
	// form. Fillers: all "1", all "0" behind a valid head, and a valid address text repeated.
	for _, f := range []struct{ kind, sep string }{{"group-parse", "/"}, {"indiv-parse", "."}} {
		counts := []int{}
		for n := 4; n <= 1100; n++ {
			counts = append(counts, n)
		}
		for _, base := range []int{1 << 16, 1 << 17} {
			for d := 0; d <= 4; d++ {
				counts = append(counts, base+d)
			}
		}
		for _, n := range counts {
			ones := strings.Repeat("1"+f.sep, n-1) + "1"
			do(c18Case{Kind: f.kind, Text: ones}, true)
			if n <= 1100 {
				do(c18Case{Kind: f.kind, Text: "1" + f.sep + "2" + f.sep + "3" + strings.Repeat(f.sep+"1", n-3)}, true)
				do(c18Case{Kind: f.kind, Text: strings.Repeat("0"+f.sep, n-1) + "1"}, true)
				do(c18Case{Kind: f.kind, Text: "1" + strings.Repeat(f.sep+"0", n-1)}, true)
			}
		}
	}
	rec.Exhaustive("every component count 4..1100 (and 2^16, 2^17 + 0..4) of well-formed components, four fillers, both parsers")
	// 4. malformed strings from a grammar
	common.Drive(t, rec, func(rt *rapid.T) c18Case {
		c := c18GenMalformed(rt)
		v, _ := refGroup(c.Text)
		if c.Kind == "indiv-parse" {
			v, _ = refIndiv(c.Text)
		}
		rec.Class(fmt.Sprintf("grammar-%s-ref%d", c.Kind, v))
		rec.NonTrivial(common.Hash64([]byte(c.Kind), []byte(c.Text)))
		rec.Sample("grammar-"+fmt.Sprint(v), c)
		return c
	}, c18Run)
	completed = true
}
