package pure

import (
	"bytes"
	"fmt"
	"reflect"
	"sync"
	"testing"

	"github.com/vapourismo/knx-go/knx/cemi"
	"github.com/vapourismo/knx-go/knx/knxnet"
	"pgregory.net/rapid"
	"verif/harness/common"
)

type framePlan struct {
	Kind     string         `json:"kind"`
	CemiKind string         `json:"cemi_kind,omitempty"`
	Frame    *common.RFrame `json:"frame"`
	// Prev: a frame of the same shape decoded into the same destination first (a receive loop that reuses its
	// variables); what Frame decodes to must not depend on it, and the value decoded from Prev must stay what it was
	Prev *common.RFrame `json:"prev,omitempty"`
	// Storm: further frames; each of them and Frame is encoded, decoded and re-encoded Reps times by its own
	// goroutine, all at once (several sockets decode in one process at the same time): every result must be what
	// the same call yields alone
	Storm []*common.RFrame `json:"storm,omitempty"`
	Reps  int              `json:"reps,omitempty"`
	// Mut: edits applied to the reference encoding of Frame (offset counted from the end when negative; a value above
	// 255 appends the octet value-256): byte strings no encoder produces. Whatever of them the decoder accepts, a relay
	// that decodes, re-encodes and decodes again ends up with the same value
	Mut []mutation `json:"mut,omitempty"`
}

type mutation struct {
	At  int `json:"at"`
	Val int `json:"val"`
}

// c02RelayMutated: the relay clause on accepted byte strings that are not encodings of anything.
func c02RelayMutated(p framePlan) *common.Fail {
	ref, _ := common.RefEncode(p.Frame)
	b := append([]byte{}, ref...)
	for _, m := range p.Mut {
		switch {
		case m.Val > 255:
			b = append(b, byte(m.Val-256))
		case len(b) > 6:
			at := m.At
			if at < 0 {
				at = len(b) + at
			}
			at = 6 + ((at%(len(b)-6))+(len(b)-6))%(len(b)-6) // never the header
			b[at] = byte(m.Val)
		}
	}
	if len(b) >= 6 {
		b[4], b[5] = byte(len(b)>>8), byte(len(b)) // the header's total length follows the edit
	}
	var v1 knxnet.Service
	if _, err := knxnet.Unpack(append([]byte{}, b...), &v1); err != nil {
		return nil
	}
	pk, ok := v1.(knxnet.ServicePackable)
	if !ok {
		return nil
	}
	re := knxnet.AllocAndPack(pk)
	var v2 knxnet.Service
	if _, err := knxnet.Unpack(re, &v2); err != nil {
		return common.Failf("relay-reencoding-rejected", "%s/%s: the decoder accepts %x as %s, its re-encoding %x is rejected: %v", p.Kind, p.CemiKind, b, common.Show(v1), re, err)
	}
	// "whose reserved bits are zero": the clause is about byte strings the re-encoding reproduces - here: apart from
	// trailing octets behind what the encoder writes. (Where the re-encoding differs inside, the edit hit bits the
	// format ignores, e.g. the sequence bits of an unnumbered unit; canonicalising those is not a change of value.)
	if len(re) > len(b) || len(re) < 6 || !bytes.Equal(re[6:], b[6:len(re)]) {
		return nil
	}
	if !common.SameValue(v1, v2) {
		return common.Failf("relay-changes-value", "%s/%s: the decoder accepts %x as %s\n its re-encoding %x reproduces those octets (apart from %d trailing ones) but decodes as %s: the decoder reports something the encoder does not carry",
			p.Kind, p.CemiKind, b, common.Show(v1), re, len(b)-len(re), common.Show(v2))
	}
	return nil
}

// c02Storm: the codec is a set of pure functions - concurrent callers with their own values and buffers do not
// influence each other.
func c02Storm(p framePlan) *common.Fail {
	frames := append([]*common.RFrame{p.Frame}, p.Storm...)
	type solo struct {
		lib      knxnet.ServicePackable
		ref, enc []byte
		re       []byte // re-encoding of decode(ref); nil if ref is not accepted
	}
	var ss []solo
	for _, f := range frames {
		lib, ok := common.ToLib(f).(knxnet.ServicePackable)
		if !ok {
			continue
		}
		x := solo{lib: lib}
		x.ref, _ = common.RefEncode(f)
		x.enc = knxnet.AllocAndPack(lib)
		var v knxnet.Service
		if _, err := knxnet.Unpack(append([]byte{}, x.ref...), &v); err == nil {
			if pk, ok := v.(knxnet.ServicePackable); ok {
				x.re = knxnet.AllocAndPack(pk)
			}
		}
		ss = append(ss, x)
	}
	fails := make([]*common.Fail, len(ss))
	var wg sync.WaitGroup
	start := make(chan struct{})
	for i := range ss {
		wg.Add(1)
		go func(i int) {
			defer wg.Done()
			x := ss[i]
			buf := make([]byte, len(x.ref))
			<-start
			fails[i] = common.Guard(func() *common.Fail {
				for r := 0; r < p.Reps; r++ {
					if enc := knxnet.AllocAndPack(x.lib); !bytes.Equal(enc, x.enc) {
						return common.Failf("codec-interference", "round %d: encoding %s gives %x while %d other goroutines encode and decode their own frames; alone it gives %x", r, common.Show(x.lib), enc, len(ss)-1, x.enc)
					}
					copy(buf, x.ref)
					var v knxnet.Service
					_, err := knxnet.Unpack(buf, &v)
					if (err == nil) != (x.re != nil) {
						return common.Failf("codec-interference", "round %d: decoding %x gives error %v while %d other goroutines encode and decode their own frames; alone: accepted=%v", r, x.ref, err, len(ss)-1, x.re != nil)
					}
					if err == nil {
						if re := knxnet.AllocAndPack(v.(knxnet.ServicePackable)); !bytes.Equal(re, x.re) {
							return common.Failf("codec-interference", "round %d: %x decoded and re-encoded gives %x while %d other goroutines encode and decode their own frames; alone it gives %x", r, x.ref, re, len(ss)-1, x.re)
						}
					}
				}
				return nil
			})
		}(i)
	}
	close(start)
	wg.Wait()
	for _, f := range fails {
		if f != nil {
			return f
		}
	}
	return nil
}

type bodyUnpacker interface {
	Unpack([]byte) (uint, error)
}

func payloadOf(s knxnet.Service) cemi.Message {
	switch v := s.(type) {
	case *knxnet.TunnelReq:
		return v.Payload
	case *knxnet.RoutingInd:
		return v.Payload
	}
	return nil
}

// c02Reuse: the decode-first half with a used destination.
func c02Reuse(p framePlan) *common.Fail {
	what := p.Kind + "/" + p.CemiKind
	prevRef, _ := common.RefEncode(p.Prev)
	ref, _ := common.RefEncode(p.Frame)
	var fresh, used knxnet.Service
	if _, err := knxnet.Unpack(ref, &fresh); err != nil {
		return nil
	}
	if _, err := knxnet.Unpack(prevRef, &used); err != nil || reflect.TypeOf(used) != reflect.TypeOf(fresh) {
		return nil
	}
	want := common.Show(fresh)
	// the service value filled again through its own Unpack method
	keep := payloadOf(used) // what the application took out of the first decode
	keepShow := common.Show(keep)
	if u, ok := used.(bodyUnpacker); ok && len(ref) >= 6 {
		if _, err := u.Unpack(ref[6:]); err != nil {
			return common.Failf("reused-destination", "%s: %x decodes into a zero value, but into a value that held the decode of %x it fails: %v", what, ref, prevRef, err)
		}
		if got := common.Show(used); got != want {
			return common.Failf("reused-destination", "%s: %x decoded into a value that held the decode of %x gives %s\n into a zero value %s", what, ref, prevRef, got, want)
		}
		if keep != nil && common.Show(keep) != keepShow {
			return common.Failf("earlier-value-changed", "%s: the message decoded from %x (%s) became %s when %x was decoded into the same service value", what, prevRef, keepShow, common.Show(keep), ref)
		}
	}
	if !common.CarriesCemi(p.Kind) || p.Frame.Cemi == nil || p.Prev.Cemi == nil {
		return nil
	}
	cb, _ := common.RefEncodeCemi(p.Frame.Cemi)
	pb, _ := common.RefEncodeCemi(p.Prev.Cemi)
	var f2 cemi.Message
	if _, err := cemi.Unpack(cb, &f2); err != nil {
		return nil
	}
	want = common.Show(f2)
	// cemi.Unpack into the same Message variable
	var m cemi.Message
	if _, err := cemi.Unpack(pb, &m); err != nil {
		return nil
	}
	keep, keepShow = m, common.Show(m)
	if _, err := cemi.Unpack(cb, &m); err != nil {
		return common.Failf("reused-destination", "%s: cemi.Unpack of %x into a variable that held the decode of %x fails: %v", what, cb, pb, err)
	}
	if got := common.Show(m); got != want {
		return common.Failf("reused-destination", "%s: cemi.Unpack of %x into a variable that held the decode of %x gives %s\n into a nil variable %s", what, cb, pb, got, want)
	}
	if common.Show(keep) != keepShow {
		return common.Failf("earlier-value-changed", "%s: the message decoded from %x (%s) became %s when %x was decoded into the same variable", what, pb, keepShow, common.Show(keep), cb)
	}
	// the message body filled again through its own Unpack method
	var m3 cemi.Message
	if _, err := cemi.Unpack(pb, &m3); err == nil && m3.MessageCode() == f2.MessageCode() && len(cb) >= 1 {
		if u, ok := m3.(bodyUnpacker); ok {
			if _, err := u.Unpack(cb[1:]); err != nil {
				return common.Failf("reused-destination", "%s: the body of %x decodes into a zero %T, but into one that held the body of %x it fails: %v", what, cb, m3, pb, err)
			}
			if got := common.Show(m3); got != want {
				return common.Failf("reused-destination", "%s: the body of %x decoded into a %T that held the body of %x gives %s\n into a zero value %s", what, cb, m3, pb, got, want)
			}
		}
	}
	return nil
}

type cell struct{ kind, cemiKind string }

// c02Cells is the product service shape x cEMI kind.
func c02Cells() []cell {
	var cs []cell
	for _, k := range common.ServiceKinds {
		if common.CarriesCemi(k) {
			for _, ck := range common.CemiKinds {
				cs = append(cs, cell{k, ck})
			}
		} else {
			cs = append(cs, cell{k, ""})
		}
	}
	return cs
}

func genFramePlan(rt *rapid.T, cells []cell) framePlan {
	c := cells[rapid.IntRange(0, len(cells)-1).Draw(rt, "cell")]
	p := framePlan{Kind: c.kind, CemiKind: c.cemiKind, Frame: common.GenFrame(rt, c.kind, c.cemiKind)}
	if c.kind == "descrres" && rapid.Bool().Draw(rt, "kept-blocks") {
		// further description blocks of the four types the decoder keeps (IP config, current IP config, KNX addresses,
		// manufacturer data): part of the value, so part of what is encoded
		for i := 0; i < rapid.IntRange(1, 3).Draw(rt, "n-kept"); i++ {
			n := rapid.IntRange(1, 40).Draw(rt, "kept-len")
			if rapid.IntRange(0, 9).Draw(rt, "kept-max") == 0 {
				n = rapid.IntRange(250, 253).Draw(rt, "kept-len-max")
			}
			body := common.GenBytes(rt, "kept-body", n, n)
			p.Frame.Extra = append(p.Frame.Extra, common.RDIB{Len: uint8(2 + n), Type: rapid.SampledFrom([]uint8{3, 4, 5, 0xfe}).Draw(rt, "kept-type"), Body: body})
		}
	}
	if c.kind == "searchres" && rapid.Bool().Draw(rt, "blocks-behind-search-response") {
		// further well-formed description blocks behind the two mandatory ones of a search response (real gateways send
		// them): whatever the decoder makes of them, decoding, re-encoding and decoding again gives the same value
		p.Frame.Extra = common.GenValidDIBs(rt)
		if len(p.Frame.Extra) == 0 {
			p.Frame.Extra = []common.RDIB{{Len: 4, Type: 0xfe, Body: []byte{0xa1, 0xa2}}}
		}
	}
	if rapid.IntRange(0, 2).Draw(rt, "used-destination") == 0 {
		p.Prev = common.GenFrame(rt, c.kind, c.cemiKind)
	}
	if rapid.IntRange(0, 2).Draw(rt, "mutated") == 0 {
		for i := 0; i < rapid.IntRange(1, 3).Draw(rt, "mutations"); i++ {
			m := mutation{At: rapid.IntRange(-12, 40).Draw(rt, "mut-at"), Val: rapid.SampledFrom([]int{0, 1, 2, 4, 8, 0x24, 0x7f, 0x80, 0xff}).Draw(rt, "mut-val")}
			if rapid.IntRange(0, 3).Draw(rt, "append") == 0 {
				m.Val = 256 + rapid.SampledFrom([]int{0, 1, 4, 8, 0xff}).Draw(rt, "app-val")
			}
			if rapid.IntRange(0, 4).Draw(rt, "any-val") == 0 && m.Val < 256 {
				m.Val = rapid.IntRange(0, 255).Draw(rt, "mut-any")
			}
			p.Mut = append(p.Mut, m)
		}
	}
	if rapid.IntRange(0, 99).Draw(rt, "storm") == 0 {
		for i := 0; i < rapid.IntRange(1, 7).Draw(rt, "storm-frames"); i++ {
			// mostly the same cell (shared helpers, shared scratch space), sometimes any
			c2 := c
			if rapid.IntRange(0, 2).Draw(rt, "storm-other-cell") == 0 {
				c2 = cells[rapid.IntRange(0, len(cells)-1).Draw(rt, "storm-cell")]
			}
			p.Storm = append(p.Storm, common.GenFrame(rt, c2.kind, c2.cemiKind))
		}
		p.Reps = rapid.SampledFrom([]int{50, 300}).Draw(rt, "storm-reps")
	}
	return p
}

func messageCode(s knxnet.Service) (cemi.MessageCode, bool) {
	switch v := s.(type) {
	case *knxnet.TunnelReq:
		if v.Payload != nil {
			return v.Payload.MessageCode(), true
		}
	case *knxnet.RoutingInd:
		if v.Payload != nil {
			return v.Payload.MessageCode(), true
		}
	}
	return 0, false
}

// c02Run applies both halves of C02 to one frame description.
func c02Run(p framePlan) *common.Fail {
	lib, ok := common.ToLib(p.Frame).(knxnet.ServicePackable)
	if !ok {
		return nil
	}
	// ---- encode-first ----
	// the expectation is a second value built from the same description: an encoder that rearranges the value it is
	// handed (and writes the rearranged form) would otherwise be compared with its own doing
	asBuilt := common.Show(common.ToLib(p.Frame))
	enc := knxnet.AllocAndPack(lib)
	if now := common.Show(lib); now != asBuilt {
		return common.Failf("encode-changes-value", "%s/%s: encoding changed the value it was given: was %s\n now %s", p.Kind, p.CemiKind, asBuilt, now)
	}
	var got knxnet.Service
	n, err := knxnet.Unpack(enc, &got)
	if err != nil {
		return common.Failf("own-encoding-rejected", "%s: Unpack(AllocAndPack(v)) failed: %v; v=%s bytes=%x", p.Kind+"/"+p.CemiKind, err, common.Show(lib), enc)
	}
	if int(n) > len(enc) {
		return common.Failf("consumed-too-much", "%s: consumed %d of %d bytes", p.Kind, n, len(enc))
	}
	if reflect.TypeOf(got) != reflect.TypeOf(lib) {
		return common.Failf("type-changed", "%s: encoded %T, decoded %T", p.Kind, lib, got)
	}
	if got.Service() != lib.Service() {
		return common.Failf("service-id-changed", "%s: encoded service %v, decoded %v", p.Kind, lib.Service(), got.Service())
	}
	if mc, ok := messageCode(lib); ok {
		mc2, ok2 := messageCode(got)
		if !ok2 || mc2 != mc {
			return common.Failf("message-code-changed", "%s/%s: encoded message code %v, decoded %v (%T)", p.Kind, p.CemiKind, mc, mc2, got)
		}
		if uint8(mc) != p.Frame.Cemi.Code {
			return common.Failf("message-code-wrong", "%s/%s: value reports message code %#x, the message kind is %#x", p.Kind, p.CemiKind, uint8(mc), p.Frame.Cemi.Code)
		}
	}
	// a relay re-encodes into the buffer it used for the previous telegram: the encoding is a function of the value
	dirty := bytes.Repeat([]byte{0xff}, len(enc))
	knxnet.Pack(dirty, lib)
	if !bytes.Equal(dirty, enc) {
		return common.Failf("encoding-depends-on-buffer", "%s/%s: %s packed into a fresh buffer gives %x, into a buffer that held 0xff octets %x", p.Kind, p.CemiKind, common.Show(lib), enc, dirty)
	}
	if !common.SameValue(got, lib) {
		return common.Failf("roundtrip-differs", "%s/%s: encoded %s\n decoded %s\n bytes %x", p.Kind, p.CemiKind, common.Show(lib), common.Show(got), enc)
	}
	// ---- decode-first (relay idempotence) on independently produced bytes ----
	ref, _ := common.RefEncode(p.Frame)
	var v1 knxnet.Service
	if _, err := knxnet.Unpack(ref, &v1); err == nil {
		pk, ok := v1.(knxnet.ServicePackable)
		if ok {
			asDecoded := common.Show(v1)
			re := knxnet.AllocAndPack(pk)
			if now := common.Show(v1); now != asDecoded {
				return common.Failf("relay-changes-value", "%s/%s: re-encoding changed the decoded value itself: decode(ref)=%s\n after AllocAndPack %s\n ref=%x re=%x", p.Kind, p.CemiKind, asDecoded, now, ref, re)
			}
			var v2 knxnet.Service
			if _, err := knxnet.Unpack(re, &v2); err != nil {
				return common.Failf("relay-reencoding-rejected", "%s/%s: decode(ref) ok, encode, decode failed: %v; ref=%x re=%x", p.Kind, p.CemiKind, err, ref, re)
			}
			if !common.SameValue(v1, v2) {
				return common.Failf("relay-changes-value", "%s/%s: decode(ref)=%s\n after re-encoding %s\n ref=%x re=%x", p.Kind, p.CemiKind, common.Show(v1), common.Show(v2), ref, re)
			}
			// the relay keeps v1 while its receive buffer is reused for the next datagram (the library's own
			// UDP receiver decodes every datagram out of one buffer): the telegram must not change with it
			before := common.Show(v1)
			for i := range ref {
				ref[i] ^= 0xa5
			}
			if after := common.Show(v1); after != before || !bytes.Equal(knxnet.AllocAndPack(pk), re) {
				return common.Failf("decoded-value-aliases-input", "%s/%s: the decoded value changes when the buffer it was decoded from is overwritten: was %s\n now %s\n first re-encoding %x\n now %x",
					p.Kind, p.CemiKind, before, after, re, knxnet.AllocAndPack(pk))
			}
		}
	}
	// the decoded value belongs to the caller: overwriting it does not change what the decoder yields next time
	{
		ref2, _ := common.RefEncode(p.Frame)
		var a, b knxnet.Service
		if _, err := knxnet.Unpack(append([]byte{}, ref2...), &a); err == nil {
			want := common.Show(a)
			common.Scribble(a)
			if _, err := knxnet.Unpack(ref2, &b); err != nil || common.Show(b) != want {
				return common.Failf("decoded-values-share-state", "%s/%s: after the value decoded from %x was overwritten by its owner, decoding the same bytes again gives %s (error %v)\n the first time %s",
					p.Kind, p.CemiKind, ref2, common.Show(b), err, want)
			}
		}
	}
	if p.Prev != nil {
		if f := c02Reuse(p); f != nil {
			return f
		}
	}
	if len(p.Mut) > 0 {
		if f := c02RelayMutated(p); f != nil {
			return f
		}
	}
	if len(p.Storm) > 0 {
		return c02Storm(p)
	}
	return nil
}

func frameNonTrivial(f *common.RFrame) bool {
	return f.Cemi != nil || f.Dev != nil || len(f.Raw) > 0
}

func TestC02(t *testing.T) {
	rec := common.NewRec("C02", "pure")
	completed := false
	defer func() { rec.Finish(completed) }()
	cells := c02Cells()
	common.Drive(t, rec, func(rt *rapid.T) framePlan {
		p := genFramePlan(rt, cells)
		rec.Class("cell:" + p.Kind + "/" + p.CemiKind)
		if len(p.Storm) > 0 {
			rec.ClassN("storm-codec-calls", int64(3*p.Reps*(1+len(p.Storm))))
		}
		ref, _ := common.RefEncode(p.Frame)
		if frameNonTrivial(p.Frame) {
			rec.NonTrivial(common.Hash64(ref))
		}
		if lib, ok := common.ToLib(p.Frame).(knxnet.ServicePackable); ok {
			func() {
				defer func() { recover() }()
				if bytes.Equal(knxnet.AllocAndPack(lib), ref) {
					rec.Class("lib-encoding==reference-encoding")
				} else {
					rec.Class("lib-encoding!=reference-encoding")
				}
			}()
		}
		rec.Sample(p.Kind+"/"+p.CemiKind, map[string]any{"kind": p.Kind, "cemi": p.CemiKind, "bytes": fmt.Sprintf("%x", ref)})
		return p
	}, c02Run)
	completed = true
}
