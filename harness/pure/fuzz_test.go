package pure

import (
	"encoding/hex"
	"sync"
	"testing"
	"time"

	"github.com/vapourismo/knx-go/knx/cemi"
	"github.com/vapourismo/knx-go/knx/knxnet"
	"pgregory.net/rapid"
	"verif/harness/common"
)

// Native coverage-guided fuzz targets (thorough tier of C01/C02). The semantic oracle is inside
// the target: the four-way buffer differential of C01 and, for accepted frames of the encodable
// domain, the relay idempotence of C02.

var fuzzOnce sync.Once

func fuzzInit() {
	fuzzOnce.Do(func() {
		rec := common.NewRec("C01", "fuzz")
		c01Dog = common.NewWatchdog(rec, 4*time.Second)
	})
}

func seedFrames(f *testing.F, cemiOnly bool) {
	// hostile constants in every length position come from the mutator; the seeds are small valid frames
	i := 0
	rapid.Check(f, func(rt *rapid.T) {
		if i >= 60 {
			return
		}
		kind := common.AllFrameKinds[i%len(common.AllFrameKinds)]
		ck := common.CemiKinds[i%len(common.CemiKinds)]
		i++
		fr := common.GenFrame(rt, kind, ck)
		if cemiOnly {
			if fr.Cemi != nil {
				b, _ := common.RefEncodeCemi(fr.Cemi)
				f.Add(b)
			}
			return
		}
		b, lens := common.RefEncode(fr)
		if len(b) > 200 {
			return
		}
		f.Add(b)
		for _, lf := range lens {
			for _, v := range []int{0, 1, 3, 0xff} {
				c := append([]byte{}, b...)
				setLen(c, lf, v)
				f.Add(c)
			}
		}
	})
}

func inRelayDomain(s knxnet.Service) bool {
	switch v := s.(type) {
	case *knxnet.DescriptionRes:
		return len(v.UnknownBlocks) == 0 && len([]rune(v.DeviceHardware.FriendlyName)) < 30
	case *knxnet.SearchRes:
		return len([]rune(v.DescriptionB.DeviceHardware.FriendlyName)) < 30
	}
	return true
}

// relayNormalize clears fields that only reflect reserved bits of the input: the 4-bit transport
// sequence number is meaningful (and encoded) only when the numbered flag is set.
func relayNormalize(s knxnet.Service) {
	var m cemi.Message
	switch v := s.(type) {
	case *knxnet.TunnelReq:
		m = v.Payload
	case *knxnet.RoutingInd:
		m = v.Payload
	}
	var l *cemi.LData
	switch v := m.(type) {
	case *cemi.LDataReq:
		l = &v.LData
	case *cemi.LDataCon:
		l = &v.LData
	case *cemi.LDataInd:
		l = &v.LData
	}
	if l == nil {
		return
	}
	switch d := l.Data.(type) {
	case *cemi.AppData:
		if !d.Numbered {
			d.SeqNumber = 0
		}
	case *cemi.ControlData:
		if !d.Numbered {
			d.SeqNumber = 0
		}
	}
}

func FuzzKnxnetUnpack(f *testing.F) {
	seedFrames(f, false)
	f.Fuzz(func(t *testing.T, data []byte) {
		fuzzInit()
		if len(data) > 1024 {
			return
		}
		p := decodePlan{Target: "knxnet.Unpack", Hex: hex.EncodeToString(data), Origin: "native-fuzz"}
		if fail := c01Run(p); fail != nil {
			t.Fatalf("C01 %s: %s", fail.Kind, fail.Detail)
		}
		// C02 relay idempotence
		var v1 knxnet.Service
		if _, err := knxnet.Unpack(append([]byte{}, data...), &v1); err != nil {
			return
		}
		pk, ok := v1.(knxnet.ServicePackable)
		if !ok || !inRelayDomain(v1) {
			return
		}
		re := knxnet.AllocAndPack(pk)
		var v2 knxnet.Service
		if _, err := knxnet.Unpack(re, &v2); err != nil {
			t.Fatalf("C02 relay: re-encoding of an accepted frame is rejected: %v in=%x re=%x", err, data, re)
		}
		relayNormalize(v1)
		relayNormalize(v2)
		if !common.SameValue(v1, v2) {
			t.Fatalf("C02 relay changes value: in=%x v1=%s re=%x v2=%s", data, common.Show(v1), re, common.Show(v2))
		}
	})
}

func FuzzCemiUnpack(f *testing.F) {
	seedFrames(f, true)
	f.Fuzz(func(t *testing.T, data []byte) {
		fuzzInit()
		if len(data) > 1024 {
			return
		}
		p := decodePlan{Target: "cemi.Unpack", Hex: hex.EncodeToString(data), Origin: "native-fuzz"}
		if fail := c01Run(p); fail != nil {
			t.Fatalf("C01 %s: %s", fail.Kind, fail.Detail)
		}
	})
}
