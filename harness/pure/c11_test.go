package pure

import (
	"bytes"
	"encoding/hex"
	"fmt"
	"testing"

	"github.com/vapourismo/knx-go/knx/cemi"
	"pgregory.net/rapid"
	"verif/harness/common"
)

// c11Plan: one of
//
//	mode "value":  an L_Data description; library encoding must equal the reference layout and the
//	               library must decode the reference bytes to exactly those fields;
//	mode "bytes":  raw cEMI bytes; library decoder vs. independent reference decoder;
//	mode "helper": a helper function and its 8-bit argument.
type c11Plan struct {
	Mode   string        `json:"mode"`
	Cemi   *common.RCemi `json:"cemi,omitempty"`
	Hex    string        `json:"hex,omitempty"`
	Helper string        `json:"helper,omitempty"`
	Arg    int           `json:"arg,omitempty"`
}

func ldataOf(m cemi.Message) *cemi.LData {
	switch v := m.(type) {
	case *cemi.LDataReq:
		return &v.LData
	case *cemi.LDataCon:
		return &v.LData
	case *cemi.LDataInd:
		return &v.LData
	}
	return nil
}

// fromLibLData converts the library's decoded L_Data into the reference description.
func fromLibLData(l *cemi.LData) *common.RLData {
	r := &common.RLData{C1: uint8(l.Control1), C2: uint8(l.Control2), Src: uint16(l.Source), Dst: l.Destination}
	if len(l.Info) > 0 {
		r.Info = append([]byte{}, l.Info...)
	}
	switch d := l.Data.(type) {
	case *cemi.AppData:
		r.TPDU = common.RTPDU{Numbered: d.Numbered, Seq: d.SeqNumber, APCI: uint8(d.Command), Data: append([]byte{}, d.Data...)}
	case *cemi.ControlData:
		r.TPDU = common.RTPDU{Control: true, Numbered: d.Numbered, Seq: d.SeqNumber, APCI: d.Command}
	}
	return r
}

func sameRLData(a, b *common.RLData) bool {
	return bytes.Equal(a.Info, b.Info) && a.C1 == b.C1 && a.C2 == b.C2 && a.Src == b.Src && a.Dst == b.Dst &&
		a.TPDU.Control == b.TPDU.Control && a.TPDU.Numbered == b.TPDU.Numbered && a.TPDU.Seq == b.TPDU.Seq &&
		a.TPDU.APCI == b.TPDU.APCI && bytes.Equal(a.TPDU.Data, b.TPDU.Data)
}

func c11Run(p c11Plan) *common.Fail {
	switch p.Mode {
	case "value":
		c := p.Cemi
		ref, _ := common.RefEncodeCemi(c)
		lib := common.ToLibCemi(c)
		buf := make([]byte, cemi.Size(lib))
		cemi.Pack(buf, lib)
		if !bytes.Equal(buf, ref) {
			return common.Failf("layout-encode", "cemi.Pack of %s\n gives     %x\n reference %x", common.Show(lib), buf, ref)
		}
		// the layout is a function of the value: it must come out the same in a buffer that held other bytes before
		for _, fill := range []byte{0xff, 0xa5} {
			for i := range buf {
				buf[i] = fill
			}
			cemi.Pack(buf, lib)
			if !bytes.Equal(buf, ref) {
				return common.Failf("layout-encode-stale", "cemi.Pack of %s into a buffer pre-filled with %#02x\n gives     %x\n reference %x", common.Show(lib), fill, buf, ref)
			}
		}
		// 6-bit short data: the octet that holds it also holds the two low bits of the application control code; a
		// first payload octet with bit 6 or 7 set (the application hands over a raw byte) must not reach those bits
		if c.LData != nil && !c.LData.TPDU.Control && len(c.LData.TPDU.Data) > 0 {
			for _, hi := range []byte{0x40, 0x80, 0xc0} {
				wide := *c
				ld := *c.LData
				ld.TPDU.Data = append([]byte{}, c.LData.TPDU.Data...)
				ld.TPDU.Data[0] |= hi
				wide.LData = &ld
				wlib := common.ToLibCemi(&wide)
				wbuf := make([]byte, cemi.Size(wlib))
				for i := range wbuf {
					wbuf[i] = hi ^ 0x5a
				}
				cemi.Pack(wbuf, wlib)
				if !bytes.Equal(wbuf, ref) {
					return common.Failf("layout-short-data-leak", "cemi.Pack of %s (first payload octet %#02x: only its low six bits are carried)\n gives     %x\n reference %x", common.Show(wlib), ld.TPDU.Data[0], wbuf, ref)
				}
			}
		}
		var m cemi.Message
		n, err := cemi.Unpack(ref, &m)
		if err != nil {
			return common.Failf("layout-decode-rejected", "cemi.Unpack rejects the reference layout %x: %v", ref, err)
		}
		if int(n) != len(ref) {
			return common.Failf("layout-decode-length", "cemi.Unpack consumed %d of the %d bytes of %x", n, len(ref), ref)
		}
		if uint8(m.MessageCode()) != c.Code {
			return common.Failf("layout-decode-code", "message code %#x decoded as %#x", c.Code, uint8(m.MessageCode()))
		}
		l := ldataOf(m)
		if l == nil {
			return common.Failf("layout-decode-type", "L_Data code %#x decoded as %T", c.Code, m)
		}
		want := *c.LData
		if !want.TPDU.Numbered {
			want.TPDU.Seq = 0 // not carried by the layout when the numbered flag is clear
		}
		if !want.TPDU.Control && len(want.TPDU.Data) == 0 {
			want.TPDU.Data = []byte{0} // an application unit always carries the octet that holds the 6-bit short data
		}
		if got := fromLibLData(l); !sameRLData(got, &want) {
			return common.Failf("layout-decode-fields", "bytes %x\n decoded  %+v\n expected %+v", ref, *got, want)
		}
		// the same layout followed by further octets (a padded datagram, back-to-back records): the length octets decide
		// what belongs to the frame, the consumed count says where it ends
		for _, tail := range [][]byte{{0x00}, {0xde, 0xad, 0xbe, 0xef}, bytes.Repeat([]byte{0xff}, 9)} {
			long := append(append([]byte{}, ref...), tail...)
			var m2 cemi.Message
			n2, err := cemi.Unpack(long, &m2)
			if err != nil {
				return common.Failf("layout-decode-rejected", "cemi.Unpack rejects the reference layout %x when %d further octets follow it: %v", ref, len(tail), err)
			}
			if int(n2) != len(ref) {
				return common.Failf("layout-decode-length", "cemi.Unpack consumed %d octets of the %d-octet layout %x followed by %x", n2, len(ref), ref, tail)
			}
			l2 := ldataOf(m2)
			if l2 == nil {
				return common.Failf("layout-decode-type", "L_Data code %#x followed by %x decoded as %T", c.Code, tail, m2)
			}
			if got := fromLibLData(l2); !sameRLData(got, &want) {
				return common.Failf("layout-decode-trailing", "layout %x followed by the octets %x\n decoded  %+v\n expected %+v (what follows the frame is not part of it)", ref, tail, *got, want)
			}
		}
		// the extracted fields belong to the decoded value, not to the buffer they were read from (the UDP receiver
		// decodes every datagram out of the same buffer)
		orig := append([]byte{}, ref...)
		for i := range ref {
			ref[i] ^= 0x5a
		}
		if got := fromLibLData(l); !sameRLData(got, &want) {
			return common.Failf("layout-decode-aliases-input", "fields decoded from %x change when that buffer is overwritten:\n now      %+v\n expected %+v", orig, *got, want)
		}
		// a receive loop that decodes every frame into the same message variable (cemi.Unpack(data, &msg)): what it handed
		// on for the previous frame stays what it was when the next frame of the same kind is decoded, and when the
		// next one is cut short
		{
			fresh, _ := common.RefEncodeCemi(c)
			ld2 := *c.LData
			ld2.TPDU = common.RTPDU{Numbered: !c.LData.TPDU.Numbered, Seq: 9, APCI: 2, Data: []byte{0x2a, 0x55, 0x66, 0x77}}
			ld2.Src, ld2.Dst, ld2.C1, ld2.C2 = 0x7777, 0x6666, c.LData.C1^0x0c, c.LData.C2^0x70
			ld2.Info = []byte{0x03, 0x01, 0x7f}
			c2 := *c
			c2.LData = &ld2
			next, _ := common.RefEncodeCemi(&c2)
			for _, second := range [][]byte{next, next[:len(next)-2], next[:4]} {
				var loopVar cemi.Message
				if _, err := cemi.Unpack(fresh, &loopVar); err != nil {
					break
				}
				handedOn := loopVar
				cemi.Unpack(second, &loopVar)
				if l6 := ldataOf(handedOn); l6 == nil || !sameRLData(fromLibLData(l6), &want) {
					return common.Failf("layout-decode-shared", "the message decoded from %x and handed on changed when %x (%d octets) was decoded into the same message variable:\n now      %s\n expected %+v", fresh, second, len(second), common.Show(handedOn), want)
				}
			}
		}
		// the fields are independent of each other: a relay that appends an element to the additional info it received
		// (or octets to the payload) does not change any other field of the decoded frame
		{
			fresh, _ := common.RefEncodeCemi(c)
			var m5 cemi.Message
			if _, err := cemi.Unpack(fresh, &m5); err == nil {
				if l5 := ldataOf(m5); l5 != nil {
					l5.Info = append(l5.Info, 0xa5, 0x5a, 0xc3)
					grown := want
					grown.Info = append(append([]byte{}, want.Info...), 0xa5, 0x5a, 0xc3)
					if got := fromLibLData(l5); !sameRLData(got, &grown) {
						return common.Failf("layout-decode-fields-overlap", "after three octets were appended to the additional info decoded from %x the decoded frame reads\n now      %+v\n expected %+v (the info's spare capacity is another field's storage)", fresh, *got, grown)
					}
					if a, ok := l5.Data.(*cemi.AppData); ok {
						a.Data = append(a.Data, 0x11, 0x22, 0x33)
						grown.TPDU.Data = append(append([]byte{}, grown.TPDU.Data...), 0x11, 0x22, 0x33)
						if got := fromLibLData(l5); !sameRLData(got, &grown) {
							return common.Failf("layout-decode-fields-overlap", "after three octets were appended to the payload decoded from %x the decoded frame reads\n now      %+v\n expected %+v", fresh, *got, grown)
						}
					}
				}
			}
		}
		// ... and to the value: decoding the next frame into the same L_Data structure (a receive loop that reuses its
		// variable) leaves what was handed out before - a by-value copy, the transport unit taken out of it - as it was
		{
			fresh, _ := common.RefEncodeCemi(c)
			var m4 cemi.Message
			if _, err := cemi.Unpack(fresh, &m4); err == nil {
				if l4 := ldataOf(m4); l4 != nil {
					kept := *l4
					ld2 := *c.LData
					ld2.TPDU = common.RTPDU{Numbered: !c.LData.TPDU.Numbered, Seq: 9, APCI: 2, Data: []byte{0x2a, 0x55, 0x66, 0x77}}
					ld2.Src, ld2.Dst = 0x7777, 0x6666
					c2 := *c
					c2.LData = &ld2
					next, _ := common.RefEncodeCemi(&c2)
					if _, err := l4.Unpack(next[1:]); err == nil {
						if got := fromLibLData(&kept); !sameRLData(got, &want) {
							return common.Failf("layout-decode-shared", "the L_Data value decoded from %x (copied by value) changed when %x was decoded into the same structure:\n now      %+v\n expected %+v", fresh, next, *got, want)
						}
					}
					// what is decoded into a structure that has been used before is what the bytes say - every field, also
					// the ones the new frame leaves empty (additional info present before and absent now, and the reverse)
					for _, info := range [][]byte{nil, {0x03, 0x01, 0x7f}, c.LData.Info} {
						ld3 := ld2
						ld3.Info = info
						c3 := *c
						c3.LData = &ld3
						again, _ := common.RefEncodeCemi(&c3)
						used := ldataOf(m4)
						if _, err := used.Unpack(again[1:]); err != nil {
							return common.Failf("layout-decode-used-destination", "decoding the layout %x into an L_Data structure that held the frame decoded before fails: %v", again, err)
						}
						if !ld3.TPDU.Numbered {
							ld3.TPDU.Seq = 0
						}
						if got := fromLibLData(used); !sameRLData(got, &ld3) {
							return common.Failf("layout-decode-used-destination", "layout %x decoded into an L_Data structure that had been used for another frame before:\n decoded  %+v\n expected %+v", again, *got, ld3)
						}
					}
				}
			}
		}
		// ... and to the caller: an application edits what it received (turns a control unit into its reply, say);
		// what the decoder yields for the same layout afterwards is still what the bytes say
		common.Scribble(m)
		var m3 cemi.Message
		if _, err := cemi.Unpack(append([]byte{}, orig...), &m3); err != nil {
			return common.Failf("layout-decode-shared", "after the value decoded from %x was overwritten by its owner, decoding the same layout again fails: %v", orig, err)
		}
		if l3 := ldataOf(m3); l3 == nil || !sameRLData(fromLibLData(l3), &want) {
			return common.Failf("layout-decode-shared", "after the value decoded from %x was overwritten by its owner, decoding the same layout again gives %s\n expected %+v (decoded values share state)", orig, common.Show(m3), want)
		}
	case "overwide":
		// a value whose sequence number or application control code does not fit its field (an application that keeps a
		// running uint8 counter): whatever ends up in that field's own bits, no bit of it may land in a neighbouring
		// field - the data/control flag, the numbered flag, the other half of the control octets, the length
		c := p.Cemi
		lib := common.ToLibCemi(c)
		buf := make([]byte, cemi.Size(lib))
		cemi.Pack(buf, lib)
		fit := *c
		ld := *c.LData
		fit.LData = &ld
		seqWide, apciWide := ld.TPDU.Seq > 15, (ld.TPDU.Control && ld.TPDU.APCI > 3) || (!ld.TPDU.Control && ld.TPDU.APCI > 15)
		fit.LData.TPDU.Seq &= 15
		if ld.TPDU.Control {
			fit.LData.TPDU.APCI &= 3
		} else {
			fit.LData.TPDU.APCI &= 15
		}
		ref, _ := common.RefEncodeCemi(&fit)
		if len(buf) != len(ref) {
			return common.Failf("layout-overwide", "cemi.Pack of %s gives %d octets %x, the layout has %d (%x)", common.Show(lib), len(buf), buf, len(ref), ref)
		}
		at := 9 + len(ld.Info)
		a, b := append([]byte{}, buf...), append([]byte{}, ref...)
		if at+1 < len(a) || (ld.TPDU.Control && at < len(a)) {
			if seqWide && ld.TPDU.Numbered {
				a[at] &^= 0x3c
				b[at] &^= 0x3c
			}
			if apciWide {
				a[at] &^= 0x03
				b[at] &^= 0x03
				if !ld.TPDU.Control {
					a[at+1] &^= 0xc0
					b[at+1] &^= 0xc0
				}
			}
		}
		if !bytes.Equal(a, b) {
			return common.Failf("layout-overwide", "cemi.Pack of %s (sequence number %d, control code %d: wider than their fields)\n gives     %x\n reference %x (apart from the bits of the over-wide field itself): a neighbouring field was touched",
				common.Show(lib), ld.TPDU.Seq, ld.TPDU.APCI, buf, ref)
		}
	case "oversize-info":
		// additional info longer than its one-octet length field can say: the encoding carries the first 255 octets
		// and says so, every later field sits where a reader that trusts the length octet looks for it
		c := p.Cemi
		lib := common.ToLibCemi(c)
		buf := make([]byte, cemi.Size(lib))
		cemi.Pack(buf, lib)
		got, err := common.RefDecodeCemi(buf)
		if err != nil || got.LData == nil {
			return common.Failf("layout-oversize-info", "cemi.Pack of an L_Data frame with %d info octets gives %d octets starting %x, which do not read back as an L_Data layout: %v", len(c.LData.Info), len(buf), buf[:12], err)
		}
		want := *c.LData
		want.Info = want.Info[:255]
		if !want.TPDU.Numbered {
			want.TPDU.Seq = 0
		}
		if !sameRLData(got.LData, &want) {
			g := *got.LData
			return common.Failf("layout-oversize-info", "cemi.Pack of an L_Data frame with %d info octets: length octet %#02x, read back with %d info octets, control fields %#02x %#02x, source %#04x, destination %#04x - expected the first 255 info octets and control fields %#02x %#02x, source %#04x, destination %#04x",
				len(c.LData.Info), buf[1], len(g.Info), g.C1, g.C2, g.Src, g.Dst, want.C1, want.C2, want.Src, want.Dst)
		}
	case "bytes":
		b, _ := hex.DecodeString(p.Hex)
		want, rerr := common.RefDecodeCemi(b)
		if rerr != nil || want.LData == nil {
			return nil // not an exact L_Data layout: out of this property's domain (C01 covers it)
		}
		var m cemi.Message
		n, err := cemi.Unpack(b, &m)
		if err != nil {
			return common.Failf("layout-decode-rejected", "cemi.Unpack rejects the exact L_Data layout %x: %v", b, err)
		}
		l := ldataOf(m)
		if l == nil || uint8(m.MessageCode()) != want.Code || int(n) != len(b) {
			return common.Failf("layout-decode-type", "layout %x decoded as %T code %#x n=%d", b, m, uint8(m.MessageCode()), n)
		}
		if got := fromLibLData(l); !sameRLData(got, want.LData) {
			return common.Failf("layout-decode-fields", "bytes %x\n decoded  %+v\n reference decoder %+v", b, *got, *want.LData)
		}
		orig := append([]byte{}, b...)
		for i := range b {
			b[i] ^= 0x5a
		}
		if got := fromLibLData(l); !sameRLData(got, want.LData) {
			return common.Failf("layout-decode-aliases-input", "fields decoded from %x change when that buffer is overwritten:\n now      %+v\n reference decoder %+v", orig, *got, *want.LData)
		}
	case "helper":
		x := uint8(p.Arg)
		switch p.Helper {
		case "Control1Prio":
			got := uint8(cemi.Control1Prio(cemi.Priority(x)))
			if got&^0x0c != 0 {
				return common.Failf("helper", "Control1Prio(%d) = %#02x touches bits outside 3..2", x, got)
			}
			if x <= 3 && got != x<<2 {
				return common.Failf("helper", "Control1Prio(%d) = %#02x, layout says %#02x", x, got, x<<2)
			}
		case "Control2Hops":
			w := x
			if w > 7 {
				w = 7
			}
			if got := uint8(cemi.Control2Hops(x)); got != w<<4 {
				return common.Failf("helper", "Control2Hops(%d) = %#02x, layout says %#02x", x, got, w<<4)
			}
			if got := cemi.Control2Hops(x).Hops(); got != w {
				return common.Failf("helper", "Control2Hops(%d).Hops() = %d, want %d", x, got, w)
			}
		case "Hops":
			if got := cemi.ControlField2(x).Hops(); got != (x>>4)&7 {
				return common.Failf("helper", "ControlField2(%#02x).Hops() = %d, bits 6..4 hold %d", x, got, (x>>4)&7)
			}
		case "IsGroupAddr":
			if got := cemi.ControlField2(x).IsGroupAddr(); got != (x&0x80 != 0) {
				return common.Failf("helper", "ControlField2(%#02x).IsGroupAddr() = %v", x, got)
			}
		case "IsGroupCommand":
			if got := cemi.APCI(x).IsGroupCommand(); got != (x <= 2) {
				return common.Failf("helper", "APCI(%d).IsGroupCommand() = %v", x, got)
			}
		case "Constants":
			if cemi.Control1StdFrame != 0x80 || cemi.Control1NoRepeat != 0x20 || cemi.Control1NoSysBroadcast != 0x10 ||
				cemi.Control1WantAck != 0x02 || cemi.Control1HasError != 0x01 || cemi.Control2GroupAddr != 0x80 {
				return common.Failf("helper", "control field constants do not match the cEMI layout")
			}
			if cemi.LDataReqCode != 0x11 || cemi.LDataConCode != 0x2e || cemi.LDataIndCode != 0x29 {
				return common.Failf("helper", "L_Data message codes do not match the cEMI specification")
			}
		}
	}
	return nil
}

func TestC11(t *testing.T) {
	rec := common.NewRec("C11", "pure")
	completed := false
	defer func() { rec.Finish(completed) }()
	if rec.Env.Replay != "" {
		common.ReplayOnly(t, rec, c11Run)
		completed = true
		return
	}
	idx := 0
	do := func(p c11Plan) {
		idx++
		if !rec.Env.Mine(idx) {
			return
		}
		rec.Eval(1)
		rec.NonTrivialEnum(1)
		if f := common.Guard(func() *common.Fail { return c11Run(p) }); f != nil {
			common.Report(t, rec, f, p)
		}
	}
	codes := []uint8{common.CodeLDataReq, common.CodeLDataCon, common.CodeLDataInd}
	base := func() *common.RCemi {
		return &common.RCemi{Code: common.CodeLDataReq, LData: &common.RLData{C1: 0xbc, C2: 0xe0, Src: 0x1101, Dst: 0x0801,
			TPDU: common.RTPDU{APCI: 2, Data: []byte{1}}}}
	}
	// helpers over their complete 8-bit domains
	for _, h := range []string{"Control1Prio", "Control2Hops", "Hops", "IsGroupAddr", "IsGroupCommand"} {
		for x := 0; x < 256; x++ {
			do(c11Plan{Mode: "helper", Helper: h, Arg: x})
		}
	}
	do(c11Plan{Mode: "helper", Helper: "Constants"})
	rec.Exhaustive("helper functions Control1Prio, Control2Hops, Hops, IsGroupAddr, IsGroupCommand over all 256 arguments")
	// all 2^16 control octet pairs (x3 message codes, rotating)
	for c1 := 0; c1 < 256; c1++ {
		for c2 := 0; c2 < 256; c2++ {
			c := base()
			c.Code = codes[(c1+c2)%3]
			c.LData.C1, c.LData.C2 = uint8(c1), uint8(c2)
			if (c1^c2)&1 == 1 {
				c.LData.TPDU = common.RTPDU{Control: true, APCI: uint8(c1 & 3)}
			}
			do(c11Plan{Mode: "value", Cemi: c})
		}
	}
	rec.Exhaustive("all 2^16 combinations of the two control octets")
	// APCI x sequence x numbered x control/data
	for apci := 0; apci < 16; apci++ {
		for seq := 0; seq < 16; seq++ {
			for _, numbered := range []bool{false, true} {
				for _, ctl := range []bool{false, true} {
					for _, code := range codes {
						c := base()
						c.Code = code
						c.LData.TPDU = common.RTPDU{Control: ctl, Numbered: numbered, Seq: uint8(seq), APCI: uint8(apci), Data: []byte{uint8(apci*4+seq) & 0x3f, 0xaa}}
						if ctl {
							c.LData.TPDU.APCI &= 3
							c.LData.TPDU.Data = nil
						}
						// an unnumbered unit has no sequence number on the wire: whatever the value's field
						// holds (e.g. left over in a re-used struct), bits 5..2 of the TPCI octet are zero
						do(c11Plan{Mode: "value", Cemi: c})
					}
				}
			}
		}
	}
	// additional info longer than 255 octets
	for _, n := range []int{256, 257, 300, 400, 510, 511, 512, 767, 1000} {
		c := base()
		c.LData.Info = make([]byte, n)
		for i := range c.LData.Info {
			c.LData.Info[i] = byte(i*7 + n)
		}
		do(c11Plan{Mode: "oversize-info", Cemi: c})
	}
	// sequence numbers and control codes wider than their fields
	for _, ctl := range []bool{false, true} {
		for _, numbered := range []bool{false, true} {
			for v := 0; v < 256; v++ {
				c := base()
				c.LData.TPDU = common.RTPDU{Control: ctl, Numbered: numbered, Seq: uint8(v), APCI: 2, Data: []byte{0x15, 0xaa}}
				if ctl {
					c.LData.TPDU.Data = nil
				}
				do(c11Plan{Mode: "overwide", Cemi: c})
				c2 := base()
				c2.LData.TPDU = common.RTPDU{Control: ctl, Numbered: numbered, Seq: 5, APCI: uint8(v), Data: []byte{0x15, 0xaa}}
				if ctl {
					c2.LData.TPDU.Data = nil
				}
				do(c11Plan{Mode: "overwide", Cemi: c2})
			}
		}
	}
	rec.Exhaustive("every 8-bit sequence number and every 8-bit control code (also those wider than the field) x numbered x control/data: no bit outside the field's own slot changes")
	// application units without payload (group reads): the short-data field must be written as zero
	for apci := 0; apci < 16; apci++ {
		for _, numbered := range []bool{false, true} {
			c := base()
			c.LData.TPDU = common.RTPDU{Numbered: numbered, APCI: uint8(apci)}
			if numbered {
				c.LData.TPDU.Seq = uint8(apci)
			}
			do(c11Plan{Mode: "value", Cemi: c})
		}
	}
	rec.Exhaustive("all 16 APCI x 16 sequence x numbered x control/data combinations; all 16 APCI x numbered with an empty application payload")
	// every TPCI octet and APCI-low/short-data octet in raw bytes (decode direction incl. reserved bit patterns)
	for tp := 0; tp < 256; tp++ {
		for a := 0; a < 256; a += 1 {
			var b []byte
			if tp&0x80 != 0 {
				if a > 0 {
					continue
				}
				b = []byte{0x29, 0, 0xbc, 0xe0, 0x11, 0x01, 0x08, 0x01, 0, byte(tp)}
			} else {
				b = []byte{0x29, 0, 0xbc, 0xe0, 0x11, 0x01, 0x08, 0x01, 2, byte(tp), byte(a), 0x55}
			}
			do(c11Plan{Mode: "bytes", Hex: hex.EncodeToString(b)})
		}
	}
	rec.Exhaustive("all 256 TPCI octets x all 256 following octets as raw layouts (decode direction)")
	// payload lengths 1..254 and info lengths 0..255, each with every first-byte / fill variation
	for n := 1; n <= 254; n++ {
		for _, fill := range []byte{0x00, 0xff, 0x5a} {
			c := base()
			c.LData.TPDU.Data = bytes.Repeat([]byte{fill}, n)
			c.LData.TPDU.Data[0] &= 0x3f
			do(c11Plan{Mode: "value", Cemi: c})
		}
	}
	for n := 0; n <= 255; n++ {
		for _, fill := range []byte{0x00, 0xff, 0x5a} {
			c := base()
			c.LData.Info = bytes.Repeat([]byte{fill}, n)
			do(c11Plan{Mode: "value", Cemi: c})
		}
	}
	rec.Exhaustive("payload lengths 1..254 and additional-info lengths 0..255")
	// corner addresses
	for _, src := range []uint16{0, 1, 0xff, 0x100, 0x1101, 0x7fff, 0x8000, 0xfffe, 0xffff} {
		for _, dst := range []uint16{0, 1, 0xff, 0x100, 0x0801, 0x7fff, 0x8000, 0xfffe, 0xffff} {
			c := base()
			c.LData.Src, c.LData.Dst = src, dst
			do(c11Plan{Mode: "value", Cemi: c})
		}
	}
	rec.Sample("value", c11Plan{Mode: "value", Cemi: base()})
	rec.Sample("bytes", c11Plan{Mode: "bytes", Hex: "2900bce01101080102438155"})
	rec.Sample("helper", c11Plan{Mode: "helper", Helper: "Hops", Arg: 0x60})
	// sampled: everything at once
	common.Drive(t, rec, func(rt *rapid.T) c11Plan {
		kind := rapid.SampledFrom(common.CemiKinds[:6]).Draw(rt, "kind")
		c := common.GenCemi(rt, kind)
		if !c.LData.TPDU.Control && rapid.IntRange(0, 5).Draw(rt, "empty-payload") == 0 {
			c.LData.TPDU.Data = nil
		}
		if !c.LData.TPDU.Numbered && rapid.Bool().Draw(rt, "stale-seq") {
			c.LData.TPDU.Seq = uint8(rapid.IntRange(1, 15).Draw(rt, "stale-seq-value")) // must not reach the wire
		}
		ref, _ := common.RefEncodeCemi(c)
		rec.NonTrivial(common.Hash64(ref))
		rec.Class("rapid-" + kind)
		if rapid.Bool().Draw(rt, "asbytes") {
			// decode direction on raw bytes, with arbitrary (also reserved) TPCI sequence bits
			tpOff := 1 + 1 + len(c.LData.Info) + 6 + 1
			if !c.LData.TPDU.Control {
				ref[tpOff] = ref[tpOff]&0x83 | uint8(rapid.IntRange(0, 31).Draw(rt, "tpcibits"))<<2
			}
			return c11Plan{Mode: "bytes", Hex: hex.EncodeToString(ref)}
		}
		return c11Plan{Mode: "value", Cemi: c}
	}, c11Run)
	_ = fmt.Sprint
	completed = true
}
