package pure

import (
	"bytes"
	"encoding/hex"
	"fmt"
	"testing"

	"github.com/vapourismo/knx-go/knx/cemi"
	"github.com/vapourismo/knx-go/knx/knxnet"
	"github.com/vapourismo/knx-go/knx/util"
	"pgregory.net/rapid"
	"verif/harness/common"
)

// c15Plan: a frame description (mode "frame": the service, the whole packet and every
// sub-structure are packed into pre-filled, guarded buffers) or an oversize variable part.
type c15Plan struct {
	Mode     string         `json:"mode"` // frame | over-info | over-appdata | over-name | nonlatin-name
	Kind     string         `json:"kind,omitempty"`
	CemiKind string         `json:"cemi_kind,omitempty"`
	Frame    *common.RFrame `json:"frame,omitempty"`
	Big      []byte         `json:"big,omitempty"`  // oversize info / application data / Latin-1 name bytes
	Name     string         `json:"name,omitempty"` // non-Latin-1 name
	Fill     string         `json:"fill"`           // hex of the random pre-fill pattern (repeated)
	// mode storm: Frame and Storm are each encoded (and decoded, re-encoded) Reps times by their own goroutine at once
	Storm []*common.RFrame `json:"storm,omitempty"`
	Reps  int              `json:"reps,omitempty"`
	// description responses: further kept blocks put into the value by hand - a type octet each, no data (what an
	// application that builds its answer block by block may hold; the decoder never yields such a block), placed
	// before (even index) or behind (odd index) the blocks the frame description brings
	EmptyBlocks []int `json:"empty_blocks,omitempty"`
}

type namedPackable struct {
	name string
	p    util.Packable
}

const guardLen = 16

// packGuarded packs p into buffers of Size()+16 pre-filled three ways and into an exact-capacity
// slice. It returns the encoding (from the zero-filled buffer).
func packGuarded(name string, p util.Packable, fill []byte) ([]byte, *common.Fail) {
	s := int(p.Size())
	var outs [][]byte
	for fi := 0; fi < 3; fi++ {
		buf := make([]byte, s+guardLen)
		for i := range buf {
			switch fi {
			case 0:
				buf[i] = 0x00
			case 1:
				buf[i] = 0xff
			default:
				if len(fill) > 0 {
					buf[i] = fill[i%len(fill)]
				} else {
					buf[i] = byte(i*13 + 5)
				}
			}
		}
		before := append([]byte{}, buf[s:]...)
		if f := common.Guard(func() *common.Fail { p.Pack(buf); return nil }); f != nil {
			return nil, common.Failf("pack-panic", "%s: Pack into a buffer of Size()+16 = %d bytes panics: %s", name, s+guardLen, f.Detail)
		}
		if !bytes.Equal(buf[s:], before) {
			return nil, common.Failf("wrote-beyond-size", "%s: Size() = %d but Pack changed guard bytes behind it: %x -> %x", name, s, before, buf[s:])
		}
		outs = append(outs, buf[:s])
	}
	for fi := 1; fi < 3; fi++ {
		if !bytes.Equal(outs[0], outs[fi]) {
			return nil, common.Failf("stale-bytes-leak", "%s: encoding depends on the previous buffer content:\n zero-filled   %x\n other fill(%d) %x", name, outs[0], fi, outs[fi])
		}
	}
	exact := make([]byte, s, s)
	if f := common.Guard(func() *common.Fail { p.Pack(exact); return nil }); f != nil {
		return nil, common.Failf("size-too-small", "%s: Pack into a buffer of exactly Size() = %d bytes panics: %s", name, s, f.Detail)
	}
	if !bytes.Equal(exact, outs[0]) {
		return nil, common.Failf("stale-bytes-leak", "%s: exact-size encoding %x differs from %x", name, exact, outs[0])
	}
	return outs[0], nil
}

func subPackables(f *common.RFrame, srv knxnet.Service) []namedPackable {
	var out []namedPackable
	if sp, ok := srv.(knxnet.ServicePackable); ok {
		out = append(out, namedPackable{fmt.Sprintf("%T", srv), sp})
	}
	h := knxnet.HostInfo{Protocol: knxnet.Protocol(f.Control.Proto), Address: knxnet.Address(f.Control.IP), Port: knxnet.Port(f.Control.Port)}
	out = append(out, namedPackable{"HostInfo", &h})
	if f.Cemi != nil {
		m := common.ToLibCemi(f.Cemi)
		out = append(out, namedPackable{fmt.Sprintf("%T", m), m})
		if l := ldataOf(m); l != nil {
			out = append(out, namedPackable{"Info", l.Info}, namedPackable{fmt.Sprintf("%T", l.Data), l.Data})
		}
	}
	switch v := srv.(type) {
	case *knxnet.SearchRes:
		out = append(out, namedPackable{"DeviceInformationBlock", &v.DescriptionB.DeviceHardware}, namedPackable{"SupportedServicesDIB", &v.DescriptionB.SupportedServices})
		for i := range v.DescriptionB.SupportedServices.Families {
			out = append(out, namedPackable{"ServiceFamily", &v.DescriptionB.SupportedServices.Families[i]})
		}
	case *knxnet.DescriptionRes:
		out = append(out, namedPackable{"DeviceInformationBlock", &v.DeviceHardware}, namedPackable{"SupportedServicesDIB", &v.SupportedServices})
	}
	if len(f.Raw) > 0 {
		out = append(out, namedPackable{"UnknownService", &knxnet.UnknownService{Data: append([]byte{}, f.Raw...)}})
	}
	return out
}

func c15Run(p c15Plan) *common.Fail {
	fill, _ := hex.DecodeString(p.Fill)
	switch p.Mode {
	case "storm":
		// "determines every byte" also when other goroutines encode their own values into their own buffers
		return c02Storm(framePlan{Kind: p.Kind, CemiKind: p.CemiKind, Frame: p.Frame, Storm: p.Storm, Reps: p.Reps})
	case "frame":
		srv := common.ToLib(p.Frame)
		if srv == nil {
			srv = &knxnet.UnknownService{Data: append([]byte{}, p.Frame.Raw...)}
		}
		if sr, ok := srv.(*knxnet.SearchRes); ok {
			// a search response value that holds kept blocks (a description block taken over from a description
			// response): whether the encoder writes them or not, Size() is what Pack writes
			for i, ty := range p.EmptyBlocks {
				blk := knxnet.UnknownDescriptionBlock{Type: knxnet.DescriptionType(ty)}
				if i%2 == 0 {
					blk.Data = []byte{byte(i), 0xb2, 0xb3}
				}
				sr.DescriptionB.UnknownBlocks = append(sr.DescriptionB.UnknownBlocks, blk)
			}
		}
		if dr, ok := srv.(*knxnet.DescriptionRes); ok {
			for i, ty := range p.EmptyBlocks {
				blk := knxnet.UnknownDescriptionBlock{Type: knxnet.DescriptionType(ty)}
				if i%4 >= 2 {
					blk.Data = []byte{}
				}
				if i%2 == 0 {
					dr.UnknownBlocks = append([]knxnet.UnknownDescriptionBlock{blk}, dr.UnknownBlocks...)
				} else {
					dr.UnknownBlocks = append(dr.UnknownBlocks, blk)
				}
			}
			for i := range dr.UnknownBlocks {
				if _, f := packGuarded("UnknownDescriptionBlock", &dr.UnknownBlocks[i], fill); f != nil {
					return f
				}
			}
		}
		for _, np := range subPackables(p.Frame, srv) {
			if _, f := packGuarded(np.name, np.p, fill); f != nil {
				return f
			}
		}
		sp, ok := srv.(knxnet.ServicePackable)
		if !ok {
			return nil
		}
		// whole packet: header total length = Size + 6 = len(AllocAndPack)
		total := int(knxnet.Size(sp))
		if total != int(sp.Size())+6 {
			return common.Failf("packet-size", "knxnet.Size = %d, service Size()+6 = %d", total, sp.Size()+6)
		}
		var enc []byte
		for fi, fb := range []byte{0x00, 0xff, 0xa5} {
			buf := bytes.Repeat([]byte{fb}, total+guardLen)
			if f := common.Guard(func() *common.Fail { knxnet.Pack(buf, sp); return nil }); f != nil {
				return common.Failf("pack-panic", "knxnet.Pack(%T) into Size()+16 bytes panics: %s", srv, f.Detail)
			}
			if !bytes.Equal(buf[total:], bytes.Repeat([]byte{fb}, guardLen)) {
				return common.Failf("wrote-beyond-size", "knxnet.Pack(%T): bytes beyond knxnet.Size()=%d were modified", srv, total)
			}
			if fi == 0 {
				enc = append([]byte{}, buf[:total]...)
			} else if !bytes.Equal(enc, buf[:total]) {
				return common.Failf("stale-bytes-leak", "knxnet.Pack(%T): packet depends on previous buffer content:\n %x\n %x", srv, enc, buf[:total])
			}
		}
		ap := knxnet.AllocAndPack(sp)
		if len(ap) != total || !bytes.Equal(ap, enc) {
			return common.Failf("packet-size", "AllocAndPack gives %d bytes %x, Pack into Size() gives %d bytes %x", len(ap), ap, total, enc)
		}
		if hl := int(enc[4])<<8 | int(enc[5]); hl != total {
			return common.Failf("header-length", "header total length %d, packet is %d bytes (%T)", hl, total, srv)
		}
	case "over-info", "over-appdata":
		l := &common.RLData{C1: 0xbc, C2: 0xe0, Src: 0x1101, Dst: 0x0801, TPDU: common.RTPDU{APCI: 2, Numbered: true, Seq: 5, Data: []byte{0x01, 0x02}}}
		if p.Mode == "over-info" {
			l.Info = p.Big
		} else {
			l.TPDU.Data = append([]byte{}, p.Big...)
			l.TPDU.Data[0] &= 0x3f
			l.Info = []byte{0xaa, 0xbb}
		}
		m := common.ToLibCemi(&common.RCemi{Code: common.CodeLDataReq, LData: l})
		ld := ldataOf(m)
		for _, np := range []namedPackable{{"Info(oversize)", ld.Info}, {"TPDU(oversize)", ld.Data}, {"LDataReq(oversize part)", m}} {
			if _, f := packGuarded(np.name, np.p, fill); f != nil {
				return f
			}
		}
		enc, f := packGuarded("LDataReq(oversize part)", m, fill)
		if f != nil {
			return f
		}
		got, err := common.RefDecodeLData(enc)
		if err != nil {
			return common.Failf("oversize-corrupts", "%s of %d bytes: encoding is not a well-formed L_Data body: %v (%x)", p.Mode, len(p.Big), err, enc)
		}
		want := *l
		if p.Mode == "over-info" {
			want.Info = p.Big[:255]
		} else {
			want.TPDU.Data = append([]byte{}, p.Big[:255]...)
			want.TPDU.Data[0] &= 0x3f
		}
		if !sameRLData(got, &want) {
			return common.Failf("oversize-corrupts", "%s of %d bytes: decoded fields differ from the truncated original:\n got  %+v\n want %+v", p.Mode, len(p.Big), *got, want)
		}
	case "over-name", "nonlatin-name":
		name := p.Name
		if p.Mode == "over-name" {
			name = common.Latin1ToString(p.Big)
		}
		d := knxnet.DeviceInformationBlock{Type: 1, Medium: 2, Source: 0x1101, SerialNumber: knxnet.DeviceSerialNumber{1, 2, 3, 4, 5, 6},
			RoutingMulticastAddress: knxnet.Address{224, 0, 23, 12}, HardwareAddr: []byte{0xa1, 0xa2, 0xa3, 0xa4, 0xa5, 0xa6}, FriendlyName: name}
		res := &knxnet.DescriptionRes{DeviceHardware: d, SupportedServices: knxnet.SupportedServicesDIB{Type: 2, Families: []knxnet.ServiceFamily{{Type: 2, Version: 1}, {Type: 4, Version: 1}}}}
		if _, f := packGuarded("DeviceInformationBlock(long name)", &d, fill); f != nil {
			return f
		}
		enc, f := packGuarded("DescriptionRes(long name)", res, fill)
		if f != nil {
			return f
		}
		if len(enc) != 54+6 {
			return common.Failf("oversize-corrupts", "description response with a long name is %d bytes, layout says 60", len(enc))
		}
		if !bytes.Equal(enc[18:24], []byte{0xa1, 0xa2, 0xa3, 0xa4, 0xa5, 0xa6}) || !bytes.Equal(enc[54:], []byte{6, 2, 2, 1, 4, 1}) || enc[0] != 54 || enc[1] != 1 {
			return common.Failf("oversize-corrupts", "long name corrupts neighbouring fields: %x", enc)
		}
		if p.Mode == "over-name" {
			field := enc[24:54]
			if !bytes.Equal(field[:29], p.Big[:29]) || (field[29] != 0 && field[29] != p.Big[29]) {
				return common.Failf("oversize-not-truncated", "name of %d characters: name field %x is not a 29/30-character prefix of %x", len(p.Big), field, p.Big)
			}
		}
	}
	return nil
}

func TestC15(t *testing.T) {
	rec := common.NewRec("C15", "pure")
	completed := false
	defer func() { rec.Finish(completed) }()
	cells := c02Cells()
	for _, k := range []string{"routinglost", "routingbusy", "unknown"} {
		cells = append(cells, cell{k, ""})
	}
	common.Drive(t, rec, func(rt *rapid.T) c15Plan {
		p := c15Plan{Fill: hex.EncodeToString(common.GenBytes(rt, "fill", 1, 16))}
		switch rapid.IntRange(0, 9).Draw(rt, "mode") {
		case 0:
			p.Mode, p.Big = "over-info", common.GenBytes(rt, "big", 256, 600)
		case 1:
			p.Mode, p.Big = "over-appdata", common.GenBytes(rt, "big", 256, 600)
		case 2:
			p.Mode, p.Big = "over-name", common.GenBytes(rt, "big", 30, 80)
			for i := range p.Big {
				if p.Big[i] == 0 {
					p.Big[i] = 'n'
				}
			}
		case 3:
			p.Mode = "nonlatin-name"
			p.Name = rapid.StringOfN(rapid.RuneFrom([]rune("aZ9 \u00e9\u20ac\u4e2d\U0001F600\u0100\uffff")), 0, 79, -1).Draw(rt, "name") +
				string(rapid.SampledFrom([]rune("\u20ac\u4e2d\U0001F600\u0100")).Draw(rt, "nonlatin"))
		case 4:
			if rapid.IntRange(0, 19).Draw(rt, "storm") == 0 {
				// frames with text fields and description blocks (shared converters), a few others
				p.Mode, p.Kind = "storm", rapid.SampledFrom([]string{"searchres", "descrres", "connreq", "connres-ok"}).Draw(rt, "storm-kind")
				p.Frame = common.GenFrame(rt, p.Kind, "")
				for i := 0; i < rapid.IntRange(1, 7).Draw(rt, "storm-frames"); i++ {
					k := rapid.SampledFrom([]string{"searchres", "descrres", "descrres", "tunnelreq", "routingind", "connreq", "connreq", "connres-ok"}).Draw(rt, "storm-frame-kind")
					ck := ""
					if common.CarriesCemi(k) {
						ck = rapid.SampledFrom(common.CemiKinds).Draw(rt, "storm-cemikind")
					}
					p.Storm = append(p.Storm, common.GenFrame(rt, k, ck))
				}
				p.Reps = rapid.SampledFrom([]int{50, 300}).Draw(rt, "storm-reps")
				break
			}
			fallthrough
		default:
			fp := genFramePlan(rt, cells)
			p.Mode, p.Kind, p.CemiKind, p.Frame = "frame", fp.Kind, fp.CemiKind, fp.Frame
			// more service families than the one-octet structure length can describe (127 and up): whatever the
			// length octet then says, Size() is what Pack writes and every octet of it is determined
			if fam := p.Frame.Fam; fam != nil && rapid.IntRange(0, 2).Draw(rt, "many-families") == 0 {
				n := rapid.SampledFrom([]int{126, 127, 128, 129, 200, 255, 256, 300}).Draw(rt, "n-families")
				for len(fam.Families) < n {
					fam.Families = append(fam.Families, [2]uint8{uint8(len(fam.Families)*7 + 2), uint8(len(fam.Families) + 1)})
				}
				rec.Class("families-beyond-length-octet")
			}
			if (p.Kind == "descrres" || p.Kind == "searchres") && rapid.IntRange(0, 2).Draw(rt, "empty-blocks") == 0 {
				for i := 0; i < rapid.IntRange(1, 4).Draw(rt, "n-empty-blocks"); i++ {
					p.EmptyBlocks = append(p.EmptyBlocks, int(rapid.SampledFrom([]uint8{3, 4, 5, 0xfe, 6, 0, 0xff}).Draw(rt, "empty-block-type")))
				}
				rec.Class("description-response-with-data-less-blocks")
			}
			// an application unit without payload (the shape of a group read) is encodable too: the
			// encoder must then write the one mandatory octet itself instead of leaving what was there
			if c := p.Frame.Cemi; c != nil && c.LData != nil && !c.LData.TPDU.Control && rapid.IntRange(0, 3).Draw(rt, "empty-payload") == 0 {
				c.LData.TPDU.Data = nil
				rec.Class("empty-application-payload")
			}
		}
		rec.Class("mode:" + p.Mode)
		if p.Mode == "frame" {
			rec.Class("cell:" + p.Kind + "/" + p.CemiKind)
			ref, _ := common.RefEncode(p.Frame)
			if frameNonTrivial(p.Frame) {
				rec.NonTrivial(common.Hash64(ref, []byte(p.Fill)))
			}
		} else {
			rec.NonTrivial(common.Hash64([]byte(p.Mode), p.Big, []byte(p.Name)))
		}
		rec.Sample(p.Mode+p.Kind, p)
		return p
	}, c15Run)
	completed = true
}

var _ = cemi.Size
